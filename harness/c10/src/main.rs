//! C10 — indexing a received pack matches `git index-pack`.
//!
//! * packs from the REAL `git pack-objects` for random histories (full with `--delta-base-offset`; `--thin`
//!   against a receiving repository that has the older history; `--depth` / `--window` varied) are stored
//!   with `gix_pack::Bundle::write_to_directory` with thread limits 1, 2, 3, 4, 8, 16 AND with
//!   `gix_pack::Bundle::write_to_directory_eagerly` (what clone/fetch use; the entries are read in a thread of
//!   their own through `EagerIter` once the pack has more objects than the threshold at the call site).
//!   Packs of many tiny blobs (`git fast-import` + `git pack-objects`) with object counts around the chunk
//!   size and above the threshold — the constants are read from the call site in gix-pack — and `EagerIter`
//!   itself against the plain iterator for every length around small chunk sizes.
//!   Oracle: the `.idx` is byte-identical to what `git index-pack` writes (non-thin) and identical for all
//!   thread limits; for thin packs the object ids equal those of `git index-pack --fix-thin`, `git
//!   index-pack` run on the pack gitoxide wrote reproduces gitoxide's `.idx` byte for byte and `git
//!   verify-pack` accepts the pair; every object is read back through `gix_pack::Bundle::find` and hashes to
//!   its id.
//! * correspondence: the delta forest of the written pack (what `Tree::add_root/add_child` see) goes to the
//!   Lean traversal model, which is run under three pseudo-random schedules with 1..16 workers and must
//!   predict for every entry the root of its chain and its depth — the observation is taken from `git
//!   verify-pack -v`. Crafted thin packs (ref-deltas against ODB objects, repeated bases, ofs-deltas over
//!   insertions, size changes that cancel) go to the Lean model of `LookupRefDeltaObjectsIter`, which must
//!   predict offset, header kind/distance and header size of every entry of the pack gitoxide writes.
//! * faults: truncations and single-byte flips of those streams must be rejected with an error (no panic)
//!   and leave no `pack-*.pack` / `pack-*.idx` / tempfile behind. The persist protocol is observed for a
//!   fresh directory, an already existing pair, an existing pack without index, and a failing input.
use hcommon::*;
use std::collections::BTreeMap;
use std::path::{Path, PathBuf};
use std::sync::atomic::AtomicBool;

const THREADS: [usize; 6] = [1, 2, 3, 4, 8, 16];

fn errmsg(e: &dyn std::error::Error) -> String {
    let mut msg = e.to_string();
    let mut src = e.source();
    while let Some(s) = src {
        msg.push_str(": ");
        msg.push_str(&s.to_string());
        src = s.source();
    }
    msg
}

static NEVER_INTERRUPTED: AtomicBool = AtomicBool::new(false);

fn write_opts(threads: usize) -> gix_pack::bundle::write::Options {
    gix_pack::bundle::write::Options {
        thread_limit: Some(threads),
        iteration_mode: gix_pack::data::input::Mode::Verify,
        index_version: gix_pack::index::Version::V2,
        object_hash: gix_hash::Kind::Sha1,
    }
}

fn write_pack(
    pack: &[u8],
    dir: &Path,
    threads: usize,
    thin_odb: Option<&Path>,
) -> Result<gix_pack::bundle::write::Outcome, String> {
    let mut rd = std::io::BufReader::new(pack);
    let opts = write_opts(threads);
    let intr = AtomicBool::new(false);
    let mut progress = gix_features::progress::Discard;
    let res = match thin_odb {
        Some(odb) => {
            let handle = gix_odb::at(odb).map_err(|e| e.to_string())?;
            gix_pack::Bundle::write_to_directory(&mut rd, Some(dir), &mut progress, &intr, Some(handle), opts)
        }
        None => {
            gix_pack::Bundle::write_to_directory(&mut rd, Some(dir), &mut progress, &intr, None::<gix_odb::Handle>, opts)
        }
    };
    res.map_err(|e| errmsg(&e))
}

/// the entry point of clone/fetch: the pack is read in a thread of its own
fn write_pack_eagerly(
    pack: &[u8],
    dir: &Path,
    threads: usize,
    thin_odb: Option<&Path>,
    with_size: bool,
) -> Result<gix_pack::bundle::write::Outcome, String> {
    let rd: Box<dyn std::io::Read + Send + 'static> = Box::new(std::io::Cursor::new(pack.to_vec()));
    let size = with_size.then_some(pack.len() as u64);
    let opts = write_opts(threads);
    let mut progress = gix_features::progress::Discard;
    let res = match thin_odb {
        Some(odb) => {
            let handle = gix_odb::at(odb).map_err(|e| e.to_string())?;
            gix_pack::Bundle::write_to_directory_eagerly(rd, size, Some(dir), &mut progress, &NEVER_INTERRUPTED, Some(handle), opts)
        }
        None => gix_pack::Bundle::write_to_directory_eagerly(
            rd,
            size,
            Some(dir),
            &mut progress,
            &NEVER_INTERRUPTED,
            None::<gix_odb::Handle>,
            opts,
        ),
    };
    res.map_err(|e| errmsg(&e))
}

/// both entry points; `eager` selects
fn write_pack_via(eager: bool, pack: &[u8], dir: &Path, threads: usize, thin_odb: Option<&Path>) -> Result<gix_pack::bundle::write::Outcome, String> {
    if eager {
        write_pack_eagerly(pack, dir, threads, thin_odb, threads % 2 == 0)
    } else {
        write_pack(pack, dir, threads, thin_odb)
    }
}

fn dir_listing(dir: &Path) -> Vec<String> {
    let mut v: Vec<String> = std::fs::read_dir(dir)
        .map(|rd| rd.filter_map(Result::ok).map(|e| e.file_name().to_string_lossy().to_string()).collect())
        .unwrap_or_default();
    v.sort();
    v
}

fn fresh_dir(sc: &Scratch, name: &str) -> PathBuf {
    let d = sc.join(name);
    let _ = std::fs::remove_dir_all(&d);
    std::fs::create_dir_all(&d).unwrap();
    d
}

// ---------------------------------------------------------------------------------------------
// histories and packs from the real git
// ---------------------------------------------------------------------------------------------

struct History {
    repo: PathBuf,
    recv: PathBuf,
    commits: usize,
    base_commits: usize,
}

fn make_history(sc: &Scratch, rng: &mut Rng, idx: u64) -> History {
    let repo = fresh_dir(sc, &format!("src{idx}"));
    git_ok(&repo, &["init", "-q"], None);
    let nfiles = 1 + rng.usize(4);
    let mut files: Vec<Vec<String>> = (0..nfiles)
        .map(|f| (0..(20 + rng.usize(300))).map(|i| format!("file {f} line {i} {:x}", rng.u64())).collect())
        .collect();
    let span = if rng.chance(1, 3) { 22 } else { 8 };
    let commits = 3 + rng.usize(span);
    for c in 0..commits {
        for (f, lines) in files.iter_mut().enumerate() {
            if c == 0 || rng.chance(2, 3) {
                for _ in 0..(1 + rng.usize(4)) {
                    let i = rng.usize(lines.len());
                    match rng.below(3) {
                        0 => lines[i] = format!("changed in {c}: {:x}", rng.u64()),
                        1 => lines.insert(i, format!("added in {c}: {:x}", rng.u64())),
                        _ => {
                            if lines.len() > 5 {
                                lines.remove(i);
                            }
                        }
                    }
                }
                std::fs::write(repo.join(format!("f{f}.txt")), lines.join("\n")).unwrap();
            }
        }
        if rng.chance(1, 3) {
            std::fs::write(repo.join(format!("small{c}")), format!("{}", rng.u64() % 1000)).unwrap();
        }
        if rng.chance(1, 3) {
            // several slightly different copies of one file: many deltas against the same base
            let src = rng.usize(files.len());
            for k in 0..(2 + rng.usize(4)) {
                let mut copy = files[src].clone();
                let i = rng.usize(copy.len());
                copy[i] = format!("copy {k} of {c}: {:x}", rng.u64());
                std::fs::write(repo.join(format!("copy{c}_{k}.txt")), copy.join("\n")).unwrap();
            }
        }
        if rng.chance(1, 5) {
            let n = 200 + rng.usize(3000);
            std::fs::write(repo.join(format!("bin{c}")), rng.bytes(n)).unwrap();
        }
        git_ok(&repo, &["add", "."], None);
        git_ok(&repo, &["commit", "-q", "--allow-empty", "-m", &format!("c{c}")], None);
        if rng.chance(1, 6) {
            git_ok(&repo, &["tag", "-a", "-m", "a tag", &format!("t{c}")], None);
        }
    }
    let base_commits = 1 + rng.usize(commits - 1);
    let recv = fresh_dir(sc, &format!("recv{idx}"));
    git_ok(&recv, &["init", "-q", "--bare"], None);
    let back = commits - base_commits;
    git_ok(
        &repo,
        &["push", "-q", recv.to_str().unwrap(), &format!("HEAD~{back}:refs/heads/main")],
        None,
    );
    History { repo, recv, commits, base_commits }
}

fn pack_objects(h: &History, rng: &mut Rng, thin: bool) -> (Vec<u8>, String) {
    let mut args: Vec<String> = vec!["pack-objects".into(), "--stdout".into(), "--revs".into(), "-q".into(), "--delta-base-offset".into()];
    if thin {
        args.push("--thin".into());
    }
    let depth = *rng.pick(&[0usize, 1, 2, 5, 50, 50, 50]);
    let window = *rng.pick(&[1usize, 3, 10, 10, 10]);
    args.push(format!("--depth={depth}"));
    args.push(format!("--window={window}"));
    let back = h.commits - h.base_commits;
    let revs = if thin {
        format!("HEAD\n^HEAD~{back}\n")
    } else {
        args.push("--all".into());
        String::new()
    };
    let a: Vec<&str> = args.iter().map(String::as_str).collect();
    let out = git(&h.repo, &a, Some(revs.as_bytes()));
    assert!(out.ok, "pack-objects: {}", String::from_utf8_lossy(&out.stderr));
    (out.stdout, format!("depth={depth} window={window}"))
}

/// the delta forest of a pack as `index::File::write_data_iter_to_stream` builds it (roots and children in
/// pack order, children lists by base offset), plus the offsets in array order
struct ForestOf {
    roots: Vec<Vec<usize>>,
    kids: Vec<Vec<usize>>,
    root_ofs: Vec<u64>,
    kid_ofs: Vec<u64>,
    entries: Vec<(u64, String, u16, u64)>, // offset, header, header size, compressed size
}

fn forest_of(pack: &[u8]) -> Result<ForestOf, String> {
    use gix_pack::data::entry::Header;
    let it = gix_pack::data::input::BytesToEntriesIter::new_from_header(
        std::io::BufReader::new(pack),
        gix_pack::data::input::Mode::Verify,
        gix_pack::data::input::EntryDataMode::Crc32,
        gix_hash::Kind::Sha1,
    )
    .map_err(|e| errmsg(&e))?;
    let mut f = ForestOf { roots: vec![], kids: vec![], root_ofs: vec![], kid_ofs: vec![], entries: vec![] };
    for e in it {
        let e = e.map_err(|e| errmsg(&e))?;
        match e.header {
            Header::OfsDelta { base_distance } => {
                let base = e.pack_offset - base_distance;
                let k = f.kids.len();
                if let Ok(i) = f.kid_ofs.binary_search(&base) {
                    f.kids[i].push(k);
                } else if let Ok(i) = f.root_ofs.binary_search(&base) {
                    f.roots[i].push(k);
                } else {
                    return Err(format!("base offset {base} is not an entry"));
                }
                f.kids.push(vec![]);
                f.kid_ofs.push(e.pack_offset);
                f.entries.push((e.pack_offset, format!("o{base_distance}"), e.header_size, e.compressed_size));
            }
            Header::RefDelta { base_id } => {
                f.entries.push((e.pack_offset, format!("r{base_id}"), e.header_size, e.compressed_size));
                return Err("ref-delta".into());
            }
            _ => {
                f.roots.push(vec![]);
                f.root_ofs.push(e.pack_offset);
                f.entries.push((e.pack_offset, "b".into(), e.header_size, e.compressed_size));
            }
        }
    }
    Ok(f)
}

fn lists(v: &[Vec<usize>]) -> String {
    v.iter()
        .map(|l| if l.is_empty() { "-".to_string() } else { l.iter().map(|x| x.to_string()).collect::<Vec<_>>().join(".") })
        .collect::<Vec<_>>()
        .join("|")
}

/// `git verify-pack -v`: offset -> (sha, depth, base sha)
fn verify_pack(dir: &Path, idx: &Path) -> Option<BTreeMap<u64, (String, usize, Option<String>)>> {
    let out = git(dir, &["verify-pack", "-v", idx.to_str().unwrap()], None);
    if !out.ok {
        return None;
    }
    let mut m = BTreeMap::new();
    for l in String::from_utf8_lossy(&out.stdout).lines() {
        let p: Vec<&str> = l.split_whitespace().collect();
        if p.len() >= 5 && p[0].len() == 40 {
            let ofs: u64 = p[4].parse().ok()?;
            let (depth, base) = if p.len() >= 7 { (p[5].parse().ok()?, Some(p[6].to_string())) } else { (0, None) };
            m.insert(ofs, (p[0].to_string(), depth, base));
        }
    }
    Some(m)
}

/// what the Lean traversal model must say for this pack, computed from git's view of it
fn trav_case(rep: &mut Report, seed: u64, workers: usize, f: &ForestOf, vp: &BTreeMap<u64, (String, usize, Option<String>)>, class: &str) {
    let sha_ofs: BTreeMap<&str, u64> = vp.iter().map(|(o, v)| (v.0.as_str(), *o)).collect();
    let root_of = |mut ofs: u64| -> Option<usize> {
        loop {
            let (_, _, base) = vp.get(&ofs)?;
            match base {
                Some(b) => ofs = *sha_ofs.get(b.as_str())?,
                None => return f.root_ofs.binary_search(&ofs).ok(),
            }
        }
    };
    let mut vals = Vec::new();
    let mut ok = true;
    for ofs in f.root_ofs.iter().chain(f.kid_ofs.iter()) {
        match (root_of(*ofs), vp.get(ofs)) {
            (Some(r), Some(v)) => vals.push(format!("{r}:{}", v.1)),
            _ => {
                ok = false;
                vals.push("?".into());
            }
        }
    }
    if !ok {
        rep.oracle_failure("git verify-pack does not know an entry of the pack gitoxide wrote", class, "");
    }
    rep.bucket(&format!("trav-{class}"));
    rep.bucket(&format!("trav-kids-{}", match f.kids.len() { 0 => "0", 1..=5 => "1-5", 6..=30 => "6-30", _ => "31+" }));
    let maxdepth = vp.values().map(|v| v.1).max().unwrap_or(0);
    rep.bucket(&format!("trav-maxdepth-{}", maxdepth.min(6)));
    rep.case(
        &format!("trav {seed} {workers} r:{} k:{}", lists(&f.roots), lists(&f.kids)),
        &format!("ok=1 term=1 once=1 panic=0 indep=1 vals={}", vals.join(",")),
        true,
    );
}

/// every object of the written pack can be read back and hashes to its id
fn read_back(rep: &mut Report, idx: &Path, what: &str) {
    rep.oracle_checked();
    let res = catch(|| -> Result<usize, String> {
        let bundle = gix_pack::Bundle::at(idx, gix_hash::Kind::Sha1).map_err(|e| errmsg(&e))?;
        let mut n = 0;
        let mut buf = Vec::new();
        let mut inflate = gix_features::zlib::Inflate::default();
        let ids: Vec<gix_hash::ObjectId> = bundle.index.iter().map(|e| e.oid).collect();
        for id in ids {
            let (obj, _) = bundle
                .find(&id, &mut buf, &mut inflate, &mut gix_pack::cache::Never)
                .map_err(|e| errmsg(&e))?
                .ok_or_else(|| format!("{id} not found"))?;
            let got = gix_object::compute_hash(gix_hash::Kind::Sha1, obj.kind, obj.data);
            if got != id {
                return Err(format!("{id} read back as {got}"));
            }
            n += 1;
        }
        Ok(n)
    });
    match res {
        Ok(Ok(_)) => {}
        Ok(Err(e)) => rep.oracle_failure("an object of the written pack cannot be read back", &format!("{what}: {e}"), ""),
        Err(p) => rep.oracle_failure("reading back the written pack panics", &format!("{what}: {p}"), ""),
    }
}

fn idx_ids(dir: &Path, idx: &Path) -> Vec<String> {
    let data = std::fs::read(idx).unwrap_or_default();
    let out = git(dir, &["show-index"], Some(&data));
    let mut v: Vec<String> = String::from_utf8_lossy(&out.stdout)
        .lines()
        .filter_map(|l| l.split(' ').nth(1).map(str::to_string))
        .collect();
    v.sort();
    v
}

/// store `pack` with all thread limits and compare with git; returns the written pack bytes of the first run
fn check_pack(rep: &mut Report, sc: &Scratch, tag: &str, pack: &[u8], thin_recv: Option<&Path>, desc: &str, seed: u64) -> Option<Vec<u8>> {
    let gitdir = fresh_dir(sc, &format!("git-{tag}"));
    // git's answer
    let git_idx: Vec<u8>;
    let git_ids: Vec<String>;
    match thin_recv {
        None => {
            std::fs::write(gitdir.join("in.pack"), pack).unwrap();
            let ip = git(&gitdir, &["index-pack", "in.pack"], None);
            if !ip.ok {
                rep.note(&format!("{desc}: git index-pack refuses its own pack: {}", String::from_utf8_lossy(&ip.stderr)));
                return None;
            }
            git_idx = std::fs::read(gitdir.join("in.idx")).unwrap();
            git_ids = idx_ids(&gitdir, &gitdir.join("in.idx"));
        }
        Some(recv) => {
            let fixed = gitdir.join("fixed.pack");
            let ip = git(recv, &["index-pack", "--fix-thin", "--stdin", fixed.to_str().unwrap()], Some(pack));
            if !ip.ok {
                rep.note(&format!("{desc}: git index-pack --fix-thin refuses the pack: {}", String::from_utf8_lossy(&ip.stderr)));
                return None;
            }
            git_idx = Vec::new();
            git_ids = idx_ids(&gitdir, &gitdir.join("fixed.idx"));
        }
    }
    rep.git_checked(1);
    let mut first: Option<(Vec<u8>, Vec<u8>, PathBuf)> = None;
    for threads in THREADS {
        let dir = fresh_dir(sc, &format!("gix-{tag}-{threads}"));
        rep.oracle_checked();
        let odb = thin_recv.map(|r| r.join("objects"));
        let res = catch(|| write_pack(pack, &dir, threads, odb.as_deref()));
        let out = match res {
            Ok(Ok(o)) => o,
            Ok(Err(e)) => {
                rep.oracle_failure(
                    &format!("a pack of git pack-objects ({}) is rejected", if thin_recv.is_some() { "thin" } else { "full" }),
                    &format!("{desc} threads={threads}: {e}"),
                    "",
                );
                return None;
            }
            Err(p) => {
                rep.oracle_failure(
                    &format!("storing a pack of git pack-objects ({}) panics", if thin_recv.is_some() { "thin" } else { "full" }),
                    &format!("{desc} threads={threads}: {p}"),
                    "",
                );
                return None;
            }
        };
        let (Some(ip), Some(dp)) = (out.index_path.clone(), out.data_path.clone()) else {
            rep.oracle_failure("no pack/index path reported for a non-empty pack", desc, "");
            return None;
        };
        let idx = std::fs::read(&ip).unwrap_or_default();
        let written = std::fs::read(&dp).unwrap_or_default();
        if thin_recv.is_none() {
            if idx != git_idx {
                rep.oracle_failure(
                    "index differs from git index-pack (full pack)",
                    &format!("{desc} threads={threads}: {} vs {} bytes", idx.len(), git_idx.len()),
                    "",
                );
            }
            if written != pack {
                rep.oracle_failure("the stored pack differs from the received one (full pack)", &format!("{desc} threads={threads}"), "");
            }
        }
        match &first {
            None => first = Some((idx.clone(), written.clone(), ip.clone())),
            Some((i0, p0, _)) => {
                if *i0 != idx || *p0 != written {
                    rep.oracle_failure(
                        "index or pack depends on the thread limit",
                        &format!("{desc}: threads={threads} differs from threads=1"),
                        "",
                    );
                }
            }
        }
        if threads == 1 || threads == 8 {
            read_back(rep, &ip, &format!("{desc} threads={threads}"));
        }
    }
    // the eager entry point must produce the very same pair
    if let Some((i0, p0, _)) = &first {
        for threads in [1usize, 3, 16] {
            let dir = fresh_dir(sc, &format!("gixe-{tag}-{threads}"));
            rep.oracle_checked();
            rep.bucket("entry-eager");
            let odb = thin_recv.map(|r| r.join("objects"));
            let kind = if thin_recv.is_some() { "thin" } else { "full" };
            match catch(|| write_pack_eagerly(pack, &dir, threads, odb.as_deref(), threads != 3)) {
                Ok(Ok(o)) => {
                    let idx = o.index_path.as_ref().and_then(|p| std::fs::read(p).ok()).unwrap_or_default();
                    let written = o.data_path.as_ref().and_then(|p| std::fs::read(p).ok()).unwrap_or_default();
                    if idx != *i0 || written != *p0 {
                        rep.oracle_failure(
                            "write_to_directory_eagerly writes another pack or index than write_to_directory",
                            &format!("{desc} threads={threads}: idx {} vs {} bytes, pack {} vs {} bytes", idx.len(), i0.len(), written.len(), p0.len()),
                            "",
                        );
                    }
                    if threads == 3 {
                        if let Some(ip) = &o.index_path {
                            read_back(rep, ip, &format!("{desc} eager threads={threads}"));
                        }
                    }
                }
                Ok(Err(e)) => rep.oracle_failure(
                    &format!("a pack of git pack-objects ({kind}) is rejected by write_to_directory_eagerly"),
                    &format!("{desc} threads={threads}: {e}"),
                    "",
                ),
                Err(p) => rep.oracle_failure(
                    &format!("storing a pack of git pack-objects ({kind}) eagerly panics"),
                    &format!("{desc} threads={threads}: {p}"),
                    "",
                ),
            }
        }
    }
    let (idx, written, ip) = first?;
    // object ids as git sees them
    let ids = idx_ids(&gitdir, &ip);
    if ids != git_ids {
        let mut a = ids.clone();
        a.dedup();
        rep.oracle_failure(
            if a == git_ids { "the index lists objects twice" } else { "the index does not list the objects git index-pack derives" },
            &format!("{desc}: gitoxide {} entries, git {}", ids.len(), git_ids.len()),
            "",
        );
    }
    // git's index of the pack gitoxide wrote
    let chk = fresh_dir(sc, &format!("chk-{tag}"));
    std::fs::write(chk.join("w.pack"), &written).unwrap();
    let ip2 = git(&chk, &["index-pack", "w.pack"], None);
    rep.git_checked(1);
    if !ip2.ok {
        rep.oracle_failure(
            "git index-pack rejects the pack gitoxide wrote",
            &format!("{desc}: {}", String::from_utf8_lossy(&ip2.stderr).trim()),
            "",
        );
        return None;
    }
    if std::fs::read(chk.join("w.idx")).unwrap_or_default() != idx {
        rep.oracle_failure("git index-pack derives another index for the pack gitoxide wrote", desc, "");
    }
    // the traversal model on this pack
    match (forest_of(&written), verify_pack(&chk, &chk.join("w.idx"))) {
        (Ok(f), Some(vp)) => trav_case(rep, seed, 1 + (seed as usize % 8), &f, &vp, if thin_recv.is_some() { "thin" } else { "full" }),
        (Err(e), _) => rep.oracle_failure("the written pack cannot be parsed again", &format!("{desc}: {e}"), ""),
        (_, None) => rep.oracle_failure("git verify-pack rejects the pack gitoxide wrote", desc, ""),
    }
    Some(written)
}

// ---------------------------------------------------------------------------------------------
// crafted thin packs
// ---------------------------------------------------------------------------------------------

fn varint_le(mut n: u64, out: &mut Vec<u8>) {
    loop {
        let b = (n & 0x7f) as u8;
        n >>= 7;
        if n == 0 {
            out.push(b);
            break;
        }
        out.push(b | 0x80);
    }
}

/// a delta that ignores its base and inserts `content`
fn insert_delta(base_len: usize, content: &[u8]) -> Vec<u8> {
    let mut d = Vec::new();
    varint_le(base_len as u64, &mut d);
    varint_le(content.len() as u64, &mut d);
    for ch in content.chunks(127) {
        d.push(ch.len() as u8);
        d.extend_from_slice(ch);
    }
    d
}

fn deflate(data: &[u8]) -> Vec<u8> {
    use std::io::Write;
    let mut out = gix_features::zlib::stream::deflate::Write::new(Vec::new());
    out.write_all(data).unwrap();
    out.flush().unwrap();
    out.into_inner()
}

#[derive(Clone)]
enum Craft {
    Base(Vec<u8>),
    /// index into the ODB objects, new content
    Ref(usize, Vec<u8>),
    /// index of the base entry in the list, new content
    Ofs(usize, Vec<u8>),
}

struct Crafted {
    pack: Vec<u8>,
    /// per entry: the id of the object it resolves to and the id of the base its delta must be applied to
    ids: Vec<String>,
    exp_base: Vec<Option<String>>,
    /// per entry: offset, header (b / o<dist> / r<odb index>), header size, compressed size, decompressed size
    entries: Vec<(u64, String, usize, usize, usize)>,
}

fn craft_pack(entries: &[Craft], odb: &[(gix_hash::ObjectId, Vec<u8>)]) -> Crafted {
    use gix_pack::data::entry::Header;
    let mut out = Vec::new();
    out.extend_from_slice(b"PACK");
    out.extend_from_slice(&2u32.to_be_bytes());
    out.extend_from_slice(&(entries.len() as u32).to_be_bytes());
    let mut offsets: Vec<u64> = Vec::new();
    let mut contents: Vec<Vec<u8>> = Vec::new();
    let mut desc = Vec::new();
    let blob_id = |c: &[u8]| gix_object::compute_hash(gix_hash::Kind::Sha1, gix_object::Kind::Blob, c).to_string();
    let mut ids = Vec::new();
    let mut exp_base = Vec::new();
    for e in entries {
        let ofs = out.len() as u64;
        offsets.push(ofs);
        let (header, data, content, h) = match e {
            Craft::Base(content) => (Header::Blob, content.clone(), content.clone(), "b".to_string()),
            Craft::Ref(o, content) => (
                Header::RefDelta { base_id: odb[*o].0 },
                insert_delta(odb[*o].1.len(), content),
                content.clone(),
                format!("r{o}"),
            ),
            Craft::Ofs(base, content) => {
                let dist = ofs - offsets[*base];
                (
                    Header::OfsDelta { base_distance: dist },
                    insert_delta(contents[*base].len(), content),
                    content.clone(),
                    format!("o{dist}"),
                )
            }
        };
        exp_base.push(match e {
            Craft::Base(_) => None,
            Craft::Ref(o, _) => Some(odb[*o].0.to_string()),
            Craft::Ofs(b, _) => Some(blob_id(&contents[*b])),
        });
        ids.push(blob_id(&content));
        contents.push(content);
        let hs = header.write_to(data.len() as u64, &mut out).unwrap();
        let z = deflate(&data);
        out.extend_from_slice(&z);
        desc.push((ofs, h, hs, z.len(), data.len()));
    }
    let mut h = gix_features::hash::hasher(gix_hash::Kind::Sha1);
    h.update(&out);
    out.extend_from_slice(&h.digest());
    Crafted { pack: out, ids, exp_base, entries: desc }
}

fn odb_objects(rng: &mut Rng, recv: &Path) -> Vec<(gix_hash::ObjectId, Vec<u8>)> {
    // a blob whose pack entry takes exactly 19 bytes: what a ref-delta header loses when it becomes an
    // ofs-delta with a one byte distance
    let mut objs: Vec<Vec<u8>> = Vec::new();
    'outer: for n in 4..40usize {
        for salt in 0..50u8 {
            let content: Vec<u8> = (0..n).map(|i| b'a' + ((i as u8).wrapping_mul(7).wrapping_add(salt) % 23)).collect();
            let obj = gix_object::Data { kind: gix_object::Kind::Blob, data: &content };
            if gix_pack::data::input::Entry::from_data_obj(&obj, 0).map(|e| e.bytes_in_pack()).unwrap_or(0) == 19 {
                objs.push(content);
                break 'outer;
            }
        }
    }
    // distinct contents (k * 7 + 0..6 in the first byte): the op line names the objects of the database by
    // position, two positions with the same object id would be one object for the real code
    for k in 0..4u64 {
        let n = *rng.pick(&[1usize, 8, 30, 120, 200, 1000]);
        objs.push((0..n).map(|i| b'A' + ((i as u64 * 31 + rng.below(7) + k * 7) % 26) as u8).collect());
    }
    objs.into_iter()
        .map(|c| {
            let out = git(recv, &["hash-object", "-w", "--stdin"], Some(&c));
            (gix_hash::ObjectId::from_hex(String::from_utf8_lossy(&out.stdout).trim().as_bytes()).unwrap(), c)
        })
        .collect()
}

fn crafted_case(rep: &mut Report, sc: &Scratch, rng: &mut Rng, tag: &str, entries: &[Craft], odb: &[(gix_hash::ObjectId, Vec<u8>)], recv: &Path, class: &str) {
    let c = craft_pack(entries, odb);
    // the model's input
    let ins: Vec<String> = c.entries.iter().map(|(o, h, hs, z, d)| format!("{o}:{h}:{hs}:{z}:{d}")).collect();
    let odbs: Vec<String> = odb
        .iter()
        .enumerate()
        .map(|(i, (_, content))| {
            let obj = gix_object::Data { kind: gix_object::Kind::Blob, data: content };
            let e = gix_pack::data::input::Entry::from_data_obj(&obj, 0).unwrap();
            format!("{i}:{}:{}", e.header_size, e.compressed_size)
        })
        .collect();
    let op = format!("inject {} | {}", ins.join(" "), odbs.join(" "));
    rep.bucket(&format!("crafted-{class}"));
    // git accepts it?
    let gitdir = fresh_dir(sc, &format!("cgit-{tag}"));
    let fixed = gitdir.join("fixed.pack");
    let ip = git(recv, &["index-pack", "--fix-thin", "--stdin", fixed.to_str().unwrap()], Some(&c.pack));
    rep.git_checked(1);
    if !ip.ok {
        rep.note(&format!("crafted pack {tag} refused by git: {}", String::from_utf8_lossy(&ip.stderr).trim()));
        return;
    }
    let git_ids = idx_ids(&gitdir, &gitdir.join("fixed.idx"));
    let threads = *rng.pick(&THREADS);
    let dir = fresh_dir(sc, &format!("cgix-{tag}"));
    rep.oracle_checked();
    let odbp = recv.join("objects");
    match catch(|| write_pack(&c.pack, &dir, threads, Some(&odbp))) {
        Ok(Ok(out)) => {
            let ip = out.index_path.clone().unwrap();
            let dp = out.data_path.clone().unwrap();
            let written = std::fs::read(&dp).unwrap();
            let mut ids = idx_ids(&gitdir, &ip);
            ids.dedup();
            if ids != git_ids {
                rep.oracle_failure("crafted thin pack: the index does not list the objects git index-pack derives", &op, &op);
            }
            let chk = fresh_dir(sc, &format!("cchk-{tag}"));
            std::fs::write(chk.join("w.pack"), &written).unwrap();
            let ip2 = git(&chk, &["index-pack", "w.pack"], None);
            rep.git_checked(1);
            if !ip2.ok {
                rep.oracle_failure(
                    "crafted thin pack: git index-pack rejects the pack gitoxide wrote",
                    &format!("{}: {op}", String::from_utf8_lossy(&ip2.stderr).trim()),
                    &op,
                );
            } else if std::fs::read(chk.join("w.idx")).unwrap_or_default() != std::fs::read(&ip).unwrap_or_default() {
                rep.oracle_failure("crafted thin pack: git index-pack derives another index for the pack gitoxide wrote", &op, &op);
            }
            read_back(rep, &ip, &format!("crafted {tag}"));
            // the entries gitoxide wrote
            let obs = match forest_of(&written) {
                Ok(f) => {
                    let es: Vec<String> = f.entries.iter().map(|(o, h, hs, _)| format!("{o}:{h}:{hs}")).collect();
                    // no gaps: every entry starts where the previous one ends, the trailer follows the last one
                    let mut contiguous = f.entries.first().map_or(true, |e| e.0 == 12);
                    for w in f.entries.windows(2) {
                        contiguous &= w[1].0 == w[0].0 + u64::from(w[0].2) + w[0].3;
                    }
                    if let Some(l) = f.entries.last() {
                        contiguous &= l.0 + u64::from(l.2) + l.3 + 20 == written.len() as u64;
                    }
                    // every delta is applied to the base it was made for (git's view of the written pack)
                    let bases = verify_pack(&chk, &chk.join("w.idx")).map_or(false, |vp| {
                        vp.values().all(|(sha, _, base)| match base {
                            None => true,
                            Some(b) => c.ids.iter().zip(c.exp_base.iter()).any(|(id, eb)| id == sha && eb.as_deref() == Some(b.as_str())),
                        })
                    });
                    if !bases {
                        rep.oracle_failure("crafted thin pack: a delta is applied to another base than it was made for", &op, &op);
                    }
                    format!("{} contiguous={} bases={}", es.join(","), contiguous as u8, bases as u8)
                }
                Err(e) => format!("unparsable:{e}"),
            };
            rep.case(&op, &obs, true);
        }
        Ok(Err(e)) => {
            rep.oracle_failure("crafted thin pack accepted by git is rejected", &format!("{e}: {op}"), &op);
            rep.case(&op, "error", true);
        }
        Err(p) => {
            rep.oracle_failure("crafted thin pack accepted by git makes gitoxide panic", &format!("{p}: {op}"), &op);
            rep.case(&op, "panic", true);
        }
    }
}

fn crafted_packs(rep: &mut Report, sc: &Scratch, rng: &mut Rng, n: u64) {
    let recv = fresh_dir(sc, "crecv");
    git_ok(&recv, &["init", "-q", "--bare"], None);
    let odb = odb_objects(rng, &recv);
    let text = |rng: &mut Rng, n: usize| -> Vec<u8> { (0..n).map(|_| b'a' + (rng.below(26) as u8)).collect() };
    // the case that made the code as found resolve a delta against the inserted base
    let text = |rng: &mut Rng, n: usize| -> Vec<u8> {
        // distinct sizes in the fixed cases make the contents distinct
        text(rng, n)
    };
    let e1 = vec![Craft::Ref(0, text(rng, 69)), Craft::Ofs(0, text(rng, 72))];
    crafted_case(rep, sc, rng, "cancel", &e1, &odb, &recv, "cancelling");
    let e2 = vec![
        Craft::Base(text(rng, 40)),
        Craft::Ref(0, text(rng, 69)),
        Craft::Ofs(1, text(rng, 72)),
        Craft::Ofs(0, text(rng, 30)),
        Craft::Ofs(2, text(rng, 90)),
    ];
    crafted_case(rep, sc, rng, "cancel2", &e2, &odb, &recv, "cancelling");
    for i in 0..n {
        let len = 1 + rng.usize(9);
        let mut entries: Vec<Craft> = Vec::new();
        for k in 0..len {
            let size = *rng.pick(&[1usize, 14, 15, 16, 17, 60, 69, 130, 300, 2100]);
            // no object twice in one pack: the first byte is the position of the entry
            let mut content = text(rng, size);
            content[0] = b'0' + k as u8;
            let r = rng.below(10);
            entries.push(if k == 0 || r < 2 {
                if rng.chance(1, 2) { Craft::Ref(rng.usize(odb.len()), content) } else { Craft::Base(content) }
            } else if r < 5 {
                Craft::Ref(rng.usize(odb.len()), content)
            } else {
                Craft::Ofs(rng.usize(k), content)
            });
        }
        crafted_case(rep, sc, rng, &format!("r{i}"), &entries, &odb, &recv, "random");
    }
}

// ---------------------------------------------------------------------------------------------
// faults and the persist protocol
// ---------------------------------------------------------------------------------------------

fn fault_case(rep: &mut Report, sc: &Scratch, pack: &[u8], what: &str, recv: Option<&Path>, threads: usize) {
    let dir = fresh_dir(sc, "fault");
    rep.oracle_checked();
    rep.bucket(if what.starts_with("trunc") { "fault-truncation" } else { "fault-flip" });
    let odb = recv.map(|r| r.join("objects"));
    static FAULT_NO: std::sync::atomic::AtomicUsize = std::sync::atomic::AtomicUsize::new(0);
    let eager = FAULT_NO.fetch_add(1, std::sync::atomic::Ordering::Relaxed) % 2 == 1;
    if eager {
        rep.bucket("fault-eager-entry");
    }
    let res = catch(|| write_pack_via(eager, pack, &dir, threads, odb.as_deref()));
    let left = dir_listing(&dir);
    let kind = if recv.is_some() { "thin" } else { "full" };
    match res {
        Ok(Ok(o)) => {
            // accepted: only legitimate if it is a complete pack again
            rep.oracle_failure(
                &format!("a damaged {kind} pack stream is accepted"),
                &format!("{what}: {} objects, files {left:?}", o.index.num_objects),
                "",
            );
        }
        Ok(Err(_)) => {
            rep.bucket("fault-error");
            if left.iter().any(|f| f.ends_with(".pack") || f.ends_with(".idx")) {
                rep.oracle_failure(&format!("a rejected {kind} pack stream leaves a pack or index behind"), &format!("{what}: {left:?}"), "");
            } else if !left.is_empty() {
                rep.oracle_failure(&format!("a rejected {kind} pack stream leaves files behind"), &format!("{what}: {left:?}"), "");
            }
        }
        Err(p) => {
            rep.oracle_failure(&format!("a damaged {kind} pack stream makes gitoxide panic"), &format!("{what}: {p}"), "");
        }
    }
}

fn faults(rep: &mut Report, sc: &Scratch, rng: &mut Rng, pack: &[u8], recv: Option<&Path>, dense: usize, random: usize, flips: usize) {
    for cut in 0..dense.min(pack.len()) {
        fault_case(rep, sc, &pack[..cut], &format!("truncated to {cut} of {} bytes", pack.len()), recv, 1 + cut % 4);
    }
    for _ in 0..random {
        let cut = rng.usize(pack.len());
        fault_case(rep, sc, &pack[..cut], &format!("truncated to {cut} of {} bytes", pack.len()), recv, *rng.pick(&THREADS));
    }
    for _ in 0..flips {
        let pos = rng.usize(pack.len());
        let bit = 1u8 << rng.below(8);
        let mut p = pack.to_vec();
        p[pos] ^= bit;
        fault_case(rep, sc, &p, &format!("bit {bit:#04x} flipped at {pos} of {} bytes", pack.len()), recv, *rng.pick(&THREADS));
    }
}

/// every bit of every entry header (type, size, ofs distance / base id) flipped once
fn header_faults(rep: &mut Report, sc: &Scratch, pack: &[u8], recv: Option<&Path>, max_entries: usize) {
    let Ok(it) = gix_pack::data::input::BytesToEntriesIter::new_from_header(
        std::io::BufReader::new(pack),
        gix_pack::data::input::Mode::Verify,
        gix_pack::data::input::EntryDataMode::Ignore,
        gix_hash::Kind::Sha1,
    ) else {
        return;
    };
    let headers: Vec<(u64, u16)> = it.filter_map(Result::ok).map(|e| (e.pack_offset, e.header_size)).collect();
    for (n, (ofs, hs)) in headers.into_iter().enumerate() {
        if n >= max_entries {
            break;
        }
        for b in 0..(hs as usize).min(6) {
            for bit in 0..8 {
                let pos = ofs as usize + b;
                let mut p = pack.to_vec();
                p[pos] ^= 1 << bit;
                rep.bucket("fault-header-flip");
                fault_case(rep, sc, &p, &format!("bit {:#04x} flipped at {pos} (header byte {b} of the entry at {ofs})", 1u8 << bit), recv, 1 + (n + bit) % 4);
            }
        }
    }
}

/// `inner_write` against what is already in the directory. Correspondence: the flags after the call go to the
/// Lean persist protocol (`persist <pack exists> <idx exists> <fail>`). Oracle on the real code: after `Ok` the
/// reported pack and index both exist and every object reads back — whatever was there before (nothing, the
/// pair, the pack without its index as left by an attempt that died between the two renames, the index without
/// its pack) and through both entry points.
fn persist_cases(rep: &mut Report, sc: &Scratch, pack: &[u8]) {
    let flags = |dir: &Path, before: &[String]| -> String {
        let now = dir_listing(dir);
        let has = |ext: &str| now.iter().any(|f| f.starts_with("pack-") && f.ends_with(ext)) as u8;
        let new_keep = now.iter().any(|f| f.ends_with(".keep") && !before.contains(f)) as u8;
        let tmp = now.iter().any(|f| !f.starts_with("pack-")) as u8;
        format!("pack={} idx={} keep={} tmp={}", has(".pack"), has(".idx"), new_keep, tmp)
    };
    // a directory holding the pair, to copy from
    let proto = fresh_dir(sc, "persist-proto");
    let r = catch(|| write_pack(pack, &proto, 2, None));
    let Ok(Ok(o0)) = r else {
        rep.oracle_failure("persist: storing a pack into a fresh directory fails", &format!("{:?}", r.map(|r| r.map(|_| ()))), "persist 0 0 none");
        return;
    };
    let (Some(idx0), Some(pack0)) = (o0.index_path.clone(), o0.data_path.clone()) else {
        rep.oracle_failure("no pack/index path reported for a non-empty pack", "persist", "persist 0 0 none");
        return;
    };
    let idx_bytes = std::fs::read(&idx0).unwrap_or_default();
    for eager in [false, true] {
        for (have_pack, have_idx) in [(false, false), (true, true), (true, false), (false, true)] {
            let op = format!("persist {} {} none", have_pack as u8, have_idx as u8);
            let via = if eager { "write_to_directory_eagerly" } else { "write_to_directory" };
            let dir = fresh_dir(sc, "persist");
            if have_pack {
                std::fs::copy(&pack0, dir.join(pack0.file_name().unwrap())).unwrap();
            }
            if have_idx {
                std::fs::copy(&idx0, dir.join(idx0.file_name().unwrap())).unwrap();
            }
            let before = dir_listing(&dir);
            rep.oracle_checked();
            rep.bucket(&format!("persist-pre-pack{}-idx{}", have_pack as u8, have_idx as u8));
            match catch(|| write_pack_via(eager, pack, &dir, 2, None)) {
                Ok(Ok(o)) => {
                    let ip = o.index_path.clone().unwrap_or_default();
                    let dp = o.data_path.clone().unwrap_or_default();
                    if !ip.is_file() || !dp.is_file() {
                        rep.oracle_failure(
                            "persist: Ok is returned but the reported pack or index does not exist",
                            &format!(
                                "{via}, directory before: {before:?} -> Ok(index_path {:?} exists={}, data_path {:?} exists={}), directory now: {:?}",
                                ip.file_name(),
                                ip.is_file(),
                                dp.file_name(),
                                dp.is_file(),
                                dir_listing(&dir)
                            ),
                            &op,
                        );
                    } else {
                        if std::fs::read(&ip).unwrap_or_default() != idx_bytes {
                            rep.oracle_failure("persist: the index next to the pack is not the index of the pack", &format!("{via}, directory before: {before:?}"), &op);
                        }
                        if std::fs::read(&dp).unwrap_or_default() != pack {
                            rep.oracle_failure("persist: the pack under its final name is not the received pack", &format!("{via}, directory before: {before:?}"), &op);
                        }
                        read_back(rep, &ip, &format!("{op} through {via}"));
                    }
                    // independent of the paths that were reported: what is in the directory now
                    let now = dir_listing(&dir);
                    let packs: Vec<&String> = now.iter().filter(|f| f.starts_with("pack-") && f.ends_with(".pack")).collect();
                    let missing_idx: Vec<String> = packs
                        .iter()
                        .filter(|f| !dir.join(f.as_str()).with_extension("idx").is_file())
                        .map(|f| f.to_string())
                        .collect();
                    if packs.is_empty() || !missing_idx.is_empty() {
                        rep.oracle_failure(
                            "persist: after Ok the directory does not hold the pack together with its index",
                            &format!("{via}, directory before: {before:?}, directory now: {now:?}, reported index_path {:?} data_path {:?}", o.index_path, o.data_path),
                            &op,
                        );
                    } else {
                        for f in &packs {
                            read_back(rep, &dir.join(f.as_str()).with_extension("idx"), &format!("{op} through {via} (index found in the directory)"));
                        }
                    }
                    if have_pack != o.keep_path.is_none() {
                        rep.oracle_failure(
                            "persist: a .keep file is reported for a pack that existed (or none for a new one)",
                            &format!("{via}, directory before: {before:?}, keep_path {:?}", o.keep_path),
                            &op,
                        );
                    }
                }
                Ok(Err(e)) => rep.oracle_failure("persist: storing a valid pack fails because of what is in the directory", &format!("{via}, directory before: {before:?}: {e}"), &op),
                Err(p) => rep.oracle_failure("persist: storing a valid pack panics", &format!("{via}, directory before: {before:?}: {p}"), &op),
            }
            if !eager {
                rep.case(&op, &flags(&dir, &before), true);
            } else {
                // the same op line as for the other entry point: compared with it here, with the model there
                let mut d0 = fresh_dir(sc, "persist-cmp");
                if have_pack {
                    std::fs::copy(&pack0, d0.join(pack0.file_name().unwrap())).unwrap();
                }
                if have_idx {
                    std::fs::copy(&idx0, d0.join(idx0.file_name().unwrap())).unwrap();
                }
                let b0 = dir_listing(&d0);
                let _ = catch(|| write_pack(pack, &d0, 2, None));
                if flags(&d0, &b0) != flags(&dir, &before) {
                    rep.oracle_failure(
                        "persist: the two entry points leave different files",
                        &format!("directory before: {before:?}: eager {} vs {}", flags(&dir, &before), flags(&d0, &b0)),
                        &op,
                    );
                }
                d0.clear();
            }
        }
        // failing input
        let dir = fresh_dir(sc, "persist2");
        let _ = catch(|| write_pack_via(eager, &pack[..pack.len() - 7], &dir, 2, None));
        if !eager {
            rep.case("persist 0 0 index", &flags(&dir, &[]), true);
        } else if flags(&dir, &[]) != "pack=0 idx=0 keep=0 tmp=0" {
            rep.oracle_failure("a rejected full pack stream leaves files behind", &format!("eager entry point, truncated pack: {:?}", dir_listing(&dir)), "persist 0 0 index");
        }
    }
}

// ---------------------------------------------------------------------------------------------
// the eager entry point: EagerIter and packs with many objects
// ---------------------------------------------------------------------------------------------

/// `(threshold, chunk_size, chunks_in_flight)` of `EagerIterIf::new(move || num_objects > T, iter, C, F)` in
/// `Bundle::write_to_directory_eagerly`, read from the source the harness was built against.
fn eager_constants(rep: &mut Report) -> (usize, usize, usize) {
    let fallback = (25_000usize, 5_000usize, 5usize);
    let manifest = include_str!("../Cargo.toml");
    let root = manifest
        .lines()
        .find(|l| l.starts_with("gix-pack"))
        .and_then(|l| l.split('"').nth(1))
        .map(PathBuf::from);
    let Some(root) = root else {
        rep.note("eager constants: gix-pack path not found in Cargo.toml, using 25000/5000/5");
        return fallback;
    };
    let src = std::fs::read_to_string(root.join("src/bundle/write/mod.rs")).unwrap_or_default();
    let parsed = (|| {
        let at = src.find("EagerIterIf::new(")?;
        let call = &src[at..];
        let call = &call[..call.find(");")?];
        let nums: Vec<usize> = call
            .split(|c: char| !(c.is_ascii_digit() || c == '_'))
            .filter(|t| t.chars().any(|c| c.is_ascii_digit()))
            .filter_map(|t| t.replace('_', "").parse().ok())
            .collect();
        (nums.len() == 3).then(|| (nums[0], nums[1], nums[2]))
    })();
    match parsed {
        Some(c) => {
            rep.note(&format!("eager constants read from {}: threshold {} chunk {} in flight {}", root.display(), c.0, c.1, c.2));
            c
        }
        None => {
            rep.note("eager constants: call site of EagerIterIf::new not recognised, using 25000/5000/5");
            fallback
        }
    }
}

/// `EagerIter` must yield exactly what the wrapped iterator yields, for every length around the chunk size
fn eager_iter_cases(rep: &mut Report, consts: (usize, usize, usize)) {
    let (threshold, chunk, in_flight) = consts;
    let mut combos: Vec<(usize, usize, usize)> = Vec::new();
    for c in [1usize, 2, 3, 5, 8] {
        for f in [0usize, 1, 5] {
            for n in 0..=3 * c + 1 {
                combos.push((n, c, f));
            }
        }
    }
    for n in [0, 1, chunk - 1, chunk, chunk + 1, 2 * chunk, 2 * chunk + 1, in_flight * chunk + 1, threshold, threshold + 1, threshold + chunk + 1] {
        combos.push((n, chunk, in_flight));
    }
    for (n, c, f) in combos {
        rep.oracle_checked();
        rep.bucket(if n % c == 0 { "eager-iter-full-last-chunk" } else { "eager-iter-partial-last-chunk" });
        let got = catch(move || gix_features::parallel::EagerIter::new(0..n, c, f).collect::<Vec<usize>>());
        match got {
            Ok(v) => {
                if v.len() != n || v.iter().enumerate().any(|(i, x)| i != *x) {
                    rep.oracle_failure(
                        "EagerIter does not yield what the wrapped iterator yields",
                        &format!("{n} items, chunk size {c}, {f} chunks in flight: {} items arrive, first difference at {:?}", v.len(), v.iter().enumerate().find(|(i, x)| i != *x).map(|t| t.0).unwrap_or(v.len())),
                        &format!("eageriter {n} {c} {f}"),
                    );
                }
            }
            Err(p) => rep.oracle_failure("EagerIter panics", &format!("{n} items, chunk size {c}, {f} in flight: {p}"), &format!("eageriter {n} {c} {f}")),
        }
    }
}

/// a pack of `n` distinct tiny blobs made by the real git
fn many_blobs_pack(sc: &Scratch, n: usize, salt: u64) -> Option<Vec<u8>> {
    let repo = fresh_dir(sc, "many");
    git_ok(&repo, &["init", "-q"], None);
    let mut stream = Vec::with_capacity(n * 24);
    for i in 0..n {
        let body = format!("{salt:x}.{i}");
        stream.extend_from_slice(format!("blob\ndata {}\n{}\n", body.len(), body).as_bytes());
    }
    let fi = git(&repo, &["fast-import", "--quiet"], Some(&stream));
    if !fi.ok {
        return None;
    }
    // everything fast-import wrote, as one pack of pack-objects
    let ids = git(&repo, &["cat-file", "--batch-all-objects", "--batch-check=%(objectname)"], None);
    if !ids.ok {
        return None;
    }
    let out = git(&repo, &["pack-objects", "-q", "--stdout", "--window=0"], Some(&ids.stdout));
    out.ok.then_some(out.stdout)
}

fn big_pack_cases(rep: &mut Report, sc: &Scratch, rng: &mut Rng, consts: (usize, usize, usize), thorough: bool) {
    let (threshold, chunk, _) = consts;
    // around the chunk size (read on demand as long as the threshold is above them), just above the threshold
    // with a partly filled last chunk, a multiple of the chunk size above the threshold
    let mut counts = vec![chunk - 1, chunk, chunk + 1, 2 * chunk + 1, threshold + 1, threshold + chunk + 1, (threshold / chunk + 1) * chunk];
    if thorough {
        counts.extend([threshold, threshold + 2, threshold + chunk - 1, 2 * threshold + 1 + rng.usize(chunk - 1)]);
    }
    counts.sort();
    counts.dedup();
    for n in counts {
        let Some(pack) = many_blobs_pack(sc, n, rng.u64()) else {
            rep.note(&format!("big pack: git could not make a pack of {n} blobs"));
            continue;
        };
        let desc = format!("{n} tiny blobs, pack of {} bytes", pack.len());
        rep.bucket(if n > threshold { "big-pack-above-threshold" } else { "big-pack-below-threshold" });
        rep.bucket(if n % chunk == 0 { "big-pack-full-last-chunk" } else { "big-pack-partial-last-chunk" });
        let gitdir = fresh_dir(sc, "git-big");
        std::fs::write(gitdir.join("in.pack"), &pack).unwrap();
        let ip = git(&gitdir, &["index-pack", "in.pack"], None);
        rep.git_checked(1);
        if !ip.ok {
            rep.note(&format!("{desc}: git index-pack refuses its own pack"));
            continue;
        }
        let git_idx = std::fs::read(gitdir.join("in.idx")).unwrap_or_default();
        // below the threshold the eager entry point reads on demand like the other one: one run is enough there
        let runs: &[(bool, usize)] = if n > threshold { &[(true, 4), (true, 1), (false, 4)] } else { &[(true, 4)] };
        for &(eager, threads) in runs {
            let dir = fresh_dir(sc, "gix-big");
            rep.oracle_checked();
            let via = if eager { "write_to_directory_eagerly" } else { "write_to_directory" };
            match catch(|| write_pack_via(eager, &pack, &dir, threads, None)) {
                Ok(Ok(o)) => {
                    let idx = o.index_path.as_ref().and_then(|p| std::fs::read(p).ok()).unwrap_or_default();
                    let written = o.data_path.as_ref().and_then(|p| std::fs::read(p).ok()).unwrap_or_default();
                    if o.index.num_objects as usize != n {
                        rep.oracle_failure("a pack of many objects is indexed with another object count", &format!("{desc} through {via}: {}", o.index.num_objects), "");
                    }
                    if idx != git_idx {
                        rep.oracle_failure("index differs from git index-pack (full pack)", &format!("{desc} through {via} threads={threads}: {} vs {} bytes", idx.len(), git_idx.len()), "");
                    }
                    if written != pack {
                        rep.oracle_failure("the stored pack differs from the received one (full pack)", &format!("{desc} through {via} threads={threads}"), "");
                    }
                    if eager && threads == 4 && (n == threshold + 1 || n == chunk + 1) {
                        if let Some(ip) = &o.index_path {
                            read_back(rep, ip, &format!("{desc} through {via}"));
                        }
                    }
                }
                Ok(Err(e)) => rep.oracle_failure(
                    &format!("a pack of git pack-objects (full) is rejected{}", if eager { " by write_to_directory_eagerly" } else { "" }),
                    &format!("{desc} threads={threads}: {e}"),
                    &format!("bigpack {n} {via}"),
                ),
                Err(p) => rep.oracle_failure(
                    &format!("storing a pack of git pack-objects (full){} panics", if eager { " eagerly" } else { "" }),
                    &format!("{desc} threads={threads}: {p}"),
                    &format!("bigpack {n} {via}"),
                ),
            }
        }
    }
}

fn main() {
    if let Err(p) = catch(real_main) {
        eprintln!("harness panicked: {p}");
        std::process::exit(101);
    }
}

fn real_main() {
    let args = Args::parse();
    let mut rep = Report::new("C10", &args);
    let sc = Scratch::new("c10");
    let mut rng = Rng::new(args.seed);
    if replay_ops(&args).is_some() {
        rep.note("replay: packs depend on real git histories, the run of this seed is repeated");
    }
    let histories = args.budget(3, 24);
    let (dense, random, flips) = if args.thorough { (4096, 200, 500) } else { (48, 30, 70) };
    let mut first_full: Option<Vec<u8>> = None;
    for i in 0..histories {
        let h = make_history(&sc, &mut rng, i);
        // full pack
        let (pack, opts) = pack_objects(&h, &mut rng, false);
        rep.bucket("pack-full");
        let desc = format!("history {i} ({} commits) full pack {} bytes {opts}", h.commits, pack.len());
        let written = check_pack(&mut rep, &sc, &format!("f{i}"), &pack, None, &desc, args.seed * 1000 + i);
        if first_full.is_none() {
            first_full = written.clone();
        }
        // thin pack
        let (thin, opts) = pack_objects(&h, &mut rng, true);
        rep.bucket("pack-thin");
        let desc = format!(
            "history {i} ({} commits, receiver has {}) thin pack {} bytes {opts}",
            h.commits,
            h.base_commits,
            thin.len()
        );
        check_pack(&mut rep, &sc, &format!("t{i}"), &thin, Some(&h.recv), &desc, args.seed * 1000 + 500 + i);
        // `git pack-objects` without --delta-base-offset refers to bases inside the pack by id
        if i < 2 {
            for thin_ref in [false, true] {
                let mut a: Vec<String> = vec!["pack-objects".into(), "--stdout".into(), "--revs".into(), "-q".into(), "--depth=50".into(), "--window=10".into()];
                let back = h.commits - h.base_commits;
                let revs = if thin_ref {
                    a.push("--thin".into());
                    format!("HEAD\n^HEAD~{back}\n")
                } else {
                    a.push("--all".into());
                    String::new()
                };
                let av: Vec<&str> = a.iter().map(String::as_str).collect();
                let out = git(&h.repo, &av, Some(revs.as_bytes()));
                if !out.ok {
                    continue;
                }
                let dir = fresh_dir(&sc, "refdelta");
                let odb = thin_ref.then(|| h.recv.join("objects"));
                rep.oracle_checked();
                rep.bucket("pack-in-pack-ref-deltas");
                match catch(|| write_pack(&out.stdout, &dir, 2, odb.as_deref())) {
                    Ok(Ok(_)) => rep.bucket("pack-in-pack-ref-deltas-accepted"),
                    Ok(Err(e)) => rep.oracle_failure(
                        if thin_ref {
                            "a pack of git pack-objects (thin, bases inside the pack referred to by id) is rejected"
                        } else {
                            "a pack of git pack-objects (full, bases inside the pack referred to by id) is rejected"
                        },
                        &format!("history {i}: git pack-objects without --delta-base-offset, {} bytes: {e}", out.stdout.len()),
                        "",
                    ),
                    Err(p) => rep.oracle_failure("storing a pack with in-pack ref-deltas panics", &p, ""),
                }
            }
        }
        // faults on the packs of the first history (all of them in the thorough tier's first three)
        if i == 0 || (args.thorough && i < 3) {
            let (d, r, f) = if i == 0 { (dense, random, flips) } else { (64, random / 2, flips / 2) };
            faults(&mut rep, &sc, &mut rng, &pack, None, d, r, f);
            faults(&mut rep, &sc, &mut rng, &thin, Some(&h.recv), d / 2, r / 2, f);
            let max = if args.thorough { 200 } else { 10 };
            header_faults(&mut rep, &sc, &thin, Some(&h.recv), max);
            header_faults(&mut rep, &sc, &pack, None, max / 2);
        }
    }
    if let Some(p) = &first_full {
        persist_cases(&mut rep, &sc, p);
    }
    let consts = eager_constants(&mut rep);
    eager_iter_cases(&mut rep, consts);
    big_pack_cases(&mut rep, &sc, &mut rng, consts, args.thorough);
    crafted_packs(&mut rep, &sc, &mut rng, args.budget(25, 400));
    rep.finish();
}
