//! C26 — config files round-trip losslessly.
//! Correspondence: the event stream of `parse::from_bytes`, its serialization, and
//! `File::to_bstring` against the Lean model. Oracle (independent of the model): events written
//! back give the input byte for byte; a loaded file serializes to text that parses back to the
//! same sections, keys and values.
mod gen;
use gen::*;
use gix_config::parse::Event;
use hcommon::*;

fn write_events(evs: &[Event<'_>]) -> Vec<u8> {
    let mut out = Vec::new();
    for e in evs {
        e.write_to(&mut out).expect("vec write");
    }
    out
}

/// length of what `unicode_bom` would skip, for the known BOM class only (UTF-8) plus a generic
/// "whatever was skipped" computation from the output
fn unesc(raw: &[u8]) -> Vec<u8> {
    let mut out = Vec::new();
    let mut i = 0;
    while i < raw.len() {
        if raw[i] == b'\\' && i + 1 < raw.len() {
            out.push(raw[i + 1]);
            i += 2;
        } else {
            out.push(raw[i]);
            i += 1;
        }
    }
    out
}

/// Explain the difference between the input and the re-serialized events, walking both:
/// Ok(classes) if every difference is a dropped BOM or a quoted sub-section whose raw text has
/// escapes that are not reproduced; Err(position) otherwise.
fn explain(input: &[u8], evs: &[Event<'_>]) -> Result<Vec<&'static str>, usize> {
    let total: Vec<u8> = write_events(evs);
    let mut classes = Vec::new();
    let mut pos = 0usize;
    // a BOM is whatever prefix makes the remainder line up with the first event
    let first = evs.first().map(|e| e.to_bstring().to_vec()).unwrap_or_default();
    if !input.starts_with(&first) || (evs.is_empty() && !input.is_empty()) {
        let mut found = None;
        for skip in 2..=4usize.min(input.len()) {
            if input[skip..].starts_with(&first) && (!evs.is_empty() || input.len() == skip) {
                // headers may still differ, so only check the first event when it is not a header
                found = Some(skip);
                break;
            }
        }
        if let Some(s) = found {
            pos = s;
            classes.push("bom-dropped");
        } else if !matches!(evs.first(), Some(Event::SectionHeader(_))) {
            return Err(0);
        } else {
            // first event is a header that may itself be non-canonical: try BOM lengths below
            for skip in [0usize, 2, 3, 4] {
                if input.len() > skip && input[skip] == b'[' {
                    pos = skip;
                    if skip > 0 {
                        classes.push("bom-dropped");
                    }
                    break;
                }
            }
        }
    }
    for e in evs {
        let r = e.to_bstring();
        if input[pos..].starts_with(&r) {
            pos += r.len();
            continue;
        }
        match e {
            Event::SectionHeader(h) if !h.is_legacy() && h.subsection_name().is_some() => {
                // [name ws "raw"]
                let sep = header_sep(h).unwrap_or_default();
                let mut prefix = vec![b'['];
                prefix.extend_from_slice(h.name());
                prefix.extend_from_slice(&sep);
                prefix.push(b'"');
                if !input[pos..].starts_with(&prefix) {
                    return Err(pos);
                }
                let start = pos + prefix.len();
                let mut i = start;
                loop {
                    if i >= input.len() {
                        return Err(pos);
                    }
                    match input[i] {
                        b'\\' => i += 2,
                        b'"' => break,
                        _ => i += 1,
                    }
                }
                if i + 1 >= input.len() || input[i + 1] != b']' {
                    return Err(pos);
                }
                let raw = &input[start..i];
                if unesc(raw) != h.subsection_name().expect("some").to_vec() {
                    return Err(pos);
                }
                classes.push("noncanonical-subsection-escape");
                pos = i + 2;
            }
            _ => return Err(pos),
        }
    }
    if pos != input.len() {
        return Err(pos);
    }
    let _ = total;
    Ok(classes)
}

fn do_case(rep: &mut Report, input: &[u8], kind: &str) {
    let hx = hex(input);
    // --- correspondence: event stream
    let op = format!("cfgparse {hx}");
    let parsed = catch(|| parse_events(input));
    let obs = match &parsed {
        Err(_) => "panic".to_string(),
        Ok(None) => "err".to_string(),
        Ok(Some(evs)) => format!("ok {} {}", evs.len(), dump_events(evs)),
    };
    let ok = matches!(parsed, Ok(Some(_)));
    rep.case(&op, &obs, ok);
    rep.bucket(&format!("{kind}:{}", if ok { "ok" } else if parsed.is_err() { "panic" } else { "err" }));
    if parsed.is_err() {
        rep.oracle_failure(&format!("panic:{hx}"), "parse::from_bytes panicked", &op);
        return;
    }
    let Ok(Some(evs)) = parsed else { return };
    for e in &evs {
        rep.bucket(match e {
            Event::Comment(_) => "ev:comment",
            Event::SectionHeader(h) => {
                if h.is_legacy() {
                    "ev:header-legacy"
                } else if h.subsection_name().is_some() {
                    "ev:header-quoted"
                } else {
                    "ev:header-plain"
                }
            }
            Event::ValueNotDone(_) => "ev:value-not-done",
            Event::ValueDone(_) => "ev:value-done",
            Event::Value(v) if v.is_empty() => "ev:value-empty",
            Event::Value(_) => "ev:value",
            _ => "ev:other",
        });
    }
    // --- correspondence: serialization of the events
    let written = write_events(&evs);
    rep.case(&format!("cfgrt {hx}"), &format!("ok {}", hex(&written)), true);

    // --- oracle 1: events written back == input
    rep.oracle_checked();
    if written != input {
        match explain(input, &evs) {
            Ok(classes) if !classes.is_empty() => {
                for c in classes {
                    rep.bucket(&format!("lossy:{c}"));
                    rep.oracle_failure(
                        c,
                        &format!("events of {:?} serialize to {:?}", short(input), short(&written)),
                        &format!("cfgrt {hx}"),
                    );
                }
            }
            _ => rep.oracle_failure(
                &format!("lossless:{hx}"),
                &format!("events of {:?} serialize to {:?}", short(input), short(&written)),
                &format!("cfgrt {hx}"),
            ),
        }
    }

    // --- File: serialize, reparse, compare
    let f = match catch(|| file_of(input)) {
        Ok(Some(f)) => f,
        Ok(None) => {
            rep.oracle_failure(&format!("file-err:{hx}"), "Events parse but File::from_bytes_no_includes fails", &op);
            return;
        }
        Err(_) => {
            rep.oracle_failure(&format!("file-panic:{hx}"), "File::from_bytes_no_includes panicked", &op);
            return;
        }
    };
    let out = match catch(|| f.to_bstring()) {
        Ok(o) => o.to_vec(),
        Err(_) => {
            rep.case(&format!("cfgfile {hx}"), "panic", true);
            rep.oracle_failure(&format!("write-panic:{hx}"), "File::to_bstring panicked", &op);
            return;
        }
    };
    let fop = format!("cfgfile {hx}");
    rep.case(&fop, &format!("ok {}", hex(&out)), true);
    rep.bucket(if out == written { "file:verbatim" } else { "file:newline-inserted" });
    rep.oracle_checked();
    let reparsed = catch(|| file_of(&out));
    match reparsed {
        Ok(Some(g)) => {
            let (e1, e2) = (entries(&f), entries(&g));
            let (h1, h2) = (headers(&f), headers(&g));
            if e1 != e2 || h1 != h2 {
                rep.oracle_failure(
                    &format!("reparse-differs:{hx}"),
                    &format!(
                        "{:?} is written as {:?} which reads back differently: {} vs {} entries",
                        short(input),
                        short(&out),
                        e1.len(),
                        e2.len()
                    ),
                    &fop,
                );
            }
        }
        Ok(None) => {
            // a sub-section holding an escaped NUL is written unescaped and then rejected
            let class = if evs.iter().any(|e| matches!(e, Event::SectionHeader(h) if h.subsection_name().map_or(false, |s| s.contains(&0)))) {
                "reparse-fails:nul-in-subsection".to_string()
            } else {
                format!("reparse-fails:{hx}")
            };
            rep.oracle_failure(
                &class,
                &format!("{:?} is written as {:?} which no longer parses", short(input), short(&out)),
                &fop,
            );
        }
        Err(_) => rep.oracle_failure(&format!("reparse-panic:{hx}"), "reparse panicked", &fop),
    }
}

fn corpus() -> Vec<Vec<u8>> {
    let mut v: Vec<Vec<u8>> = [
        b"" as &[u8],
        b"\n",
        b"[a]",
        b"[a]\n",
        b"[a]\n\tk = v\n",
        b"[a] k = v",
        b"[a]k=v",
        b"[a][b]",
        b"[a]\nk",
        b"[a]\nk \n",
        b"[a]\nk=\n",
        b"[a]\nk= \n",
        b"[a]\nk = v ; c\n",
        b"[a]\nk = v#c",
        b"[a]\nk = \"v ; c\" # d\n",
        b"[a]\nk = a\\\n  b\n",
        b"[a]\nk = a\\\r\n  b\r\n",
        b"[a]\nk = a\\\n",
        b"[a]\nk = a\\",
        b"[a]\nk = a\\\n\\\n",
        b"[a]\r\nk = a\\\n",
        b"[a]\r\nk = a \\\r\n",
        b"[a]\nk = \\\n",
        b"[a]\nk = \"a\\\nb\"\n",
        b"[a]\nk = \"a\nb\"\n",
        b"[a]\nk = a\\xb\n",
        b"[a]\nk = a\\\rb\n",
        b"[a]\nk = a\\\r",
        b"[a]\nk = a \x0c\n",
        b"[a]\nk = a\r\n",
        b"[a]\nk = a\rb\n",
        b"[a]\nk j l\n",
        b"[a \"b\"]\n",
        b"[a \"b\\c\"]\n",
        b"[a \"b\\\\c\\\"\"]\n",
        b"[a \"\\\0\"]\n",
        b"[a \"b\0\"]\n",
        b"[a \"\"]\n",
        b"[a\t \"b\"]\n",
        b"[a \"b\" ]\n",
        b"[a \"b\nc\"]\n",
        b"[a \"b\\\nc\"]\n",
        b"[a.b]\n",
        b"[a.b.c]\n",
        b"[a.]\n",
        b"[.a]\n",
        b"[]\n",
        b"[a",
        b"[a ",
        b"[a \"",
        b"[a \"b",
        b"[a \"b\"",
        b"[a]]\n",
        b"[a] ]\n",
        b"k = v\n",
        b"# only a comment",
        b";c\n\n \t\n[a]\n",
        b"\xef\xbb\xbf[a]\nk=v\n",
        b"\xef\xbb\xbf",
        b"\xfe\xff[a]\n",
        b"\xff\xfe\0\0[a]\n",
        b"+/v8[a]\n",
        b"+/v7[a]\n",
        b"[a]\n#",
        b"[a]\n# c\n[b]\nk=v",
        b"[a]\nk = v \\\n ; c\n",
        b"[a]\n1k = v\n",
        b"[a]\nk_ = v\n",
        b"[a]\n-k = v\n",
        b"[a]\nk = \"\n",
        b"[a]\nk = \"\"\"\n",
        b"[a]\nk = \"\\\"\"\n",
        b"[a]\r\nk = v\r\n\r\n",
        b"[a]\n\r\nk = v\n",
        b"[a]\nk = v\r",
        b"[a]\rk = v\n",
    ]
    .iter()
    .map(|s| s.to_vec())
    .collect();
    // the 1023-newline cap of take_newlines1, in the front matter, in a section, CRLF
    for n in [1022usize, 1023, 1024, 2046, 2047] {
        v.push(vec![b'\n'; n]);
        let mut s = b"[a]".to_vec();
        s.extend(std::iter::repeat(b'\n').take(n));
        s.extend_from_slice(b"k=v");
        v.push(s);
    }
    let mut s = b"[a]\n".to_vec();
    for _ in 0..1023 {
        s.extend_from_slice(b"\r\n");
    }
    s.extend_from_slice(b"\nk\n");
    v.push(s);
    v
}

fn main() {
    let args = Args::parse();
    let mut rep = Report::new("C26", &args);
    let mut r = Rng::new(args.seed);
    if let Some(ops) = replay_ops(&args) {
        for op in ops {
            let mut it = op.split(' ');
            let (Some(_), Some(h)) = (it.next(), it.next()) else { continue };
            if let Some(b) = unhex(h) {
                do_case(&mut rep, &b, "replay");
            }
        }
        rep.finish();
        return;
    }
    for c in corpus() {
        do_case(&mut rep, &c, "corpus");
    }
    let n = args.budget(12_000, 250_000);
    for _ in 0..n {
        match r.below(10) {
            0..=4 => {
                let c = gen_config(&mut r, Style::default());
                do_case(&mut rep, &c, "gen");
            }
            5 => {
                let c = gen_config(&mut r, Style { git_ok: true, plain_ws: false });
                do_case(&mut rep, &c, "gen-git");
            }
            6..=8 => {
                let mut c = gen_config(&mut r, Style::default());
                mutate(&mut r, &mut c);
                do_case(&mut rep, &c, "mutated");
            }
            _ => {
                let c = r.over(b"[]\"\\=;# \t\n\r.ab-1\0", 24);
                do_case(&mut rep, &c, "random");
            }
        }
    }
    rep.finish();
}
