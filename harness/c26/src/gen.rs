//! Shared by the C26/C27/C28 harnesses (`#[path]`-included): structure-aware generator of git
//! config texts, event dumping in the format of the Lean drivers.
#![allow(dead_code)]
use gix_config::parse::Event;
use hcommon::*;

pub const SECTION_NAMES: &[&str] = &["core", "a", "A", "remote", "Remote", "branch", "x-y", "s1", "http", "b"];
pub const SUBS: &[&str] = &["origin", "Origin", "b", "B", "main", "a b", "x.y", "", "https://example.com/"];
pub const KEYS: &[&str] = &["k", "K", "url", "bare", "autocrlf", "key2", "a-b", "x", "fetch", "Fetch"];

#[derive(Clone, Copy, Default)]
pub struct Style {
    /// restrict to what `git config -f` parses without error
    pub git_ok: bool,
    /// keep values free of the constructs on which git 2.39 and gitoxide knowingly differ
    pub plain_ws: bool,
}

pub fn pk<'a>(r: &mut Rng, xs: &[&'a [u8]]) -> &'a [u8] {
    xs[r.usize(xs.len())]
}

pub fn gen_comment(r: &mut Rng, out: &mut Vec<u8>) {
    out.push(*r.pick(b";#"));
    match r.below(6) {
        0 => {}
        1 => out.extend_from_slice(b" "),
        2 => out.extend_from_slice(b" a comment ; with # markers \"and quotes\\"),
        3 => out.extend_from_slice(b"[not a section]"),
        4 => out.extend_from_slice(b"\tk = v"),
        _ => out.extend_from_slice(&r.over(b"abc =#;\"\\\t[]", 12)),
    }
}

pub fn nl(r: &mut Rng, crlf: u8, out: &mut Vec<u8>) {
    // crlf: 0 = LF file, 1 = CRLF file, 2 = mixed
    let use_crlf = match crlf {
        0 => false,
        1 => true,
        _ => r.chance(1, 2),
    };
    if use_crlf {
        out.extend_from_slice(b"\r\n");
    } else {
        out.push(b'\n');
    }
}

pub fn gen_header(r: &mut Rng, st: Style, out: &mut Vec<u8>) {
    let name = *r.pick(SECTION_NAMES);
    out.push(b'[');
    out.extend_from_slice(name.as_bytes());
    match r.below(10) {
        0..=3 => {}
        4 => {
            // legacy
            out.push(b'.');
            out.extend_from_slice(r.pick(&["sub", "Sub", "a.b", "", "x-1"]).as_bytes());
        }
        _ => {
            match r.below(8) {
                0 => out.extend_from_slice(b"  "),
                1 => out.push(b'\t'),
                2 => out.extend_from_slice(b" \t "),
                _ => out.push(b' '),
            }
            out.push(b'"');
            let sub = *r.pick(SUBS);
            for &b in sub.as_bytes() {
                if r.chance(1, 12) {
                    // an escape that is not needed (`\x` reads as `x`)
                    out.push(b'\\');
                }
                out.push(b);
            }
            match r.below(12) {
                0 => out.extend_from_slice(b"\\\\"),
                1 => out.extend_from_slice(b"\\\""),
                2 => out.extend_from_slice(b"\\\"q\\\\"),
                3 if !st.git_ok => out.extend_from_slice(b"\\\0"),
                4 => out.extend_from_slice(b"]["),
                5 => out.extend_from_slice(b"#;"),
                _ => {}
            }
            out.push(b'"');
        }
    }
    out.push(b']');
}

/// text of one value as written after `=` (possibly several physical lines), without the final EOL
pub fn gen_value_text(r: &mut Rng, st: Style, crlf: u8, out: &mut Vec<u8>) {
    let parts = match r.below(8) {
        0 => 0,
        1..=4 => 1,
        5 | 6 => 2,
        _ => 1 + r.usize(4),
    };
    let mut in_quote = false;
    for pi in 0..parts {
        if pi > 0 {
            match r.below(6) {
                0 | 1 => out.push(b' '),
                2 => out.extend_from_slice(b"  "),
                3 if !st.plain_ws => out.push(b'\t'),
                _ => {}
            }
        }
        match r.below(16) {
            0..=4 => out.extend_from_slice(r.pick(&["true", "false", "yes", "1", "0", "10k", "value", "a/b/c", "x=y", "~/p", "ON", "-1", "2G"]).as_bytes()),
            5 => out.extend_from_slice(&r.over(b"abcXYZ019-_./:@=", 8)),
            6 => {
                // quoted segment
                out.push(b'"');
                out.extend_from_slice(r.pick(&["", " ", "a b", " lead", "trail ", "x;y", "#h", "a\\\"b", "t\\tn\\n", "\\\\"]).as_bytes());
                out.push(b'"');
            }
            7 => {
                // open a quote that spans parts
                out.push(b'"');
                in_quote = !in_quote;
                out.extend_from_slice(b"q r");
            }
            8 => out.extend_from_slice(r.pick(&["\\n", "\\t", "\\\\", "\\\"", "a\\\"b"]).as_bytes()),
            9 if !st.plain_ws => out.extend_from_slice(b"x\\by"),
            10 => {
                // continuation line
                if r.chance(1, 3) {
                    out.push(b' ');
                }
                out.push(b'\\');
                nl(r, crlf, out);
                match r.below(4) {
                    0 => out.extend_from_slice(b"  "),
                    1 if !st.plain_ws => out.push(b'\t'),
                    _ => {}
                }
                out.extend_from_slice(r.pick(&["cont", "", "c d", "\"q\""]).as_bytes());
            }
            11 if !st.plain_ws => out.extend_from_slice(b"a\rb"),
            12 if !st.git_ok => out.extend_from_slice(r.pick(&["\\x", "\\", "\x0c", "\"", "\\\r"]).as_bytes()),
            13 => out.extend_from_slice("ünï".as_bytes()),
            _ => out.extend_from_slice(r.pick(&["v", "w", "1", "z"]).as_bytes()),
        }
    }
    if in_quote {
        out.push(b'"');
    }
    // trailing whitespace and / or comment
    match r.below(10) {
        0 => out.push(b' '),
        1 => out.extend_from_slice(b" \t"),
        2 => {
            out.push(b' ');
            gen_comment(r, out)
        }
        3 => gen_comment(r, out),
        _ => {}
    }
}

pub fn gen_body_line(r: &mut Rng, st: Style, crlf: u8, out: &mut Vec<u8>) {
    match r.below(14) {
        0 => {} // blank line
        1 => {
            out.extend_from_slice(pk(r, &[b"", b" ", b"\t", b"  \t"]));
            gen_comment(r, out);
        }
        2 => out.extend_from_slice(pk(r, &[b" ", b"\t", b"   "])),
        _ => {
            out.extend_from_slice(pk(r, &[b"", b"\t", b"\t", b" ", b"    "]));
            out.extend_from_slice(r.pick(KEYS).as_bytes());
            match r.below(10) {
                0 => {} // implicit boolean
                1 => out.extend_from_slice(pk(r, &[b" ", b"\t", b"  "])), // implicit with trailing space
                2 if !st.git_ok => {
                    // several names on a line
                    out.push(b' ');
                    out.extend_from_slice(r.pick(KEYS).as_bytes());
                }
                _ => {
                    out.extend_from_slice(pk(r, &[b" ", b" ", b"", b"\t", b"  "]));
                    out.push(b'=');
                    out.extend_from_slice(pk(r, &[b" ", b" ", b"", b"\t", b"  "]));
                    gen_value_text(r, st, crlf, out);
                }
            }
        }
    }
}

/// A whole config text.
pub fn gen_config(r: &mut Rng, st: Style) -> Vec<u8> {
    let mut out = Vec::new();
    let crlf = match r.below(10) {
        0 | 1 => 1,
        2 => 2,
        _ => 0,
    };
    if r.chance(1, 12) {
        if st.git_ok || r.chance(2, 3) {
            out.extend_from_slice(&[0xef, 0xbb, 0xbf]);
        } else {
            out.extend_from_slice(pk(r, &[&[0xfe, 0xff], &[0xff, 0xfe], &[0xff, 0xfe, 0, 0], &[0, 0, 0xfe, 0xff], &[0x2b, 0x2f, 0x76, 0x38], &[0x0e, 0xfe, 0xff], &[0xf7, 0x64, 0x4c]]));
        }
    }
    // front matter
    for _ in 0..r.below(3) {
        match r.below(3) {
            0 => gen_comment(r, &mut out),
            1 => out.extend_from_slice(pk(r, &[b" ", b"\t"])),
            _ => {}
        }
        nl(r, crlf, &mut out);
    }
    let nsec = match r.below(10) {
        0 => 0,
        1..=5 => 1,
        6..=8 => 2,
        _ => 3 + r.usize(3),
    };
    for si in 0..nsec {
        gen_header(r, st, &mut out);
        let nlines = r.below(6);
        // what follows the header on its own line
        match r.below(12) {
            0 => {
                // a key on the header line
                out.push(b' ');
                gen_body_line(r, st, crlf, &mut out);
            }
            1 => {
                out.push(b' ');
                gen_comment(r, &mut out);
            }
            2 if !st.git_ok && si + 1 < nsec => continue, // next header on the same line
            _ => {}
        }
        let last_section = si + 1 == nsec;
        if last_section && nlines == 0 && r.chance(1, 3) {
            break; // header is the last thing in the file, no newline
        }
        nl(r, crlf, &mut out);
        for li in 0..nlines {
            gen_body_line(r, st, crlf, &mut out);
            if last_section && li + 1 == nlines && r.chance(1, 4) {
                break; // missing final newline
            }
            nl(r, crlf, &mut out);
        }
    }
    out
}

pub fn mutate(r: &mut Rng, v: &mut Vec<u8>) {
    const ALPHA: &[u8] = b"[]\"\\=;# \t\n\r.ab-1\0";
    for _ in 0..1 + r.below(3) {
        if v.is_empty() {
            v.push(*r.pick(ALPHA));
            continue;
        }
        let pos = r.usize(v.len());
        match r.below(4) {
            0 => v[pos] = *r.pick(ALPHA),
            1 => v.insert(pos, *r.pick(ALPHA)),
            2 => {
                v.remove(pos);
            }
            _ => {
                let end = (pos + 1 + r.usize(6)).min(v.len());
                v.drain(pos..end);
            }
        }
    }
}

pub fn opt_hex(b: Option<&[u8]>) -> String {
    match b {
        None => "~".into(),
        Some(b) => hex(b),
    }
}

/// separator of a header (the field is crate-private): recovered from its serialization
pub fn header_sep(h: &gix_config::parse::section::Header<'_>) -> Option<Vec<u8>> {
    let s = h.to_bstring();
    let name_len = h.name().len();
    let rest = &s[1 + name_len..];
    if rest.first() == Some(&b']') && rest.len() == 1 && h.subsection_name().is_none() {
        return None;
    }
    if h.is_legacy() {
        return Some(b".".to_vec());
    }
    let q = rest.iter().position(|b| *b == b'"')?;
    Some(rest[..q].to_vec())
}

pub fn dump_event(e: &Event<'_>) -> String {
    match e {
        Event::Comment(c) => format!("C{}:{}", c.tag, hex(&c.text)),
        Event::SectionHeader(h) => format!(
            "H:{}:{}:{}",
            hex(h.name()),
            opt_hex(header_sep(h).as_deref()),
            opt_hex(h.subsection_name().map(|s| &**s))
        ),
        Event::SectionValueName(k) => format!("K:{}", hex(k.as_ref().as_bytes())),
        Event::Value(v) => format!("V:{}", hex(v)),
        Event::Newline(v) => format!("N:{}", hex(v)),
        Event::ValueNotDone(v) => format!("P:{}", hex(v)),
        Event::ValueDone(v) => format!("D:{}", hex(v)),
        Event::Whitespace(v) => format!("W:{}", hex(v)),
        Event::KeyValueSeparator => "=".into(),
    }
}

pub fn dump_events(evs: &[Event<'_>]) -> String {
    evs.iter().map(dump_event).collect::<Vec<_>>().join(",")
}

/// all events `parse::from_bytes` dispatches, or None on error
pub fn parse_events(input: &[u8]) -> Option<Vec<Event<'_>>> {
    let mut evs = Vec::new();
    match gix_config::parse::from_bytes(input, &mut |e| evs.push(e)) {
        Ok(()) => Some(evs),
        Err(_) => None,
    }
}

pub fn file_of(input: &[u8]) -> Option<gix_config::File<'_>> {
    gix_config::File::from_bytes_no_includes(input, gix_config::file::Metadata::api(), Default::default()).ok()
}

/// (section, subsection, key, normalized value) in file order, from the real API
pub fn entries(f: &gix_config::File<'_>) -> Vec<(Vec<u8>, Option<Vec<u8>>, Vec<u8>, Vec<u8>)> {
    let mut out = Vec::new();
    for s in f.sections() {
        let h = s.header();
        for (k, v) in s.body().clone() {
            out.push((
                h.name().to_vec(),
                h.subsection_name().map(|s| s.to_vec()),
                k.as_ref().as_bytes().to_vec(),
                v.to_vec(),
            ));
        }
    }
    out
}

pub fn headers(f: &gix_config::File<'_>) -> Vec<(Vec<u8>, Option<Vec<u8>>)> {
    f.sections()
        .map(|s| (s.header().name().to_vec(), s.header().subsection_name().map(|s| s.to_vec())))
        .collect()
}

pub fn short(b: &[u8]) -> String {
    let s: String = b
        .iter()
        .flat_map(|&c| std::ascii::escape_default(c))
        .map(|c| c as char)
        .collect();
    if s.len() > 160 {
        format!("{}…", &s[..160])
    } else {
        s
    }
}
