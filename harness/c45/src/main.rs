//! C45 — the built-in text merge driver: never panics, merge identities, no markers in clean
//! results, forced resolutions. Real code: `gix_merge::blob::builtin_driver::text`.
//! The Lean model is fed the two hunk lists the real diff (imara-diff, same version, same
//! algorithm, same tokenizer) produces, so that it models the merge GIVEN the diff.
use bstr::ByteSlice;
use gix_merge::blob::builtin_driver::text::{Conflict, ConflictStyle, Labels, Options};
use gix_merge::blob::Resolution;
use hcommon::*;
use std::ops::Range;

#[derive(Clone, Copy, PartialEq, Eq, Debug)]
enum Mode {
    Keep(ConflictStyle, usize),
    Ours,
    Theirs,
    Union,
}

impl Mode {
    fn conflict(self) -> Conflict {
        match self {
            Mode::Keep(style, marker_size) => Conflict::Keep { style, marker_size },
            Mode::Ours => Conflict::ResolveWithOurs,
            Mode::Theirs => Conflict::ResolveWithTheirs,
            Mode::Union => Conflict::ResolveWithUnion,
        }
    }
    fn token(self) -> String {
        match self {
            Mode::Keep(ConflictStyle::Merge, n) => format!("merge:{n}"),
            Mode::Keep(ConflictStyle::Diff3, n) => format!("diff3:{n}"),
            Mode::Keep(ConflictStyle::ZealousDiff3, n) => format!("zdiff3:{n}"),
            Mode::Ours => "ours".into(),
            Mode::Theirs => "theirs".into(),
            Mode::Union => "union".into(),
        }
    }
    fn parse(s: &str) -> Option<Mode> {
        Some(match s {
            "ours" => Mode::Ours,
            "theirs" => Mode::Theirs,
            "union" => Mode::Union,
            _ => {
                let (st, n) = s.split_once(':')?;
                let n: usize = n.parse().ok()?;
                let st = match st {
                    "merge" => ConflictStyle::Merge,
                    "diff3" => ConflictStyle::Diff3,
                    "zdiff3" => ConflictStyle::ZealousDiff3,
                    _ => return None,
                };
                Mode::Keep(st, n)
            }
        })
    }
}

struct Collect(Vec<(Range<u32>, Range<u32>)>);
impl imara_diff::Sink for Collect {
    type Out = Vec<(Range<u32>, Range<u32>)>;
    fn process_change(&mut self, before: Range<u32>, after: Range<u32>) {
        self.0.push((before, after));
    }
    fn finish(self) -> Self::Out {
        self.0
    }
}

fn lines(data: &[u8]) -> Vec<&[u8]> {
    imara_diff::sources::byte_lines_with_terminator(data).collect()
}

/// the hunks of base -> side exactly as `merge` obtains them (same interner history: ancestor,
/// current, then other)
fn real_hunks(base: &[u8], ours: &[u8], theirs: &[u8]) -> (Vec<(Range<u32>, Range<u32>)>, Vec<(Range<u32>, Range<u32>)>) {
    let mut input = imara_diff::intern::InternedInput::new(&b""[..], &b""[..]);
    input.clear();
    input.update_before(imara_diff::sources::byte_lines_with_terminator(base));
    input.update_after(imara_diff::sources::byte_lines_with_terminator(ours));
    let a = imara_diff::diff(imara_diff::Algorithm::Myers, &input, Collect(Vec::new()));
    input.update_after(imara_diff::sources::byte_lines_with_terminator(theirs));
    let b = imara_diff::diff(imara_diff::Algorithm::Myers, &input, Collect(Vec::new()));
    (a, b)
}

fn hunks_token(h: &[(Range<u32>, Range<u32>)]) -> String {
    if h.is_empty() {
        return "-".into();
    }
    h.iter()
        .map(|(b, a)| format!("{}-{}:{}-{}", b.start, b.end, a.start, a.end))
        .collect::<Vec<_>>()
        .join(",")
}

fn label_token(l: &Option<Vec<u8>>) -> String {
    match l {
        None => "none".into(),
        Some(b) => hex(b),
    }
}

struct Case {
    base: Vec<u8>,
    ours: Vec<u8>,
    theirs: Vec<u8>,
    labels: [Option<Vec<u8>>; 3], // ancestor, current, other
}

fn real_merge(c: &Case, mode: Mode) -> Result<(Resolution, Vec<u8>), String> {
    catch(|| {
        let mut out = Vec::new();
        let mut input = imara_diff::intern::InternedInput::new(&b""[..], &b""[..]);
        input.clear();
        let labels = Labels {
            ancestor: c.labels[0].as_ref().map(|b| b.as_bstr()),
            current: c.labels[1].as_ref().map(|b| b.as_bstr()),
            other: c.labels[2].as_ref().map(|b| b.as_bstr()),
        };
        let res = gix_merge::blob::builtin_driver::text(
            &mut out,
            &mut input,
            labels,
            &c.ours,
            &c.base,
            &c.theirs,
            Options {
                diff_algorithm: imara_diff::Algorithm::Myers,
                conflict: mode.conflict(),
            },
        );
        (res, out)
    })
}

fn obs(r: &Result<(Resolution, Vec<u8>), String>) -> String {
    match r {
        Ok((Resolution::Complete, o)) => format!("complete {}", hex(o)),
        Ok((Resolution::Conflict, o)) => format!("conflict {}", hex(o)),
        Err(_) => "panic".into(),
    }
}

fn key_of(c: &Case, mode: Mode) -> String {
    format!("{} base={} ours={} theirs={}", mode.token(), hex(&c.base), hex(&c.ours), hex(&c.theirs))
}

/// the diff contract the theorems assume, checked on what the real diff delivered
fn check_contract(rep: &mut Report, what: &str, base: &[u8], side: &[u8], h: &[(Range<u32>, Range<u32>)]) {
    let (bl, sl) = (lines(base), lines(side));
    let mut ok = true;
    let mut pb = 0u32; // end of previous hunk in base / side
    let mut ps = 0u32;
    let mut rebuilt: Vec<&[u8]> = Vec::new();
    for (i, (b, a)) in h.iter().enumerate() {
        ok &= b.start <= b.end && a.start <= a.end && b.end as usize <= bl.len() && a.end as usize <= sl.len();
        ok &= !(b.is_empty() && a.is_empty());
        if !ok {
            break;
        }
        // unchanged run before the hunk: same length on both sides, strictly positive between hunks
        ok &= b.start >= pb && a.start >= ps && b.start - pb == a.start - ps;
        if i > 0 {
            ok &= b.start > pb;
        }
        if !ok {
            break;
        }
        rebuilt.extend_from_slice(&bl[pb as usize..b.start as usize]);
        rebuilt.extend_from_slice(&sl[a.start as usize..a.end as usize]);
        pb = b.end;
        ps = a.end;
    }
    if ok {
        rebuilt.extend_from_slice(&bl[pb as usize..]);
        ok &= rebuilt == sl;
        ok &= !(base == side) || h.is_empty();
    }
    rep.oracle_checked();
    if !ok {
        rep.outside_domain(&format!(
            "diff contract violated by imara-diff ({what}): base={:?} side={:?} hunks={}",
            base.as_bstr(),
            side.as_bstr(),
            hunks_token(h)
        ));
        rep.bucket("contract:violated");
    }
}

/// Is `out` a concatenation of whole lines (tokens, with their terminator or lack of it) of the
/// inputs — plus, if `allow_eol`, a terminator directly after a token that has none?
/// Returns the offset at which no continuation exists.
fn not_a_concatenation_of_input_lines(out: &[u8], c: &Case, allow_eol: bool) -> Option<usize> {
    let mut toks: Vec<Vec<u8>> = Vec::new();
    for src in [&c.base, &c.ours, &c.theirs] {
        for l in lines(src) {
            toks.push(l.to_vec());
            if allow_eol && !l.ends_with(b"\n") {
                let mut x = l.to_vec();
                x.push(b'\n');
                toks.push(x.clone());
                x.pop();
                x.extend_from_slice(b"\r\n");
                toks.push(x);
            }
        }
    }
    toks.sort();
    toks.dedup();
    let mut reach = vec![false; out.len() + 1];
    reach[0] = true;
    let mut furthest = 0;
    for i in 0..out.len() {
        if !reach[i] {
            continue;
        }
        furthest = i;
        for t in &toks {
            if !t.is_empty() && out[i..].starts_with(t) {
                reach[i + t.len()] = true;
            }
        }
    }
    if reach[out.len()] {
        None
    } else {
        Some(furthest)
    }
}

fn run_case(rep: &mut Report, c: &Case, mode: Mode) {
    let (ha, hb) = real_hunks(&c.base, &c.ours, &c.theirs);
    let op = format!(
        "merge {} {} {} {} {} {} {} {} {}",
        mode.token(),
        label_token(&c.labels[0]),
        label_token(&c.labels[1]),
        label_token(&c.labels[2]),
        hex(&c.base),
        hex(&c.ours),
        hex(&c.theirs),
        hunks_token(&ha),
        hunks_token(&hb)
    );
    let r = real_merge(c, mode);
    rep.case(&op, &obs(&r), true);
    rep.oracle_checked();
    let key = key_of(c, mode);
    match &r {
        Err(msg) => {
            rep.bucket("result:panic");
            rep.oracle_failure(&format!("panic {key}"), &format!("merge panicked: {msg}"), &op);
        }
        Ok((res, out)) => {
            rep.bucket(&format!(
                "result:{}:{}",
                mode.token().split(':').next().unwrap(),
                if *res == Resolution::Complete { "complete" } else { "conflict" }
            ));
            if c.ours == c.base && !(*res == Resolution::Complete && *out == c.theirs) {
                rep.oracle_failure(
                    &format!("ours-eq-base {key}"),
                    &format!("ours == base, but the result is {:?} {:?} instead of theirs {:?}", res, out.as_bstr(), c.theirs.as_bstr()),
                    &op,
                );
            }
            if c.theirs == c.base && !(*res == Resolution::Complete && *out == c.ours) {
                rep.oracle_failure(
                    &format!("theirs-eq-base {key}"),
                    &format!("theirs == base, but the result is {:?} {:?} instead of ours {:?}", res, out.as_bstr(), c.ours.as_bstr()),
                    &op,
                );
            }
            if c.ours == c.theirs && !(*res == Resolution::Complete && *out == c.ours) {
                rep.oracle_failure(
                    &format!("same-change {key}"),
                    &format!("ours == theirs, but the result is {:?} {:?} instead of {:?}", res, out.as_bstr(), c.ours.as_bstr()),
                    &op,
                );
            }
            if *res == Resolution::Complete || !matches!(mode, Mode::Keep(..)) {
                if !matches!(mode, Mode::Keep(..)) && *res != Resolution::Complete {
                    rep.oracle_failure(&format!("forced-not-complete {key}"), "a forced resolution reported a conflict", &op);
                }
                if let Some(at) = not_a_concatenation_of_input_lines(out, c, mode == Mode::Union) {
                    rep.oracle_failure(
                        &format!("foreign-bytes {key}"),
                        &format!(
                            "the conflict-free result {:?} is not made of lines of the inputs (stuck at offset {at})",
                            out.as_bstr()
                        ),
                        &op,
                    );
                }
            }
        }
    }
}

// ---------------------------------------------------------------------------------------------
// generators

const WORDS: &[&[u8]] = &[b"a", b"b", b"c", b"d", b"e", b"x", b"y", b"", b"foo", b"bar", b"a ", b"{", b"}"];

fn gen_line(r: &mut Rng, crlf_bias: u64) -> Vec<u8> {
    let mut l = r.pick(WORDS).to_vec();
    if r.below(10) < crlf_bias {
        l.extend_from_slice(b"\r\n");
    } else {
        l.push(b'\n');
    }
    l
}

fn join(ls: &[Vec<u8>], r: &mut Rng) -> Vec<u8> {
    let mut v: Vec<u8> = ls.concat();
    if !v.is_empty() && r.chance(1, 6) {
        // missing final newline
        v.pop();
        if v.last() == Some(&b'\r') {
            v.pop();
        }
    }
    v
}

fn edit(r: &mut Rng, base: &[Vec<u8>], crlf_bias: u64) -> Vec<Vec<u8>> {
    let mut v = base.to_vec();
    let n = match r.below(8) {
        0 => 0,
        1..=4 => 1,
        5 | 6 => 2,
        _ => 3 + r.usize(3),
    };
    for _ in 0..n {
        let pos = r.usize(v.len() + 1);
        match r.below(6) {
            0 | 1 => {
                let k = 1 + r.usize(3);
                for i in 0..k {
                    v.insert((pos + i).min(v.len()), gen_line(r, crlf_bias));
                }
            }
            2 | 3 => {
                if !v.is_empty() {
                    let p = pos.min(v.len() - 1);
                    let k = (1 + r.usize(3)).min(v.len() - p);
                    v.drain(p..p + k);
                }
            }
            4 => {
                if !v.is_empty() {
                    let p = pos.min(v.len() - 1);
                    v[p] = gen_line(r, crlf_bias);
                }
            }
            _ => {
                // many inserted lines: shifts the other side's coordinates far
                let k = 4 + r.usize(8);
                for i in 0..k {
                    v.insert((pos + i).min(v.len()), gen_line(r, crlf_bias));
                }
            }
        }
    }
    v
}

fn gen_case(r: &mut Rng) -> Case {
    let crlf_bias = *r.pick(&[0u64, 0, 0, 3, 10]);
    let n = match r.below(6) {
        0 => 0,
        1 => 1,
        2 | 3 => 2 + r.usize(4),
        _ => 4 + r.usize(10),
    };
    let base: Vec<Vec<u8>> = (0..n).map(|_| gen_line(r, crlf_bias)).collect();
    let ours = if r.chance(1, 10) { base.clone() } else { edit(r, &base, crlf_bias) };
    let theirs = match r.below(12) {
        0 => base.clone(),
        1 | 2 => ours.clone(),
        3 => edit(r, &ours, crlf_bias),
        _ => edit(r, &base, crlf_bias),
    };
    let label = |r: &mut Rng| -> Option<Vec<u8>> {
        match r.below(4) {
            0 => None,
            1 => Some(b"".to_vec()),
            _ => Some(r.pick(&[&b"ours"[..], b"theirs", b"base", b"a b", b"\xc3\xa9"]).to_vec()),
        }
    };
    Case {
        base: join(&base, r),
        ours: join(&ours, r),
        theirs: join(&theirs, r),
        labels: [label(r), label(r), label(r)],
    }
}

fn corpus() -> Vec<Case> {
    let t = |b: &str, o: &str, t: &str| Case {
        base: b.as_bytes().to_vec(),
        ours: o.as_bytes().to_vec(),
        theirs: t.as_bytes().to_vec(),
        labels: [Some(b"base".to_vec()), Some(b"ours".to_vec()), Some(b"theirs".to_vec())],
    };
    vec![
        t("", "", ""),
        t("", "a\n", ""),
        t("", "", "a\n"),
        t("", "a\n", "a\n"),
        t("", "a\n", "b\n"),
        t("a\n", "", ""),
        t("a\n", "b\n", "c\n"),
        t("a\n", "a", "a\n"),
        t("a", "a\n", "a\r\n"),
        t("a\nb\nc\n", "a\nB\nc\n", "a\nb\nC\n"),
        t("a\nb\nc\n", "a\nB\nc\n", "a\nX\nc\n"),
        t("a\nb\nc\n", "a\nc\n", "a\nc\n"),
        t("a\nb\nc\n", "a\nc\n", "a\nX\nc\n"),
        t("a\r\nb\r\nc\r\n", "a\r\nB\r\nc\r\n", "a\r\nX\r\nc\r\n"),
        t("a\nb\nc", "a\nB\nc", "a\nX\nc"),
        t("a\nb\nc\nd\ne\n", "a\nB\nc\nD\ne\n", "a\nX\nY\nZ\ne\n"),
        // two hunks of one side inside one big hunk of the other, with shifted coordinates
        t("0\n1\n2\n3\n4\n5\n", "N\nN\nN\nN\nN\nN\nN\nN\n1\n2\nM\n4\n5\n", "x\ny\n"),
        t("0\n1\n2\n3\n4\n5\n", "x\ny\n", "N\nN\nN\nN\nN\nN\nN\nN\n1\n2\nM\n4\n5\n"),
        t("0\n1\n2\n3\n4\n5\n6\n7\n", "0\n2\n3\n5\n6\n7\n", "0\nA\nB\nC\nD\nE\nF\n7\n"),
    ]
}

fn all_modes() -> Vec<Mode> {
    let mut v = Vec::new();
    for st in [ConflictStyle::Merge, ConflictStyle::Diff3, ConflictStyle::ZealousDiff3] {
        for n in 1..=20 {
            v.push(Mode::Keep(st, n));
        }
    }
    v.extend([Mode::Ours, Mode::Theirs, Mode::Union]);
    v
}

fn parse_hex_opt(s: &str) -> Option<Option<Vec<u8>>> {
    if s == "none" {
        Some(None)
    } else {
        unhex(s).map(Some)
    }
}

/// secondary oracle: `git merge-file -p` (differences are expected and documented in gix-merge's
/// tests; they are counted and sampled, not judged)
fn compare_with_git(rep: &mut Report, scratch: &Scratch, c: &Case, mode: Mode) {
    let r = real_merge(c, mode);
    let Ok((res, out)) = r else { return };
    std::fs::write(scratch.join("ours"), &c.ours).unwrap();
    std::fs::write(scratch.join("base"), &c.base).unwrap();
    std::fs::write(scratch.join("theirs"), &c.theirs).unwrap();
    let mut args: Vec<String> = vec!["merge-file".into(), "-p".into()];
    match mode {
        Mode::Keep(st, n) => {
            match st {
                ConflictStyle::Merge => {}
                ConflictStyle::Diff3 => args.push("--diff3".into()),
                ConflictStyle::ZealousDiff3 => args.push("--zdiff3".into()),
            }
            args.push(format!("--marker-size={n}"));
        }
        Mode::Ours => args.push("--ours".into()),
        Mode::Theirs => args.push("--theirs".into()),
        Mode::Union => args.push("--union".into()),
    }
    let lab = |l: &Option<Vec<u8>>, d: &str| match l {
        Some(b) if !b.is_empty() && b.is_ascii() => String::from_utf8_lossy(b).to_string(),
        _ => d.to_string(),
    };
    // labels: git always prints one; only compare when all three are plain non-empty strings
    let comparable_labels = c.labels.iter().all(|l| matches!(l, Some(b) if !b.is_empty() && b.is_ascii()));
    for (l, d) in [(&c.labels[1], "ours"), (&c.labels[0], "base"), (&c.labels[2], "theirs")] {
        args.push("-L".into());
        args.push(lab(l, d));
    }
    args.extend(["ours".to_string(), "base".to_string(), "theirs".to_string()]);
    let argv: Vec<&str> = args.iter().map(|s| s.as_str()).collect();
    let o = git(&scratch.path, &argv, None);
    if o.code < 0 || o.code > 127 {
        rep.bucket("git-merge-file:error");
        return;
    }
    rep.git_checked(1);
    let git_conflict = o.code != 0;
    let same_res = git_conflict == (res == Resolution::Conflict);
    let same_out = comparable_labels && o.stdout == out || (!git_conflict && res == Resolution::Complete && o.stdout == out);
    let m = mode.token();
    let m = m.split(':').next().unwrap();
    if same_res && same_out {
        rep.bucket(&format!("git-merge-file:{m}:same"));
    } else if !comparable_labels && same_res && git_conflict {
        rep.bucket(&format!("git-merge-file:{m}:same-resolution-labels-not-comparable"));
    } else {
        rep.bucket(&format!("git-merge-file:{m}:differs"));
        rep.outside_domain(&format!(
            "differs from git merge-file ({}): base={:?} ours={:?} theirs={:?}: gitoxide {:?} {:?}, git {} {:?}",
            mode.token(),
            c.base.as_bstr(),
            c.ours.as_bstr(),
            c.theirs.as_bstr(),
            res,
            out.as_bstr(),
            if git_conflict { "Conflict" } else { "Complete" },
            o.stdout.as_bstr()
        ));
    }
}

fn main() {
    if let Err(msg) = catch(real_main) {
        eprintln!("harness panicked: {msg}");
        std::process::exit(101);
    }
}

fn real_main() {
    let args = Args::parse();
    let mut rep = Report::new("C45", &args);
    let mut r = Rng::new(args.seed);
    if let Some(ops) = replay_ops(&args) {
        for op in ops {
            let t: Vec<&str> = op.split(' ').collect();
            if t.len() == 10 && t[0] == "merge" {
                if let (Some(mode), Some(la), Some(lc), Some(lo), Some(base), Some(ours), Some(theirs)) = (
                    Mode::parse(t[1]),
                    parse_hex_opt(t[2]),
                    parse_hex_opt(t[3]),
                    parse_hex_opt(t[4]),
                    unhex(t[5]),
                    unhex(t[6]),
                    unhex(t[7]),
                ) {
                    let c = Case { base, ours, theirs, labels: [la, lc, lo] };
                    run_case(&mut rep, &c, mode);
                }
            }
        }
        rep.finish();
        return;
    }
    let modes = all_modes();
    // the corpus under every mode
    for c in corpus() {
        let (ha, hb) = real_hunks(&c.base, &c.ours, &c.theirs);
        check_contract(&mut rep, "ours", &c.base, &c.ours, &ha);
        check_contract(&mut rep, "theirs", &c.base, &c.theirs, &hb);
        for m in &modes {
            run_case(&mut rep, &c, *m);
        }
    }
    let n = args.budget(3000, 40_000);
    let n_git = args.budget(120, 500);
    let scratch = Scratch::new("c45");
    for i in 0..n {
        let c = gen_case(&mut r);
        if i < n_git {
            let m = *r.pick(&[
                Mode::Keep(ConflictStyle::Merge, 7),
                Mode::Keep(ConflictStyle::Merge, 7),
                Mode::Keep(ConflictStyle::Diff3, 7),
                Mode::Keep(ConflictStyle::ZealousDiff3, 7),
                Mode::Keep(ConflictStyle::Merge, 3),
                Mode::Ours,
                Mode::Theirs,
                Mode::Union,
            ]);
            compare_with_git(&mut rep, &scratch, &c, m);
        }
        let (ha, hb) = real_hunks(&c.base, &c.ours, &c.theirs);
        check_contract(&mut rep, "ours", &c.base, &c.ours, &ha);
        check_contract(&mut rep, "theirs", &c.base, &c.theirs, &hb);
        if c.ours == c.theirs && ha != hb {
            // `same_change` assumes that the diff is a function of its two inputs
            rep.outside_domain(&format!(
                "diff contract violated by imara-diff: identical sides, different hunk lists: base={:?} side={:?} {} vs {}",
                c.base.as_bstr(), c.ours.as_bstr(), hunks_token(&ha), hunks_token(&hb)));
            rep.bucket("contract:violated");
        }
        rep.bucket(&format!("hunks:ours={} theirs={}", ha.len().min(3), hb.len().min(3)));
        // 6 option sets per triple: one of each keep style with a random marker size, and the three resolutions
        for st in [ConflictStyle::Merge, ConflictStyle::Diff3, ConflictStyle::ZealousDiff3] {
            let n = if r.chance(1, 3) { 7 } else { 1 + r.usize(20) };
            run_case(&mut rep, &c, Mode::Keep(st, n));
        }
        for m in [Mode::Ours, Mode::Theirs, Mode::Union] {
            run_case(&mut rep, &c, m);
        }
    }
    rep.finish();
}
