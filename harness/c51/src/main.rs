//! C51 — the parallel helpers of gix-features.
//!  * `InOrderIter` fed explicit arrival sequences (all permutations of small n, errors at every
//!    position, invalid sequences); observation = everything it yields (panics included).
//!  * `in_parallel_with_slice` run for real with instrumented closures (per-item atomic counters,
//!    failing items) and the `cfg(gix_verif)` event log; the log is linearised and replayed against
//!    the Lean transition system (every logged observation must be what the model observes).
//!  * `in_parallel`, `in_parallel_with_finalize`, `Stepwise`, `EagerIter`: oracle only.
use gix_features::parallel::{self, verif, InOrderIter};
use hcommon::*;
use std::collections::VecDeque;
use std::sync::atomic::{AtomicBool, AtomicIsize, AtomicUsize, Ordering};
use std::sync::{Arc, Mutex};

/// keep the report small: the first witnesses are enough
fn report_fail(rep: &mut Report, key: &str, detail: &str, op: &str) {
    if rep.failures.len() < 10 {
        rep.oracle_failure(key, detail, op);
    }
}

// ---------------------------------------------------------------------------------------------
// (a) InOrderIter
// ---------------------------------------------------------------------------------------------

#[derive(Clone, Debug)]
enum Arrival {
    Ok(usize, u32),
    Err(u32),
}

fn value_of(seq: usize) -> u32 {
    (seq as u32) * 7 + 3
}

fn do_inorder(rep: &mut Report, arrivals: &[Arrival], class: &str) {
    let op = format!(
        "inorder{}",
        arrivals
            .iter()
            .map(|a| match a {
                Arrival::Ok(s, v) => format!(" o{s}:{v}"),
                Arrival::Err(e) => format!(" e{e}"),
            })
            .collect::<String>()
    );
    let items: Vec<Result<(usize, u32), u32>> = arrivals
        .iter()
        .map(|a| match a {
            Arrival::Ok(s, v) => Ok((*s, *v)),
            Arrival::Err(e) => Err(*e),
        })
        .collect();
    // pull one by one so that what was yielded before a panic is kept
    let yielded: Arc<Mutex<Vec<String>>> = Arc::new(Mutex::new(Vec::new()));
    let y2 = yielded.clone();
    let res = catch(move || {
        let mut it = InOrderIter::from(items.into_iter());
        let mut guard = 0;
        while let Some(x) = it.next() {
            y2.lock().unwrap().push(match x {
                Ok(v) => format!("v{v}"),
                Err(e) => format!("e{e}"),
            });
            guard += 1;
            if guard > 10_000 {
                break;
            }
        }
        // a fused iterator stays ended
        assert!(it.next().is_none(), "yields again after None");
    });
    let mut outs = yielded.lock().unwrap().clone();
    if let Err(msg) = &res {
        outs.push(
            if msg.contains("never see keys again") {
                "panic:less"
            } else if msg.contains("returned only once") {
                "panic:dup"
            } else if msg.contains("should not have stored items left") {
                "panic:leftover"
            } else {
                "panic:other"
            }
            .to_string(),
        );
    }
    let obs = if outs.is_empty() { "-".to_string() } else { outs.join(",") };
    rep.case(&op, &obs, true);
    rep.bucket(&format!("inorder:{class}"));

    // oracle: a permutation of 0..n-1 comes out in sequence order; after an error nothing follows
    // and what came before is the in-order prefix
    let seqs: Vec<usize> = arrivals.iter().filter_map(|a| if let Arrival::Ok(s, _) = a { Some(*s) } else { None }).collect();
    let first_err = arrivals.iter().position(|a| matches!(a, Arrival::Err(_)));
    let before: Vec<usize> = match first_err {
        Some(p) => arrivals[..p].iter().filter_map(|a| if let Arrival::Ok(s, _) = a { Some(*s) } else { None }).collect(),
        None => seqs.clone(),
    };
    let mut sorted = before.clone();
    sorted.sort();
    sorted.dedup();
    let distinct = sorted.len() == before.len();
    if !distinct {
        rep.outside_domain(&format!("a sequence id arrives twice: {op} => {obs}"));
        return;
    }
    rep.oracle_checked();
    match first_err {
        None => {
            let is_perm = sorted.iter().enumerate().all(|(i, s)| i == *s);
            if is_perm {
                let want: Vec<String> = (0..sorted.len()).map(|s| format!("v{}", value_of(s))).collect();
                let want = if want.is_empty() { "-".to_string() } else { want.join(",") };
                // values are value_of(seq) in the generated permutations
                let values_std = arrivals.iter().all(|a| matches!(a, Arrival::Ok(s, v) if *v == value_of(*s)));
                if values_std && obs != want {
                    report_fail(
    rep,
                        &format!("inorder perm {:?}", before),
                        &format!("a permutation of 0..{} is yielded as {obs}, not in sequence order", sorted.len()),
                        &op,
                    );
                }
            }
        }
        Some(_) => {
            // longest prefix 0..j of sequence ids available before the error
            let Some(Arrival::Err(code)) = first_err.map(|p| arrivals[p].clone()) else { return };
            let vals: Vec<&String> = outs.iter().collect();
            let ok = !vals.is_empty()
                && *vals[vals.len() - 1] == format!("e{code}")
                && vals[..vals.len() - 1]
                    .iter()
                    .enumerate()
                    .all(|(i, v)| before.contains(&i) && **v == format!("v{}", arrivals.iter().find_map(|a| match a { Arrival::Ok(s, v) if *s == i => Some(*v), _ => None }).unwrap()));
            if !ok {
                report_fail(
    rep,
                    &format!("inorder err {op}"),
                    &format!("with an error in the stream the iterator yields {obs}: not an in-order prefix followed by the error and nothing else"),
                    &op,
                );
            }
        }
    }
}

fn permutations(n: usize) -> Vec<Vec<usize>> {
    fn go(cur: &mut Vec<usize>, used: &mut Vec<bool>, n: usize, out: &mut Vec<Vec<usize>>) {
        if cur.len() == n {
            out.push(cur.clone());
            return;
        }
        for i in 0..n {
            if !used[i] {
                used[i] = true;
                cur.push(i);
                go(cur, used, n, out);
                cur.pop();
                used[i] = false;
            }
        }
    }
    let mut out = Vec::new();
    go(&mut Vec::new(), &mut vec![false; n], n, &mut out);
    out
}

// ---------------------------------------------------------------------------------------------
// (b) in_parallel_with_slice
// ---------------------------------------------------------------------------------------------

#[derive(Clone, Copy, PartialEq, Eq, Debug)]
enum StopHow {
    Never,
    /// `periodic()` returns `None` at its k-th call
    Periodic(usize),
    /// the consume call for this index sets `should_interrupt`
    ByConsume(usize),
}

struct SliceRun {
    n: usize,
    threads: usize,
    result_err: bool,
    /// per item: how often it was handed to `consume`
    counts: Vec<usize>,
    /// (index, thread, ok) for every consume call
    calls: Vec<(usize, usize, bool)>,
    log: Vec<(usize, verif::Event)>,
    panicked: bool,
}

/// `release`: if set, all workers are held in `new_thread_state` until every one of them has
/// arrived (spin barrier) and then start after a per-thread seeded delay, so that they reach the
/// shared counter at the same moment, in varying orders.
/// `fail_thread = Some((t, k))`: the consume call fails in worker `t` once that worker has
/// completed `k` calls (whatever item it holds then); `sleep_us`: every call sleeps that long
/// (slow consumers: the other workers are still busy when one fails).
#[allow(clippy::too_many_arguments)]
fn run_slice(
    n: usize,
    threads: usize,
    fail: &[usize],
    stop: StopHow,
    spin: u32,
    release: Option<&[u32]>,
    fail_thread: Option<(usize, usize)>,
    sleep_us: u64,
) -> SliceRun {
    let per_thread_calls: Vec<AtomicUsize> = (0..threads.max(1)).map(|_| AtomicUsize::new(0)).collect();
    // spare capacity: should the code under test ever hand out an index past the slice, the
    // reference still points into this allocation
    let mut input: Vec<u64> = Vec::with_capacity(n + 64);
    input.extend(0..n as u64);
    let arrived = AtomicUsize::new(0);
    let base = input.as_ptr() as usize;
    let counts: Vec<AtomicUsize> = (0..n).map(|_| AtomicUsize::new(0)).collect();
    let calls: Mutex<Vec<(usize, usize, bool)>> = Mutex::new(Vec::new());
    let periodic_calls = AtomicUsize::new(0);
    let fail_set: std::collections::BTreeSet<usize> = fail.iter().copied().collect();
    verif::start();
    let res = catch(|| {
        parallel::in_parallel_with_slice(
            &mut input,
            Some(threads),
            |thread_id| {
                if let Some(delays) = release {
                    arrived.fetch_add(1, Ordering::SeqCst);
                    let mut spins = 0u64;
                    while arrived.load(Ordering::SeqCst) < threads {
                        std::hint::spin_loop();
                        spins += 1;
                        if spins % 64 == 0 {
                            std::thread::yield_now();
                        }
                    }
                    for _ in 0..delays.get(thread_id).copied().unwrap_or(0) {
                        std::hint::spin_loop();
                    }
                }
                thread_id
            },
            |item: &mut u64, thread_id: &mut usize, _threads_left: &AtomicIsize, should_interrupt: &AtomicBool| -> Result<(), u32> {
                let index = (item as *const u64 as usize).wrapping_sub(base) / std::mem::size_of::<u64>();
                if index < counts.len() {
                    counts[index].fetch_add(1, Ordering::SeqCst);
                }
                for _ in 0..spin {
                    std::hint::spin_loop();
                }
                if sleep_us > 0 {
                    std::thread::sleep(std::time::Duration::from_micros(sleep_us));
                }
                let done_before = per_thread_calls.get(*thread_id).map_or(0, |c| c.fetch_add(1, Ordering::SeqCst));
                let ok = !fail_set.contains(&index) && fail_thread != Some((*thread_id, done_before));
                calls.lock().unwrap().push((index, *thread_id, ok));
                if stop == StopHow::ByConsume(index) {
                    should_interrupt.store(true, Ordering::SeqCst);
                }
                if ok {
                    Ok(())
                } else {
                    Err(index as u32)
                }
            },
            || {
                let k = periodic_calls.fetch_add(1, Ordering::SeqCst);
                match stop {
                    StopHow::Periodic(at) if k >= at => None,
                    _ => Some(std::time::Duration::from_micros(50)),
                }
            },
            |thread_id| thread_id,
        )
    });
    let log = verif::take();
    let (result_err, panicked) = match &res {
        Ok(Ok(_)) => (false, false),
        Ok(Err(_)) => (true, false),
        Err(_) => (false, true),
    };
    SliceRun {
        n,
        threads,
        result_err,
        counts: counts.iter().map(|c| c.load(Ordering::SeqCst)).collect(),
        calls: calls.into_inner().unwrap(),
        log,
        panicked,
    }
}

/// Order the logged events (each logged right AFTER its atomic action, so neighbours may be
/// swapped) into a sequence in which every observation is consistent, keeping each thread's own
/// order: index claims in index order, loads of `false` before the store that they preceded.
/// Returns the event tokens for the Lean replay; `Err` with the raw order if no order was found.
fn linearize(run: &SliceRun) -> Result<Vec<String>, Vec<String>> {
    use verif::Event as E;
    let mut queues: Vec<VecDeque<E>> = vec![VecDeque::new(); run.threads];
    for (t, e) in &run.log {
        if *t < run.threads {
            queues[*t].push_back(*e);
        }
    }
    let mut last: Vec<Option<E>> = vec![None; run.threads];
    let mut idx = 0usize;
    let mut stop = false;
    let mut out: Vec<String> = Vec::new();
    let token = |t: usize, e: &E, last: &Option<E>| -> Option<String> {
        Some(match e {
            E::Claimed(i) => format!("F{t}:{i}"),
            E::SawStop => format!("L{t}:1"),
            E::NoStop => format!("L{t}:0"),
            E::ConsumedOk(i) => format!("K{t}:{i}"),
            E::ConsumedErr(i) => format!("R{t}:{i}"),
            E::StoredStop => format!("S{t}"),
            E::LoopEnd => {
                if matches!(last, Some(E::SawStop)) {
                    return None; // the `break` itself: no atomic action
                }
                format!("X{t}")
            }
        })
    };
    loop {
        let mut progressed = false;
        for t in 0..run.threads {
            while let Some(e) = queues[t].front().copied() {
                let applicable = match e {
                    E::Claimed(i) => idx == i && idx < run.n,
                    E::NoStop => !stop,
                    E::SawStop => stop,
                    E::ConsumedOk(_) | E::ConsumedErr(_) => true,
                    E::StoredStop => false, // as late as possible, see below
                    E::LoopEnd => matches!(last[t], Some(E::SawStop)) || idx >= run.n,
                };
                if !applicable {
                    break;
                }
                if let E::Claimed(_) = e {
                    idx += 1;
                }
                if let Some(tok) = token(t, &e, &last[t]) {
                    out.push(tok);
                }
                last[t] = Some(e);
                queues[t].pop_front();
                progressed = true;
            }
        }
        if progressed {
            continue;
        }
        if queues.iter().all(|q| q.is_empty()) {
            return Ok(out);
        }
        // nothing can move: a store happens now, or somebody else set the flag
        if let Some(t) = (0..run.threads).find(|t| matches!(queues[*t].front(), Some(E::StoredStop))) {
            out.push(format!("S{t}"));
            last[t] = Some(E::StoredStop);
            queues[t].pop_front();
            stop = true;
            continue;
        }
        if !stop && queues.iter().any(|q| matches!(q.front(), Some(E::SawStop))) {
            out.push("E".to_string());
            stop = true;
            continue;
        }
        // no consistent order: hand the raw log to the model, which will reject it
        let mut raw = Vec::new();
        let mut last: Vec<Option<E>> = vec![None; run.threads];
        for (t, e) in &run.log {
            if *t < run.threads {
                if let Some(tok) = token(*t, e, &last[*t]) {
                    raw.push(tok);
                }
                last[*t] = Some(*e);
            }
        }
        return Err(raw);
    }
}

fn do_slice(rep: &mut Report, n: usize, threads: usize, fail: &[usize], stop: StopHow, spin: u32, with_model: bool) {
    do_slice_released(rep, n, threads, fail, stop, spin, with_model, None)
}

#[allow(clippy::too_many_arguments)]
fn do_slice_released(
    rep: &mut Report,
    n: usize,
    threads: usize,
    fail: &[usize],
    stop: StopHow,
    spin: u32,
    with_model: bool,
    release: Option<&[u32]>,
) {
    let run = run_slice(n, threads, fail, stop, spin, release, None, 0);
    if release.is_some() {
        rep.bucket("slice:workers-released-together");
    }
    let desc = format!(
        "slice n={n} threads={threads} fail={:?} stop={:?}",
        fail, stop
    );
    rep.bucket(&format!(
        "slice:{}{}",
        if fail.is_empty() { "no-failure" } else { "failing-items" },
        match stop {
            StopHow::Never => "",
            _ => "+external-stop",
        }
    ));
    rep.bucket(match threads {
        1 => "slice:threads=1",
        2..=4 => "slice:threads=2..4",
        _ => "slice:threads=5..16",
    });
    // ---- oracle: the property on the real run ---------------------------------------------------
    rep.oracle_checked();
    let key = format!("slice n={n} threads={threads} fail={:?} stop={:?}", fail, stop);
    let mut problem: Option<String> = None;
    if run.panicked {
        problem = Some("panicked".into());
    }
    if let Some((i, _, _)) = run.calls.iter().find(|c| c.0 >= n) {
        problem = Some(format!("consume was handed an item outside the slice (index {i} of {n})"));
    }
    if let Some(i) = run.log.iter().find_map(|(_, e)| match e {
        verif::Event::Claimed(i) if *i >= n => Some(*i),
        _ => None,
    }) {
        problem = Some(format!("a worker claimed index {i} of a slice of {n} items"));
    }
    if let Some(i) = run.counts.iter().position(|c| *c > 1) {
        problem = Some(format!("item {i} was consumed {} times", run.counts[i]));
    }
    let any_failed_call = run.calls.iter().any(|c| !c.2);
    if any_failed_call != run.result_err {
        problem = Some(format!(
            "a consume call failed: {any_failed_call}, but the result is {}",
            if run.result_err { "Err" } else { "Ok" }
        ));
    }
    if fail.is_empty() && stop == StopHow::Never {
        if let Some(i) = run.counts.iter().position(|c| *c != 1) {
            problem = Some(format!("nothing failed, yet item {i} was consumed {} times", run.counts[i]));
        }
    }
    // early stop, from the event log: after a thread logged `StoredStop`, every other thread logs
    // at most one more consume (log order = real order up to adjacent swaps, hence the slack of 1)
    if let Some(pos) = run.log.iter().position(|(_, e)| matches!(e, verif::Event::StoredStop)) {
        let mut after = vec![0usize; threads];
        for (t, e) in &run.log[pos + 1..] {
            if matches!(e, verif::Event::ConsumedOk(_) | verif::Event::ConsumedErr(_)) && *t < threads {
                after[*t] += 1;
            }
        }
        if let Some(t) = after.iter().position(|c| *c > 2) {
            problem = Some(format!("thread {t} consumed {} more items after the stop flag was stored", after[t]));
        }
        rep.bucket("slice:early-stop-checked");
    }
    if let Some(p) = problem {
        // the replay line names the instance (size, threads, failing items); schedules cannot be forced
        let op = format!("slice {n} {threads}{}", fail.iter().map(|f| format!(" R0:{f}")).collect::<String>());
        report_fail(rep, &key, &p, &op);
    }
    // ---- correspondence: replay the linearised log on the Lean transition system -----------------
    if with_model {
        let (tokens, linearized) = match linearize(&run) {
            Ok(t) => (t, true),
            Err(raw) => (raw, false),
        };
        if !linearized {
            rep.note(&format!("no consistent order of the event log found for {desc}"));
        }
        let op = format!("slice {n} {threads}{}", tokens.iter().map(|t| format!(" {t}")).collect::<String>());
        let mut cs: Vec<(usize, usize, bool)> = run.calls.clone();
        cs.sort();
        let shown: Vec<String> = cs.iter().map(|(i, t, ok)| format!("{i}:{t}:{}", *ok as u8)).collect();
        let obs = format!(
            "accepted consumed={} result={} done=1",
            if shown.is_empty() { "-".to_string() } else { shown.join(",") },
            if run.panicked { "panic" } else if run.result_err { "err" } else { "ok" }
        );
        rep.case(&op, &obs, true);
    } else {
        rep.oracle_only(&desc, true);
    }
}

/// most consume calls any OTHER worker completes after the first failed call was logged
fn max_after_failure(run: &SliceRun) -> Option<(usize, usize, usize)> {
    let pos = run.log.iter().position(|(_, e)| matches!(e, verif::Event::ConsumedErr(_)))?;
    let failing = run.log[pos].0;
    let mut after = vec![0usize; run.threads];
    for (t, e) in &run.log[pos + 1..] {
        if *t != failing && *t < run.threads && matches!(e, verif::Event::ConsumedOk(_) | verif::Event::ConsumedErr(_)) {
            after[*t] += 1;
        }
    }
    let (t, m) = after.iter().enumerate().max_by_key(|(_, c)| **c).map(|(t, c)| (t, *c))?;
    Some((failing, t, m))
}

/// Early stop on the real code: `consume` fails in worker `fail_thread` (every thread position is
/// tried) while all workers are slow, so the others are busy when it happens. The theorem
/// `early_stop` allows every other worker ONE more call — the item it already holds; the log is
/// written right after each action, so one more is tolerated for a worker that read the flag just
/// before it was stored, and `SLACK` more for a failing worker that is descheduled between its
/// failed call and its store. A run over the bound is repeated; only a bound exceeded three times
/// in a row is reported (a worker that keeps consuming does so every time).
fn do_slice_failing_thread(rep: &mut Report, n: usize, threads: usize, fail_thread: usize, after_calls: usize, sleep_us: u64) {
    const SLACK: usize = 6;
    let desc = format!("slice n={n} threads={threads} consume fails in thread {fail_thread} at its call #{after_calls} (slow consumers {sleep_us}us)");
    let key = format!("slice-early-stop n={n} threads={threads} failing-thread={fail_thread} at-call={after_calls}");
    rep.bucket("slice:failure-in-chosen-thread");
    let mut worst: Option<String> = None;
    for attempt in 0..3 {
        let run = run_slice(n, threads, &[], StopHow::Never, 0, None, Some((fail_thread, after_calls)), sleep_us);
        rep.oracle_checked();
        let failed_call = run.calls.iter().any(|c| !c.2);
        let mut problem: Option<String> = None;
        if run.panicked {
            problem = Some("panicked".into());
        } else if failed_call != run.result_err {
            problem = Some(format!("a consume call failed: {failed_call}, result is {}", if run.result_err { "Err" } else { "Ok" }));
        } else if let Some(i) = run.counts.iter().position(|c| *c > 1) {
            problem = Some(format!("item {i} consumed {} times", run.counts[i]));
        }
        let mut over = false;
        if let Some((failing, t, m)) = max_after_failure(&run) {
            rep.bucket("slice:early-stop-bound-checked");
            if m > 2 + SLACK {
                over = true;
                let total: usize = run.counts.iter().sum();
                worst = Some(format!(
                    "consume failed in thread {failing}, yet thread {t} completed {m} more calls afterwards ({total} of {n} items consumed in total): no early stop (bound: the one item it holds, +1 for a flag read just before the store)"
                ));
            }
        } else if failed_call {
            problem = Some("a consume call failed but the event log has no ConsumedErr".into());
        }
        // correspondence for the first attempt: the linearised log must be a run of the Lean system
        if attempt == 0 {
            let (tokens, _) = match linearize(&run) {
                Ok(t) => (t, true),
                Err(raw) => (raw, false),
            };
            let op = format!("slice {n} {threads}{}", tokens.iter().map(|t| format!(" {t}")).collect::<String>());
            let mut cs = run.calls.clone();
            cs.sort();
            let shown: Vec<String> = cs.iter().map(|(i, t, ok)| format!("{i}:{t}:{}", *ok as u8)).collect();
            let obs = format!(
                "accepted consumed={} result={} done=1",
                if shown.is_empty() { "-".to_string() } else { shown.join(",") },
                if run.panicked { "panic" } else if run.result_err { "err" } else { "ok" }
            );
            rep.case(&op, &obs, true);
        }
        if let Some(p) = problem {
            report_fail(rep, &key, &p, &format!("slice {n} {threads} W{fail_thread}:{after_calls}:{sleep_us}"));
            return;
        }
        if !over {
            return;
        }
    }
    if let Some(w) = worst {
        report_fail(rep, &key, &format!("{desc}: {w}"), &format!("slice {n} {threads} W{fail_thread}:{after_calls}:{sleep_us}"));
    }
}

// ---------------------------------------------------------------------------------------------
// (c) channel based helpers: oracle only
// ---------------------------------------------------------------------------------------------

struct CountingReducer {
    fed: Vec<usize>,
    fail_at: Option<usize>,
}

impl parallel::Reduce for CountingReducer {
    type Input = usize;
    type FeedProduce = usize;
    type Output = Vec<usize>;
    type Error = String;
    fn feed(&mut self, item: usize) -> Result<usize, String> {
        if self.fail_at == Some(self.fed.len()) {
            return Err("reducer".into());
        }
        self.fed.push(item);
        Ok(item)
    }
    fn finalize(self) -> Result<Vec<usize>, String> {
        Ok(self.fed)
    }
}

fn do_in_parallel(rep: &mut Report, n: usize, threads: usize, fail_at: Option<usize>, with_finalize: bool) {
    let desc = format!("in_parallel n={n} threads={threads} reducer_fails_at={fail_at:?} finalize={with_finalize}");
    rep.oracle_only(&desc, true);
    rep.oracle_checked();
    rep.bucket(if fail_at.is_some() { "in_parallel:reducer-fails" } else { "in_parallel:all-ok" });
    let counts: Arc<Vec<AtomicUsize>> = Arc::new((0..n).map(|_| AtomicUsize::new(0)).collect());
    let finalized = Arc::new(AtomicUsize::new(0));
    let c2 = counts.clone();
    let f2 = finalized.clone();
    let d2 = desc.clone();
    let res = with_deadline(std::time::Duration::from_secs(20), move || {
        let consume = {
            let c = c2.clone();
            move |item: usize, _state: &mut usize| {
                c[item].fetch_add(1, Ordering::SeqCst);
                item
            }
        };
        let reducer = CountingReducer { fed: Vec::new(), fail_at };
        if with_finalize {
            // every thread adds one extra output (n + thread_id) when it finalizes
            parallel::in_parallel_with_finalize(
                0..n,
                Some(threads),
                |t| t,
                consume,
                {
                    let f = f2.clone();
                    move |t: usize| {
                        f.fetch_add(1, Ordering::SeqCst);
                        usize::MAX - t
                    }
                },
                reducer,
            )
        } else {
            parallel::in_parallel(0..n, Some(threads), |t| t, consume, reducer)
        }
    });
    let key = d2;
    match res {
        None => report_fail(rep, &key, "did not terminate within 20 s", &format!("# {desc}")),
        Some(Err(_)) => report_fail(rep, &key, "panicked", &format!("# {desc}")),
        Some(Ok(r)) => {
            let cs: Vec<usize> = counts.iter().map(|c| c.load(Ordering::SeqCst)).collect();
            let mut problem = None;
            if let Some(i) = cs.iter().position(|c| *c > 1) {
                problem = Some(format!("item {i} consumed {} times", cs[i]));
            }
            match (&r, fail_at) {
                (Ok(fed), None) => {
                    if let Some(i) = cs.iter().position(|c| *c != 1) {
                        problem = Some(format!("item {i} consumed {} times", cs[i]));
                    }
                    let mut got: Vec<usize> = fed.iter().copied().filter(|x| *x < n).collect();
                    got.sort();
                    if got != (0..n).collect::<Vec<_>>() {
                        problem = Some(format!("the reducer was fed {:?}, not every result once", got));
                    }
                    if with_finalize {
                        let extra = fed.iter().filter(|x| **x >= n).count();
                        if extra != threads || finalized.load(Ordering::SeqCst) != threads {
                            problem = Some(format!("finalize ran {} times and fed {extra} results for {threads} threads", finalized.load(Ordering::SeqCst)));
                        }
                    }
                }
                (Ok(fed), Some(k)) => {
                    // the reducer never reached its failing feed: fewer than k+1 results exist
                    let total = n + if with_finalize { threads } else { 0 };
                    if total > k {
                        problem = Some(format!("the reducer fails at feed #{k} of {total}, yet the result is Ok({} fed)", fed.len()));
                    }
                }
                (Err(_), None) => problem = Some("Err without a failing reducer".into()),
                (Err(_), Some(k)) => {
                    // early stop: at most k fed + what the bounded channels and the workers hold
                    let consumed: usize = cs.iter().sum();
                    let bound = k + 3 * threads + 1;
                    if consumed > bound && n > bound {
                        problem = Some(format!("the reducer failed at feed #{k} but {consumed} items were consumed (bound {bound})"));
                    }
                }
            }
            if let Some(p) = problem {
                report_fail(rep, &key, &p, &format!("# {desc}"));
            }
        }
    }
}

/// the bounded channels really bound the work in flight: with a slow reducer (resp. slow workers)
/// never more than `2*threads + 1` results are consumed-but-not-fed (result channel of capacity
/// `threads` + one result per worker + the one being fed), and never more than `2*threads + 1`
/// items are pulled from the input but not yet handed to `consume`.
struct SlowReducer {
    fed: Vec<usize>,
    fail_at: Option<usize>,
    sleep_us: u64,
    consumed: Arc<AtomicUsize>,
    max_backlog: Arc<AtomicUsize>,
}

impl parallel::Reduce for SlowReducer {
    type Input = usize;
    type FeedProduce = usize;
    type Output = Vec<usize>;
    type Error = String;
    fn feed(&mut self, item: usize) -> Result<usize, String> {
        // `fed` only changes in this thread: the difference is exact at this instant
        let backlog = self.consumed.load(Ordering::SeqCst) - self.fed.len();
        self.max_backlog.fetch_max(backlog, Ordering::SeqCst);
        if self.sleep_us > 0 {
            std::thread::sleep(std::time::Duration::from_micros(self.sleep_us));
        }
        if self.fail_at == Some(self.fed.len()) {
            return Err("reducer".into());
        }
        self.fed.push(item);
        Ok(item)
    }
    fn finalize(self) -> Result<Vec<usize>, String> {
        Ok(self.fed)
    }
}

fn do_in_parallel_bounded(rep: &mut Report, n: usize, threads: usize, reducer_us: u64, worker_us: u64, fail_at: Option<usize>) {
    let desc = format!("in_parallel-bounded n={n} threads={threads} reducer_us={reducer_us} worker_us={worker_us} reducer_fails_at={fail_at:?}");
    rep.oracle_only(&desc, true);
    rep.oracle_checked();
    rep.bucket("in_parallel:bounded-channels");
    let consumed = Arc::new(AtomicUsize::new(0));
    let pulled = Arc::new(AtomicUsize::new(0));
    let max_backlog = Arc::new(AtomicUsize::new(0));
    let max_ahead = Arc::new(AtomicUsize::new(0));
    let counts: Arc<Vec<AtomicUsize>> = Arc::new((0..n).map(|_| AtomicUsize::new(0)).collect());
    let (c2, p2, mb2, ma2, counts2) = (consumed.clone(), pulled.clone(), max_backlog.clone(), max_ahead.clone(), counts.clone());
    let res = with_deadline(std::time::Duration::from_secs(30), move || {
        let input = {
            let (p, c, ma) = (p2.clone(), c2.clone(), ma2.clone());
            (0..n).map(move |i| {
                // `pulled` only changes in this (the feeder) thread: exact at this instant
                let ahead = p.load(Ordering::SeqCst) - c.load(Ordering::SeqCst).min(p.load(Ordering::SeqCst));
                ma.fetch_max(ahead, Ordering::SeqCst);
                p.fetch_add(1, Ordering::SeqCst);
                i
            })
        };
        let consume = {
            let (c, counts) = (c2.clone(), counts2.clone());
            move |item: usize, _s: &mut usize| {
                c.fetch_add(1, Ordering::SeqCst);
                counts[item].fetch_add(1, Ordering::SeqCst);
                if worker_us > 0 {
                    std::thread::sleep(std::time::Duration::from_micros(worker_us));
                }
                item
            }
        };
        parallel::in_parallel(
            input,
            Some(threads),
            |t| t,
            consume,
            SlowReducer { fed: Vec::new(), fail_at, sleep_us: reducer_us, consumed: c2.clone(), max_backlog: mb2.clone() },
        )
    });
    let bound = 2 * threads + 1;
    let key = desc.clone();
    match res {
        None => report_fail(rep, &key, "did not terminate within 30 s", &format!("# {desc}")),
        Some(Err(_)) => report_fail(rep, &key, "panicked", &format!("# {desc}")),
        Some(Ok(r)) => {
            let backlog = max_backlog.load(Ordering::SeqCst);
            let ahead = max_ahead.load(Ordering::SeqCst);
            let total: usize = consumed.load(Ordering::SeqCst);
            if backlog >= threads + 1 {
                rep.bucket("in_parallel:result-channel-seen-full");
            }
            if ahead >= threads + 1 {
                rep.bucket("in_parallel:input-channel-seen-full");
            }
            let mut problem = None;
            if backlog > bound {
                problem = Some(format!("{backlog} results were consumed but not yet fed at one moment (bound {bound}): the result channel does not bound the work in flight"));
            } else if ahead > bound {
                problem = Some(format!("{ahead} items were pulled from the input but not yet consumed at one moment (bound {bound}): the input channel does not bound the work in flight"));
            } else if let Some(i) = counts.iter().position(|c| c.load(Ordering::SeqCst) > 1) {
                problem = Some(format!("item {i} consumed more than once"));
            }
            match (&r, fail_at) {
                (Ok(fed), None) => {
                    let mut got = fed.clone();
                    got.sort();
                    if got != (0..n).collect::<Vec<_>>() {
                        problem = Some("the reducer was not fed every result exactly once".into());
                    }
                }
                (Ok(_), Some(k)) if k < n => problem = Some("the reducer failed but the result is Ok".into()),
                (Err(_), Some(k)) => {
                    // k fed + the one that failed + what channels and workers hold + one more per worker
                    let b = k + 1 + 3 * threads + 1;
                    if total > b {
                        problem = Some(format!("the reducer failed at feed #{k} but {total} items were consumed (bound {b})"));
                    }
                }
                (Err(_), None) => problem = Some("Err without a failing reducer".into()),
                _ => {}
            }
            if let Some(p) = problem {
                report_fail(rep, &key, &p, &format!("# {desc}"));
            }
        }
    }
}

struct LiveGuard(Arc<AtomicIsize>);
impl Drop for LiveGuard {
    fn drop(&mut self) {
        self.0.fetch_sub(1, Ordering::SeqCst);
    }
}

/// `Stepwise`: take a few results, drop it, all its threads must be gone when `drop` returns.
/// Returns `false` if the drop hung (the hung threads stay around: the caller stops this family).
fn do_stepwise_drop(rep: &mut Report, n: usize, threads: usize, take: usize) -> bool {
    let desc = format!("stepwise-drop n={n} threads={threads} take={take}");
    let consumed = Arc::new(AtomicUsize::new(0));
    let consumed2 = consumed.clone();
    rep.oracle_only(&desc, true);
    rep.oracle_checked();
    rep.bucket("stepwise:drop");
    let live = Arc::new(AtomicIsize::new(0));
    let l2 = live.clone();
    let res = with_deadline(std::time::Duration::from_secs(8), move || {
        let l3 = l2.clone();
        let mut it = parallel::reduce::Stepwise::new(
            0..n,
            Some(threads),
            move |_t| {
                l3.fetch_add(1, Ordering::SeqCst);
                LiveGuard(l3.clone())
            },
            move |item: usize, _s: &mut LiveGuard| {
                consumed2.fetch_add(1, Ordering::SeqCst);
                item
            },
            CountingReducer { fed: Vec::new(), fail_at: None },
        );
        let mut got = Vec::new();
        for _ in 0..take {
            match it.next() {
                Some(Ok(x)) => got.push(x),
                _ => break,
            }
        }
        drop(it);
        (got, l2.load(Ordering::SeqCst))
    });
    match res {
        None => {
            let c = consumed.load(Ordering::SeqCst);
            report_fail(
                rep,
                &format!("stepwise-drop-hangs n={n} threads={threads} take={take}"),
                &format!("dropping the step-wise run after {take} of {n} results did not return within 8 s: its threads are not terminated (consumed={c}, worker states alive={})", live.load(Ordering::SeqCst)),
                &format!("stepwise {n} {threads} {take}"),
            );
            return false;
        }
        Some(Err(_)) => report_fail(rep, &desc, "panicked", &format!("stepwise {n} {threads} {take}")),
        Some(Ok((got, live_after))) => {
            let mut g = got.clone();
            g.sort();
            g.dedup();
            if g.len() != got.len() || got.iter().any(|x| *x >= n) {
                report_fail(rep, &desc, &format!("results {got:?} are not distinct items"), &format!("# {desc}"));
            } else if got.len() != take.min(n) {
                report_fail(rep, &desc, &format!("only {} of {} results arrived", got.len(), take.min(n)), &format!("# {desc}"));
            } else if live_after != 0 {
                report_fail(rep, &desc, &format!("{live_after} worker threads still alive after drop"), &format!("stepwise {n} {threads} {take}"));
            } else if consumed.load(Ordering::SeqCst) > take + 3 * threads + 1 {
                // taken + result channel + one result per worker + one more item per worker after the drop
                report_fail(
                    rep,
                    &desc,
                    &format!("{} items were consumed although only {take} results were taken before the drop (bound {})", consumed.load(Ordering::SeqCst), take + 3 * threads + 1),
                    &format!("stepwise {n} {threads} {take}"),
                );
            }
        }
    }
    true
}

fn do_eager(rep: &mut Report, n: usize, chunk: usize, in_flight: usize) {
    let desc = format!("eager n={n} chunk={chunk} in_flight={in_flight}");
    rep.oracle_only(&desc, true);
    rep.oracle_checked();
    rep.bucket("eager_iter");
    let res = with_deadline(std::time::Duration::from_secs(60), move || {
        parallel::EagerIter::new(0..n, chunk, in_flight).collect::<Vec<_>>()
    });
    match res {
        Some(Ok(v)) if v == (0..n).collect::<Vec<_>>() => {}
        other => report_fail(rep, &desc, &format!("EagerIter yields {:?}", other.map(|r| r.map(|v| v.len()))), &format!("# {desc}")),
    }
}

fn main() {
    let args = Args::parse();
    let mut rep = Report::new("C51", &args);
    let mut r = Rng::new(args.seed);
    if let Some(ops) = replay_ops(&args) {
        for op in ops {
            let a: Vec<&str> = op.split(' ').collect();
            match a[0] {
                "inorder" => {
                    let arr: Vec<Arrival> = a[1..]
                        .iter()
                        .filter_map(|t| {
                            if let Some(r) = t.strip_prefix('o') {
                                let (s, v) = r.split_once(':')?;
                                Some(Arrival::Ok(s.parse().ok()?, v.parse().ok()?))
                            } else {
                                t.strip_prefix('e').and_then(|e| e.parse().ok()).map(Arrival::Err)
                            }
                        })
                        .collect();
                    do_inorder(&mut rep, &arr, "replay");
                }
                "slice" if a.len() >= 3 => {
                    // a schedule cannot be forced on the OS: run the same instance a few times
                    let n: usize = a[1].parse().unwrap_or(0);
                    let t: usize = a[2].parse().unwrap_or(1);
                    let fail: Vec<usize> = a[3..].iter().filter_map(|x| x.strip_prefix('R')).filter_map(|x| x.split_once(':')).filter_map(|x| x.1.parse().ok()).collect();
                    if let Some(w) = a[3..].iter().find_map(|x| x.strip_prefix('W')) {
                        let p: Vec<usize> = w.split(':').filter_map(|x| x.parse().ok()).collect();
                        if p.len() == 3 {
                            do_slice_failing_thread(&mut rep, n, t.max(2), p[0], p[1], p[2] as u64);
                        }
                        continue;
                    }
                    for i in 0..400u32 {
                        let delays: Vec<u32> = (0..t.max(1)).map(|_| r.below(1 + (i as u64 % 7) * 40) as u32).collect();
                        do_slice_released(&mut rep, n, t.max(1), &fail, StopHow::Never, 0, n <= 300, Some(&delays));
                    }
                }
                "stepwise" if a.len() == 4 => {
                    let p: Vec<usize> = a[1..].iter().filter_map(|x| x.parse().ok()).collect();
                    if p.len() == 3 {
                        do_stepwise_drop(&mut rep, p[0], p[1].max(1), p[2]);
                    }
                }
                _ => rep.note(&format!("replay: {op} is re-generated by seed only")),
            }
        }
        rep.finish();
        return;
    }

    // ---- (a) InOrderIter ------------------------------------------------------------------------
    let max_n = if args.thorough { 7 } else { 6 };
    for n in 0..=max_n {
        for p in permutations(n) {
            let arr: Vec<Arrival> = p.iter().map(|s| Arrival::Ok(*s, value_of(*s))).collect();
            do_inorder(&mut rep, &arr, "permutation");
            if n <= 4 {
                for pos in 0..=n {
                    let mut a = arr.clone();
                    a.insert(pos, Arrival::Err(900 + pos as u32));
                    do_inorder(&mut rep, &a, "permutation+error");
                }
            }
        }
    }
    for _ in 0..args.budget(1500, 40_000) {
        let n = 1 + r.usize(12);
        let mut seqs: Vec<usize> = (0..n).collect();
        r.shuffle(&mut seqs);
        let mut arr: Vec<Arrival> = seqs.iter().map(|s| Arrival::Ok(*s, r.below(1000) as u32)).collect();
        let class = match r.below(8) {
            0 => {
                // a gap: one sequence id never arrives
                let k = r.usize(arr.len());
                arr.remove(k);
                "gap"
            }
            1 => {
                let k = r.usize(arr.len());
                let d = arr[r.usize(arr.len())].clone();
                arr.insert(k, d);
                "duplicate"
            }
            2 | 3 => {
                let k = r.usize(arr.len() + 1);
                arr.insert(k, Arrival::Err(r.below(100) as u32));
                if r.chance(1, 3) {
                    let k = r.usize(arr.len() + 1);
                    arr.insert(k, Arrival::Err(100 + r.below(100) as u32));
                }
                "random+error"
            }
            _ => "random-permutation",
        };
        do_inorder(&mut rep, &arr, class);
    }

    // ---- (b) in_parallel_with_slice -------------------------------------------------------------
    // exhaustive small instances: sizes 0..4, thread limits 1..16, no failure and each single failing position
    let reps = if args.thorough { 6 } else { 1 };
    for _ in 0..reps {
        for n in 0..=4usize {
            for threads in 1..=16usize {
                do_slice(&mut rep, n, threads, &[], StopHow::Never, 0, true);
                for f in 0..n {
                    do_slice(&mut rep, n, threads, &[f], StopHow::Never, 0, true);
                }
            }
        }
    }
    // early stop for a failure in every thread position, slow consumers
    for threads in 2..=if args.thorough { 8usize } else { 6 } {
        for fail_thread in 0..threads {
            let n = 150;
            do_slice_failing_thread(&mut rep, n, threads, fail_thread, r.usize(2), 400);
        }
    }
    for _ in 0..args.budget(6, 200) {
        let threads = 2 + r.usize(7);
        do_slice_failing_thread(&mut rep, 60 + r.usize(200), threads, r.usize(threads), r.usize(4), 200 + r.below(600));
    }
    // many tiny rounds with all workers released at the same moment in seeded orders: a claim of
    // an index that is not ONE atomic read-modify-write (check-then-act) shows up here as an
    // index >= len, and its event log is rejected by the Lean replay
    for round in 0..args.budget(1_500, 40_000) {
        let n = 1 + (round % 2) as usize;
        let threads = 3 + r.usize(4);
        let spread = *r.pick(&[0u64, 0, 10, 60, 300]);
        let delays: Vec<u32> = (0..threads).map(|_| r.below(spread + 1) as u32).collect();
        let fail: Vec<usize> = if r.chance(1, 10) { vec![r.usize(n)] } else { vec![] };
        do_slice_released(&mut rep, n, threads, &fail, StopHow::Never, 0, true, Some(&delays));
    }
    // random instances with the model in the loop (event log replayed)
    for _ in 0..args.budget(500, 12_000) {
        let n = match r.below(4) {
            0 => r.usize(8),
            1 => r.usize(40),
            _ => r.usize(300),
        };
        let threads = 1 + r.usize(16);
        let mut fail = Vec::new();
        if n > 0 && r.chance(1, 2) {
            for _ in 0..1 + r.usize(3) {
                fail.push(r.usize(n));
            }
            fail.sort();
            fail.dedup();
        }
        let stop = match r.below(8) {
            0 => StopHow::Periodic(r.usize(3)),
            1 if n > 0 => StopHow::ByConsume(r.usize(n)),
            _ => StopHow::Never,
        };
        let spin = *r.pick(&[0u32, 0, 50, 2000]);
        do_slice(&mut rep, n, threads, &fail, stop, spin, true);
    }
    // larger instances: counters only
    for _ in 0..args.budget(60, 1_500) {
        let n = 1000 + r.usize(9_001);
        let threads = 1 + r.usize(16);
        let fail: Vec<usize> = if r.chance(1, 2) { vec![r.usize(n)] } else { vec![] };
        do_slice(&mut rep, n, threads, &fail, StopHow::Never, 0, false);
    }

    // ---- (c) channel based helpers, Stepwise, EagerIter: oracle only ------------------------------
    for n in 0..=4usize {
        for threads in [1usize, 2, 3, 16] {
            do_in_parallel(&mut rep, n, threads, None, false);
            do_in_parallel(&mut rep, n, threads, None, true);
            for k in 0..=n {
                do_in_parallel(&mut rep, n, threads, Some(k), false);
            }
        }
    }
    for _ in 0..args.budget(120, 3_000) {
        let n = if r.chance(1, 4) { 1000 + r.usize(9_000) } else { r.usize(200) };
        let threads = 1 + r.usize(16);
        let fail_at = if r.chance(1, 2) { Some(r.usize(n + 1)) } else { None };
        do_in_parallel(&mut rep, n, threads, fail_at, r.chance(1, 3));
    }
    // bounded channels: slow reducer / slow workers, reducer failing at every position of a small run
    for threads in [1usize, 2, 4, 7] {
        do_in_parallel_bounded(&mut rep, 120, threads, 150, 0, None);
        do_in_parallel_bounded(&mut rep, 120, threads, 0, 150, None);
    }
    for k in 0..=if args.thorough { 40usize } else { 16 } {
        do_in_parallel_bounded(&mut rep, 60, 1 + k % 4, 50, 0, Some(k));
    }
    for _ in 0..args.budget(10, 400) {
        let threads = 1 + r.usize(8);
        let n = 50 + r.usize(400);
        let fail_at = if r.chance(1, 2) { Some(r.usize(n)) } else { None };
        do_in_parallel_bounded(&mut rep, n, threads, r.below(120), r.below(120), fail_at);
    }
    // dropping before exhaustion with far more items outstanding than the channels hold
    let mut stepwise_ok = true;
    for (n, threads, take) in [(100usize, 1usize, 0usize), (100, 2, 1), (64, 4, 3), (1000, 3, 10), (50, 8, 0), (5, 2, 5), (0, 2, 0)] {
        stepwise_ok = stepwise_ok && do_stepwise_drop(&mut rep, n, threads, take);
    }
    // early drop at EVERY position of a small run
    for threads in [1usize, 2, 4] {
        for take in 0..=if args.thorough { 40usize } else { 24 } {
            if stepwise_ok {
                stepwise_ok = do_stepwise_drop(&mut rep, 40, threads, take);
            }
        }
    }
    for _ in 0..args.budget(40, 1_000) {
        let n = r.usize(2_000);
        let threads = 1 + r.usize(8);
        let take = if r.chance(1, 2) { r.usize(n / 4 + 1) } else { r.usize(n + 2) };
        if stepwise_ok {
            stepwise_ok = do_stepwise_drop(&mut rep, n, threads, take);
        }
        do_eager(&mut rep, r.usize(500), 1 + r.usize(20), r.usize(4));
    }
    rep.finish();
}
