//! C08 — objects read from packs are exact, whatever caches are used.
//!
//! Correspondence ops (same line to the Lean driver `drv_C08`):
//!   cache <spec> <op>...     a put/get sequence against the REAL cache type. `<spec>`: `never` | `static:<SIZE>:<memlimit>`
//!                            (SIZE ∈ {0,1,2,64}) | `mem:<cap>:0` (lru::MemoryCappedHashmap) | `mem:<cap>:52`
//!                            (object::MemoryCappedHashmap, keyed by id). `<op>`: `p/<key>/<data>/<kind>/<packed>` | `g/<key>`.
//!                            Observation: what every `g` returned (kind:len:sha1:packed or `miss`), `panic` ends it.
//!   decode <spec> <n> (<off> <b:kind|o|r> <a> <b> <packed>)*n <m> (<id> <off>)*m <offs>
//!                            the entry graph exported from a REAL pack made by `git pack-objects` (full objects and
//!                            inflated delta instructions) and a request sequence run through the real
//!                            `data::File::decode_entry` with that cache and one reused output buffer.
//!                            Observation per request: kind:len:sha1:num_deltas:compressed_size.
//!
//! Oracle (property itself, real code only): for packs from `git pack-objects` with depth 1..50, window 0..10, with and
//! without `--delta-base-offset`, every object decoded through every cache (Never, StaticLinkedList<1|2|64> with and
//! without tiny memory limits, both MemoryCappedHashmaps with tiny and large capacities) in random request orders with
//! repetitions equals what `git cat-file --batch` reports (type and bytes); the same through `gix_odb::Cache` with pack
//! and object caches; every cache hit of the cache-level sequences returns a value that was put under that key.
use gix_pack::cache::{DecodeEntry, Object as ObjectCache};
use gix_pack::data::decode::entry::ResolvedBase;
use hcommon::*;
use std::collections::HashMap;
use std::path::{Path, PathBuf};

fn gen_bytes(mode: u8, seed: u64, n: usize) -> Vec<u8> {
    let mut x = seed;
    let mut out = Vec::with_capacity(n);
    for i in 0..n {
        x = x.wrapping_mul(6364136223846793005).wrapping_add(1442695040888963407);
        let b = match mode {
            0 => (x >> 56) as u8,
            1 => {
                if i % 13 == 12 {
                    (x >> 56) as u8
                } else {
                    97 + (i % 7) as u8
                }
            }
            _ => 0,
        };
        out.push(b);
    }
    out
}

fn parse_data(tok: &str) -> Option<Vec<u8>> {
    let parts: Vec<&str> = tok.split(':').collect();
    match parts.as_slice() {
        [g, seed, len] if ["g0", "g1", "g2"].contains(g) => Some(gen_bytes(g.as_bytes()[1] - b'0', seed.parse().ok()?, len.parse().ok()?)),
        [h] => unhex(h),
        _ => None,
    }
}

fn parse_kind(s: &str) -> Option<gix_object::Kind> {
    gix_object::Kind::from_bytes(s.as_bytes()).ok()
}

fn sha1_hex(bs: &[u8]) -> String {
    let mut h = gix_features::hash::hasher(gix_hash::Kind::Sha1);
    h.update(bs);
    hex(&h.digest())
}

/// the object cache is keyed by id: an injective image of (pack, offset)
fn key_id(pack: u32, off: u64) -> gix_hash::ObjectId {
    let mut b = [0x5au8; 20];
    b[8..12].copy_from_slice(&pack.to_be_bytes());
    b[12..].copy_from_slice(&off.to_be_bytes());
    gix_hash::ObjectId::from_bytes_or_panic(&b)
}

/// `<pack id>.<offset>` or a bare offset (pack 7)
fn parse_key(tok: &str) -> Option<(u32, u64)> {
    match tok.split('.').collect::<Vec<_>>().as_slice() {
        [p, o] => Some((p.parse().ok()?, o.parse().ok()?)),
        [o] => Some((7, o.parse().ok()?)),
        _ => None,
    }
}

/// the real caches behind one interface
enum AnyCache {
    Pack(Box<dyn DecodeEntry>),
    Object(Box<dyn ObjectCache>),
}

fn make_cache(spec: &str) -> Option<AnyCache> {
    use gix_pack::cache::lru::{MemoryCappedHashmap, StaticLinkedList};
    let parts: Vec<&str> = spec.split(':').collect();
    Some(match parts.as_slice() {
        ["never"] => AnyCache::Pack(Box::new(gix_pack::cache::Never)),
        ["static", size, lim] => {
            let lim: usize = lim.parse().ok()?;
            match *size {
                "0" => AnyCache::Pack(Box::new(StaticLinkedList::<0>::new(lim))),
                "1" => AnyCache::Pack(Box::new(StaticLinkedList::<1>::new(lim))),
                "2" => AnyCache::Pack(Box::new(StaticLinkedList::<2>::new(lim))),
                "64" => AnyCache::Pack(Box::new(StaticLinkedList::<64>::new(lim))),
                _ => return None,
            }
        }
        ["mem", cap, "0"] => {
            let cap: usize = cap.parse().ok()?;
            if cap == 0 {
                return None;
            }
            AnyCache::Pack(Box::new(MemoryCappedHashmap::new(cap)))
        }
        ["mem", cap, "52"] => {
            let cap: usize = cap.parse().ok()?;
            if cap == 0 {
                return None;
            }
            AnyCache::Object(Box::new(gix_pack::cache::object::MemoryCappedHashmap::new(cap)))
        }
        _ => return None,
    })
}

impl AnyCache {
    fn put(&mut self, key: (u32, u64), data: &[u8], kind: gix_object::Kind, packed: usize) {
        match self {
            AnyCache::Pack(c) => c.put(key.0, key.1, data, kind, packed),
            AnyCache::Object(c) => c.put(key_id(key.0, key.1), kind, data),
        }
    }
    /// (kind, data, packed) — the object cache does not store `packed`; 0 stands in (the op generator puts 0 there)
    fn get(&mut self, key: (u32, u64), out: &mut Vec<u8>) -> Option<(gix_object::Kind, usize)> {
        match self {
            AnyCache::Pack(c) => c.get(key.0, key.1, out),
            AnyCache::Object(c) => c.get(&key_id(key.0, key.1), out).map(|k| (k, 0)),
        }
    }
}

fn do_cache_op(rep: &mut Report, op: &str, args: &[&str]) {
    let Some(mut cache) = make_cache(args[0]) else {
        rep.case(op, "bad-op", false);
        return;
    };
    let mut obs: Vec<String> = Vec::new();
    let mut puts: HashMap<(u32, u64), Vec<(gix_object::Kind, Vec<u8>, usize)>> = HashMap::new();
    let mut out = vec![1u8, 2, 3];
    for tok in &args[1..] {
        let f: Vec<&str> = tok.split('/').collect();
        match f.as_slice() {
            ["p", key, data, kind, packed] => {
                let (Some(key), Some(data), Some(kind), Ok(packed)) = (parse_key(key), parse_data(data), parse_kind(kind), packed.parse::<usize>()) else {
                    rep.case(op, "bad-op", false);
                    return;
                };
                let r = catch(|| cache.put(key, &data, kind, packed));
                if r.is_err() {
                    obs.push("panic".into());
                    rep.oracle_failure(
                        &format!("cache-panic {} {}", args[0], args[1..].join(" ")),
                        &format!("{}: put panicked: {}", args[0], r.err().unwrap_or_default()),
                        op,
                    );
                    break;
                }
                puts.entry(key).or_default().push((kind, data, packed));
            }
            ["g", key] => {
                let Some(key) = parse_key(key) else {
                    rep.case(op, "bad-op", false);
                    return;
                };
                match catch(|| cache.get(key, &mut out)) {
                    Ok(Some((kind, packed))) => {
                        obs.push(format!("{}:{}:{}:{}", kind, out.len(), sha1_hex(&out), packed));
                        // contract: a hit returns something that was put under this key
                        rep.oracle_checked();
                        let known = puts.get(&key).map_or(false, |vs| vs.iter().any(|(k, d, p)| *k == kind && d == &out && (*p == packed || matches!(cache, AnyCache::Object(_)))));
                        if !known {
                            rep.oracle_failure(
                                &format!("cache-hit {} {}", args[0], args[1..].join(" ")),
                                &format!("{}: get(pack {}, offset {}) returned {kind}, {} bytes, which was never put under that key", args[0], key.0, key.1, out.len()),
                                op,
                            );
                        }
                    }
                    Ok(None) => obs.push("miss".into()),
                    Err(_) => {
                        obs.push("panic".into());
                        break;
                    }
                }
            }
            _ => {
                rep.case(op, "bad-op", false);
                return;
            }
        }
    }
    rep.bucket(&format!("cache:{}", args[0].split(':').take(2).collect::<Vec<_>>().join(":")));
    rep.case(op, &if obs.is_empty() { "-".to_string() } else { obs.join(",") }, true);
}

// ---------------------------------------------------------------------------------------------------------------------

struct PackData {
    pack: gix_pack::data::File,
    index: gix_pack::index::File,
    /// id → (kind, bytes) according to git
    truth: HashMap<gix_hash::ObjectId, (String, Vec<u8>)>,
    /// pack offsets in index order with their ids
    entries: Vec<(u64, gix_hash::ObjectId)>,
    label: String,
    max_chain: u32,
    /// a thin pack: entries at or beyond this offset (bases appended by `index-pack --fix-thin` to obtain an index)
    /// do not belong to the pack file that is read; their objects are handed out as `ResolvedBase::OutOfPack`
    thin_end: Option<u64>,
}

fn git_batch_all(repo: &Path, ids: &[String]) -> HashMap<gix_hash::ObjectId, (String, Vec<u8>)> {
    let input = ids.join("\n") + "\n";
    let out = git(repo, &["cat-file", "--batch"], Some(input.as_bytes()));
    let mut res = HashMap::new();
    let mut rest: &[u8] = &out.stdout;
    for _ in ids {
        let Some(nl) = rest.iter().position(|b| *b == b'\n') else { break };
        let line = String::from_utf8_lossy(&rest[..nl]).to_string();
        rest = &rest[nl + 1..];
        let parts: Vec<&str> = line.split(' ').collect();
        if parts.len() == 3 {
            let size: usize = parts[2].parse().unwrap_or(0);
            if rest.len() < size + 1 {
                break;
            }
            if let Ok(id) = gix_hash::ObjectId::from_hex(parts[0].as_bytes()) {
                res.insert(id, (parts[1].to_string(), rest[..size].to_vec()));
            }
            rest = &rest[size + 1..];
        }
    }
    res
}

/// a repository with families of similar blobs (so that deltas form), a few trees, commits and a tag
fn make_repo(dir: &Path, r: &mut Rng, families: usize, versions: usize, lines: usize) -> Vec<(String, String)> {
    std::fs::create_dir_all(dir).expect("mkdir");
    git_ok(dir, &["init", "-q", "."], None);
    let mut paths = String::new();
    let mut names = Vec::new();
    for f in 0..families {
        let mut content: Vec<String> = (0..lines).map(|i| format!("family {f} line {i} {}", hex(&r.bytes(6)))).collect();
        for v in 0..versions {
            // edit a few lines, sometimes insert, sometimes delete; grow slowly
            for _ in 0..1 + r.usize(3) {
                if content.is_empty() {
                    break;
                }
                let i = r.usize(content.len());
                match r.below(4) {
                    0 => content.insert(i, format!("inserted at v{v} {}", hex(&r.bytes(4)))),
                    1 if content.len() > 2 => {
                        content.remove(i);
                    }
                    _ => content[i] = format!("family {f} changed at v{v} {}", hex(&r.bytes(5))),
                }
            }
            content.push(format!("appended v{v}"));
            let p = dir.join(format!("f{f}_v{v}"));
            std::fs::write(&p, content.join("\n") + "\n").expect("write");
            paths.push_str(&format!("{}\n", p.display()));
            names.push(format!("file{f}.txt"));
        }
    }
    // a few special blobs: empty, one byte, binary
    for (i, data) in [Vec::new(), vec![0u8], r.bytes(300), vec![b'x'; 70_000]].into_iter().enumerate() {
        let p = dir.join(format!("special{i}"));
        std::fs::write(&p, data).expect("write");
        paths.push_str(&format!("{}\n", p.display()));
        names.push(format!("special{i}"));
    }
    let out = git_ok(dir, &["hash-object", "-w", "--stdin-paths"], Some(paths.as_bytes()));
    let blob_ids: Vec<String> = out.lines().map(str::to_string).collect();
    let mut all: Vec<(String, String)> = blob_ids.iter().cloned().zip(names.iter().cloned()).collect();
    // trees over successive versions (similar trees deltify, too), commits on top, one tag
    let mut parent: Option<String> = None;
    let n_trees = versions.min(8);
    for v in 0..n_trees {
        let mut spec = String::new();
        for f in 0..families {
            spec.push_str(&format!("100644 blob {}\tfile{f}.txt\n", blob_ids[f * versions + v]));
        }
        for extra in 0..12 {
            spec.push_str(&format!("100644 blob {}\tunchanged{extra:02}.txt\n", blob_ids[(extra * 7) % blob_ids.len()]));
        }
        let tree = git_ok(dir, &["mktree"], Some(spec.as_bytes()));
        all.push((tree.clone(), String::new()));
        let mut args = vec!["commit-tree".to_string(), tree, "-m".to_string(), format!("version {v}\n\n{}", "body line\n".repeat(v))];
        if let Some(p) = &parent {
            args.push("-p".into());
            args.push(p.clone());
        }
        let argv: Vec<&str> = args.iter().map(String::as_str).collect();
        let commit = git_ok(dir, &argv, None);
        all.push((commit.clone(), String::new()));
        parent = Some(commit);
    }
    if let Some(p) = &parent {
        git_ok(dir, &["tag", "-a", "-m", "a tag", "v1", p], None);
        let tag = git_ok(dir, &["rev-parse", "refs/tags/v1"], None);
        all.push((tag, String::new()));
    }
    all
}

fn pack_objects(repo: &Path, objects: &[(String, String)], depth: u32, window: u32, ofs: bool, tag: &str) -> Option<PackData> {
    pack_objects_at(repo, objects, depth, window, ofs, &repo.join(format!("out-{tag}")), false)
}

/// `git pack-objects` writing `<prefix>-<hash>.{pack,idx}`; `stored`: compression level 0, so that the size of an
/// entry depends on the length of its data only (equal shapes give equal offsets in different packs)
fn pack_objects_at(repo: &Path, objects: &[(String, String)], depth: u32, window: u32, ofs: bool, prefix: &Path, stored: bool) -> Option<PackData> {
    let list: String = objects.iter().map(|(id, name)| if name.is_empty() { format!("{id}\n") } else { format!("{id} {name}\n") }).collect();
    let mut args: Vec<String> = Vec::new();
    if stored {
        args.extend(["-c".to_string(), "pack.compression=0".into(), "-c".into(), "core.compression=0".into()]);
    }
    args.extend([
        "pack-objects".to_string(),
        format!("--depth={depth}"),
        format!("--window={window}"),
        "--no-reuse-delta".into(),
        "-q".into(),
    ]);
    if ofs {
        args.push("--delta-base-offset".into());
    }
    args.push(prefix.to_str()?.to_string());
    let argv: Vec<&str> = args.iter().map(String::as_str).collect();
    let hash = git_ok(repo, &argv, Some(list.as_bytes()));
    let pack_path = PathBuf::from(format!("{}-{}.pack", prefix.display(), hash.trim()));
    let idx_path = pack_path.with_extension("idx");
    let pack = gix_pack::data::File::at(&pack_path, gix_hash::Kind::Sha1).ok()?;
    let index = gix_pack::index::File::at(&idx_path, gix_hash::Kind::Sha1).ok()?;
    let ids: Vec<String> = objects.iter().map(|o| o.0.clone()).collect();
    let truth = git_batch_all(repo, &ids);
    let entries: Vec<(u64, gix_hash::ObjectId)> = index.iter().map(|e| (e.pack_offset, e.oid)).collect();
    Some(PackData { pack, index, truth, entries, label: format!("depth={depth} window={window} ofs={ofs}"), max_chain: 0, thin_end: None })
}

fn decode_one(
    pd: &PackData,
    offset: u64,
    out: &mut Vec<u8>,
    inflate: &mut gix_features::zlib::Inflate,
    cache: &mut dyn DecodeEntry,
) -> Result<Result<gix_pack::data::decode::entry::Outcome, String>, String> {
    catch(move || {
        let entry = pd.pack.entry(offset).map_err(|e| e.to_string())?;
        let resolve = |id: &gix_hash::oid, out: &mut Vec<u8>| {
            let offset = pd.index.lookup(id).map(|i| pd.index.pack_offset_at_index(i));
            match (offset, pd.thin_end) {
                (Some(o), None) => pd.pack.entry(o).ok().map(ResolvedBase::InPack),
                (Some(o), Some(end)) if o < end => pd.pack.entry(o).ok().map(ResolvedBase::InPack),
                (_, Some(_)) => {
                    // the base lives outside the (thin) pack: hand it out the way an object database would
                    let (t, bytes) = pd.truth.get(&id.to_owned())?;
                    out.clear();
                    out.extend_from_slice(bytes);
                    Some(ResolvedBase::OutOfPack { kind: parse_kind(t)?, end: out.len() })
                }
                (None, None) => None,
            }
        };
        pd.pack.decode_entry(entry, out, inflate, &resolve, cache).map_err(|e| e.to_string())
    })
}

const PACK_CACHES: [&str; 12] = [
    "never",
    "static:1:0",
    "static:2:0",
    "static:64:0",
    "static:64:1",
    "static:64:300",
    "static:2:5000",
    "static:0:0",
    "mem:1:0",
    "mem:700:0",
    "mem:100000:0",
    "mem:50000000:0",
];

/// every object, through every cache, in a random order with repetitions, against git
fn pack_oracle(rep: &mut Report, r: &mut Rng, pd: &mut PackData, requests: usize, all_caches: bool) {
    let by_offset: HashMap<u64, gix_hash::ObjectId> = pd.entries.iter().cloned().collect();
    for (ci, spec) in PACK_CACHES.into_iter().enumerate() {
        // quick tier: the first, the tiny and two random ones per pack
        if !all_caches && !(ci == 0 || ci == 4 || ci == 8 || r.chance(1, 4)) {
            continue;
        }
        let Some(AnyCache::Pack(mut cache)) = make_cache(spec) else { continue };
        let n0 = r.usize(50);
        let mut out: Vec<u8> = r.bytes(n0);
        let mut inflate = gix_features::zlib::Inflate::default();
        let mut order: Vec<u64> = pd.entries.iter().map(|e| e.0).collect();
        r.shuffle(&mut order);
        // repetitions: some objects again and again, clustered
        for _ in 0..requests.saturating_sub(order.len()) {
            let o = order[r.usize(order.len().min(1 + requests / 4))];
            order.insert(r.usize(order.len() + 1), o);
        }
        for offset in order {
            if r.chance(1, 10) {
                let n1 = r.usize(2000);
                out = r.bytes(n1); // the caller's buffer may hold anything
            }
            let id = by_offset[&offset];
            let key = format!("pack[{}] cache={spec} id={id}", pd.label);
            rep.oracle_only(&key, true);
            rep.oracle_checked();
            rep.git_checked(1);
            match decode_one(pd, offset, &mut out, &mut inflate, cache.as_mut()) {
                Ok(Ok(o)) => {
                    pd.max_chain = pd.max_chain.max(o.num_deltas);
                    let (t, bytes) = &pd.truth[&id];
                    if &o.kind.to_string() != t || &out != bytes {
                        if std::env::var("C08_DEBUG").is_ok() {
                            eprintln!("DEBUG mismatch id={id} offset={offset} pack={:?} gix={} git={t}", pd.pack.path(), o.kind);
                            std::process::exit(9);
                        }
                        rep.oracle_failure(
                            &key,
                            &format!("decode_entry gives {} with {} bytes (sha1 {}), git cat-file says {t} with {} bytes (sha1 {})", o.kind, out.len(), sha1_hex(&out), bytes.len(), sha1_hex(bytes)),
                            &format!("packs {}", PACK_SEED.with(|s| s.get())),
                        );
                    }
                }
                Ok(Err(e)) => rep.oracle_failure(&key, &format!("decode_entry failed: {e}"), &format!("packs {}", PACK_SEED.with(|s| s.get()))),
                Err(e) => rep.oracle_failure(&key, &format!("decode_entry panicked: {e}"), &format!("packs {}", PACK_SEED.with(|s| s.get()))),
            }
        }
    }
    rep.bucket(&format!("pack:max-chain~{}", match pd.max_chain { 0 => "0".to_string(), 1..=3 => "1-3".into(), 4..=10 => "4-10".into(), 11..=25 => "11-25".into(), _ => "26+".into() }));
}

/// the entry graph of a small pack as a `decode` op line, and what the real code answers
fn pack_correspondence(rep: &mut Report, r: &mut Rng, pd: &PackData, spec: &str, requests: usize) {
    let mut line = format!("decode {spec} {}", pd.entries.len());
    let mut inflate = gix_features::zlib::Inflate::default();
    let mut ids = String::new();
    let mut n_ids = 0;
    for (offset, _id) in &pd.entries {
        let Ok(entry) = pd.pack.entry(*offset) else { return };
        let mut buf = vec![0u8; entry.decompressed_size as usize];
        let Ok(packed) = pd.pack.decompress_entry(&entry, &mut inflate, &mut buf) else { return };
        use gix_pack::data::entry::Header;
        match entry.header {
            Header::OfsDelta { base_distance } => line.push_str(&format!(" {offset} o {} {} {packed}", entry.base_pack_offset(base_distance), hex(&buf))),
            Header::RefDelta { base_id } => {
                line.push_str(&format!(" {offset} r {} {} {packed}", base_id, hex(&buf)));
                if let Some(i) = pd.index.lookup(base_id) {
                    let o = pd.index.pack_offset_at_index(i);
                    if pd.thin_end.map_or(true, |end| o < end) {
                        ids.push_str(&format!(" {} {}", base_id, o));
                    } else if let Some((t, bytes)) = pd.truth.get(&base_id) {
                        ids.push_str(&format!(" {} x:{}:{}", base_id, t, hex(bytes)));
                    }
                    n_ids += 1;
                }
            }
            h => line.push_str(&format!(" {offset} b:{} {} - {packed}", h.as_kind().expect("base"), hex(&buf))),
        }
    }
    line.push_str(&format!(" {n_ids}{ids}"));
    let reqs: Vec<u64> = (0..requests).map(|_| pd.entries[r.usize(pd.entries.len().min(1 + requests))].0).collect();
    line.push_str(&format!(" {}", reqs.iter().map(|o| o.to_string()).collect::<Vec<_>>().join(",")));
    run_decode_line(rep, &line, Some(pd));
}

/// answer a `decode` line with the real code; the pack is re-found by content only when replaying is impossible
fn run_decode_line(rep: &mut Report, line: &str, pd: Option<&PackData>) {
    let Some(pd) = pd else {
        rep.note("a `decode` line cannot be replayed without its pack (the pack is rebuilt from the seed instead)");
        return;
    };
    let args: Vec<&str> = line.split(' ').collect();
    let spec = args[1];
    let Some(AnyCache::Pack(mut cache)) = make_cache(spec) else {
        rep.case(line, "bad-op", false);
        return;
    };
    let reqs: Vec<u64> = args.last().unwrap().split(',').filter_map(|s| s.parse().ok()).collect();
    let mut out = Vec::new();
    let mut inflate = gix_features::zlib::Inflate::default();
    let mut obs = Vec::new();
    for offset in reqs {
        match decode_one(pd, offset, &mut out, &mut inflate, cache.as_mut()) {
            Ok(Ok(o)) => obs.push(format!("{}:{}:{}:{}:{}", o.kind, out.len(), sha1_hex(&out), o.num_deltas, o.compressed_size)),
            Ok(Err(_)) => obs.push("err".into()),
            Err(_) => {
                obs.push("panic".into());
                break;
            }
        }
    }
    rep.bucket(&format!("decode:{}", spec.split(':').take(2).collect::<Vec<_>>().join(":")));
    rep.case(line, &if obs.is_empty() { "-".to_string() } else { obs.join(",") }, true);
}

fn gen_cache_line(r: &mut Rng) -> String {
    let spec = match r.below(12) {
        0 => "never".to_string(),
        1..=6 => format!("static:{}:{}", r.pick(&[0u32, 1, 1, 2, 2, 64, 64, 64]), r.pick(&[0usize, 0, 1, 7, 8, 9, 10, 16, 17, 30, 100, 1000])),
        7..=9 => format!("mem:{}:0", r.pick(&[1usize, 2, 3, 5, 10, 40, 100, 1000])),
        _ => format!("mem:{}:52", r.pick(&[1usize, 52, 53, 54, 60, 110, 160, 200, 1000])),
    };
    let object = spec.ends_with(":52");
    let n = 1 + r.usize(40);
    let keys = 1 + r.below(6);
    // several packs behind one cache: the key is the PAIR (pack id, offset). Ids as gix-odb numbers packs: plain index
    // files 0,1,…; packs inside a multi-pack index `index | 1 << 15 | pack_in_multi << 16`; and extremes.
    const PACKS: [u32; 14] = [7, 0, 1, 2, 0x8000, 0x1_8000, 0x2_8000, 0x8001, 0x1_8001, 0x1_0000, 0x1_0001, 0x8000_0000, 0x8000_0001, 0xffff_ffff];
    let packs: Vec<u32> = match r.below(4) {
        0 => vec![7],
        1 => vec![0x8000, 0x1_8000, 0x2_8000],
        _ => (0..1 + r.usize(4)).map(|_| *r.pick(&PACKS)).collect(),
    };
    let mut ops = Vec::new();
    for _ in 0..n {
        let off = r.below(keys);
        let pack = *r.pick(&packs);
        let key = if pack == 7 && r.chance(1, 2) { format!("{off}") } else { format!("{pack}.{off}") };
        if r.chance(3, 5) {
            let len = match r.below(6) {
                0 => 0,
                1 => r.usize(3),
                2 => *r.pick(&[7usize, 8, 9, 15, 16, 17, 31, 32, 33]),
                _ => r.usize(60),
            };
            // the value is a function of (pack, offset, len, variant): the same key sees several different values, and
            // the same offset in another pack a different one again
            let data = format!("g0:{}:{}", (pack as u64 % 9973) * 100_000 + off * 1000 + r.below(3), len);
            let kind = r.pick(&["blob", "tree", "commit", "tag"]);
            ops.push(format!("p/{key}/{data}/{kind}/{}", if object { 0 } else { r.usize(1000) }));
        } else {
            ops.push(format!("g/{key}"));
        }
    }
    format!("cache {spec} {}", ops.join(" "))
}

/// the pack-level part; its random choices depend on `seed` only, so that `packs <seed>` replays it
fn pack_level(rep: &mut Report, seed: u64, thorough: bool, scale: u64, scratch: &Scratch) {
    let mut r = Rng::new(seed ^ 0x5eed_0c08);
    let budget = |quick: u64, thorough_n: u64| (if thorough { thorough_n } else { quick }) * scale;
    PACK_SEED.with(|s| s.set(seed));
    // ---- pack level ----------------------------------------------------------------------------------------------
    // several packs behind one cache (keys are pairs), and copy instructions beyond 2^24
    for i in 0..budget(1, 4) {
        twin_packs(rep, &mut r, &scratch.join(format!("twin{i}")));
    }
    for i in 0..budget(1, 2) {
        big_offset_delta(rep, &mut r, &scratch.join(format!("bigofs{i}")));
    }
    for i in 0..budget(2, 8) {
        thin_pack(rep, &mut r, &scratch.join(format!("thin{i}")), i % 2 == 0);
    }
    // small packs: entry graph to the model as well
    let n_small = budget(4, 20);
    for i in 0..n_small {
        let dir = scratch.join(format!("small{i}"));
        let (fam, ver, lines) = (1 + r.usize(2), 3 + r.usize(8), 4 + r.usize(6));
        let objects = make_repo(&dir, &mut r, fam, ver, lines);
        let depth = *r.pick(&[1u32, 2, 3, 5, 10, 50]);
        let window = *r.pick(&[0u32, 1, 2, 5, 10]);
        let ofs = r.chance(1, 2);
        let objects: Vec<(String, String)> = objects.into_iter().filter(|(_, name)| name != "special3").collect();
        let Some(mut pd) = pack_objects(&dir, &objects, depth, window, ofs, "s") else {
            rep.note("could not build a small pack");
            continue;
        };
        for spec in ["never", "static:1:0", "static:2:0", "static:64:0", "static:64:400", "static:2:64", "mem:1:0", "mem:300:0", "mem:100000:0"] {
            let nreq = 30 + r.usize(40);
            pack_correspondence(rep, &mut r, &pd, spec, nreq);
        }
        pack_oracle(rep, &mut r, &mut pd, 60, true);
        chain_order_oracle(rep, &pd);
    }
    // larger packs over the whole option grid: oracle only
    let n_big = budget(2, 16);
    for i in 0..n_big {
        let dir = scratch.join(format!("big{i}"));
        let (fam, ver, lines) = (2 + r.usize(3), if i % 2 == 0 { 55 } else { 12 + r.usize(30) }, 20 + r.usize(60));
        let objects = make_repo(&dir, &mut r, fam, ver, lines);
        let combos: Vec<(u32, u32, bool)> = if thorough {
            vec![(1, 10, true), (2, 5, false), (7, 10, true), (50, 10, false), (50, 10, true), (50, 0, true), (13, 3, false)]
        } else {
            vec![(*r.pick(&[1u32, 2, 4, 9]), *r.pick(&[1u32, 3, 10]), r.chance(1, 2)), (50, 10, i % 2 == 0), (*r.pick(&[10u32, 25, 50]), *r.pick(&[0u32, 10]), i % 2 == 1)]
        };
        for (j, (depth, window, ofs)) in combos.into_iter().enumerate() {
            let Some(mut pd) = pack_objects(&dir, &objects, depth, window, ofs, &format!("b{j}")) else {
                rep.note("could not build a pack");
                continue;
            };
            rep.bucket(&format!("pack:depth{}", match depth { 1 => "1", 2..=9 => "2-9", 10..=49 => "10-49", _ => "50" }));
            rep.bucket(&format!("pack:window{}", if window == 0 { "0" } else if window < 10 { "1-9" } else { "10" }));
            rep.bucket(if ofs { "pack:ofs-delta" } else { "pack:ref-delta" });
            let n = pd.entries.len();
            pack_oracle(rep, &mut r, &mut pd, n + n / 2, thorough);
            chain_order_oracle(rep, &pd);
        }
        // the same objects through gix_odb::Cache with pack and object caches (a packed repository)
        if i < budget(1, 4) {
            git_ok(&dir, &["repack", "-a", "-d", "-q", "--depth=50", "--window=10"], None);
            let _ = git(&dir, &["prune-packed", "-q"], None);
            let ids: Vec<String> = objects.iter().map(|o| o.0.clone()).collect();
            let truth = git_batch_all(&dir, &ids);
            for variant in 0..3 {
                let Ok(handle) = gix_odb::at(dir.join(".git").join("objects")) else { continue };
                let mut cache: gix_odb::Cache<gix_odb::Handle> = gix_odb::Cache::from(handle);
                match variant {
                    0 => cache = cache.with_pack_cache(|| Box::new(gix_pack::cache::lru::StaticLinkedList::<64>::new(1000))).with_object_cache(|| Box::new(gix_pack::cache::object::MemoryCappedHashmap::new(3000))),
                    1 => cache = cache.with_pack_cache(|| Box::new(gix_pack::cache::lru::MemoryCappedHashmap::new(2000))).with_object_cache(|| Box::new(gix_pack::cache::object::MemoryCappedHashmap::new(50_000_000))),
                    _ => cache = cache.with_object_cache(|| Box::new(gix_pack::cache::object::MemoryCappedHashmap::new(200))),
                }
                let mut order: Vec<&String> = ids.iter().collect();
                r.shuffle(&mut order);
                let extra: Vec<&String> = (0..ids.len()).map(|_| &ids[r.usize(ids.len().min(12))]).collect();
                let mut buf = Vec::new();
                for idhex in order.into_iter().chain(extra) {
                    let id = gix_hash::ObjectId::from_hex(idhex.as_bytes()).expect("hex");
                    let key = format!("odb-cache variant={variant} id={id}");
                    rep.oracle_only(&key, true);
                    rep.oracle_checked();
                    rep.git_checked(1);
                    use gix_object::Find;
                    match catch(|| cache.try_find(&id, &mut buf).map(|o| o.map(|d| (d.kind, d.data.to_vec()))).map_err(|e| e.to_string())) {
                        Ok(Ok(Some((k, d)))) => {
                            let (t, bytes) = &truth[&id];
                            if &k.to_string() != t || &d != bytes {
                                rep.oracle_failure(&key, &format!("gix_odb::Cache::try_find gives {k} with {} bytes, git says {t} with {} bytes", d.len(), bytes.len()), &format!("packs {}", PACK_SEED.with(|s| s.get())));
                            }
                        }
                        other => rep.oracle_failure(&key, &format!("gix_odb::Cache::try_find: {:?}", other.map(|r| r.map(|o| o.map(|(k, d)| (k, d.len()))))), &format!("packs {}", PACK_SEED.with(|s| s.get()))),
                    }
                }
                rep.bucket("odb-cache:variant");
            }
        }
    }
}

thread_local! {
    static PACK_SEED: std::cell::Cell<u64> = std::cell::Cell::new(0);
}

/// Walk every delta chain from its oldest delta to its newest, each object right after its base, through every
/// caching cache: the base of each request is then in the cache (also in a one-slot cache). Chains of a growing file
/// read newest to oldest have cached intermediates that are LARGER than the object requested next.
fn chain_order_oracle(rep: &mut Report, pd: &PackData) {
    use gix_pack::data::entry::Header;
    // base offset of every delta entry, and the size of every object
    let mut parent: HashMap<u64, u64> = HashMap::new();
    for (offset, _) in &pd.entries {
        let Ok(entry) = pd.pack.entry(*offset) else { continue };
        match entry.header {
            Header::OfsDelta { base_distance } => {
                parent.insert(*offset, entry.base_pack_offset(base_distance));
            }
            Header::RefDelta { base_id } => {
                if let Some(i) = pd.index.lookup(base_id) {
                    parent.insert(*offset, pd.index.pack_offset_at_index(i));
                }
            }
            _ => {}
        }
    }
    let by_offset: HashMap<u64, gix_hash::ObjectId> = pd.entries.iter().cloned().collect();
    let size_of = |o: &u64| pd.truth[&by_offset[o]].1.len();
    let has_child: std::collections::HashSet<u64> = parent.values().cloned().collect();
    // paths from the first delta of a chain down to each leaf
    let mut paths: Vec<Vec<u64>> = Vec::new();
    for (offset, _) in &pd.entries {
        if has_child.contains(offset) || !parent.contains_key(offset) {
            continue;
        }
        let mut path = vec![*offset];
        let mut cur = *offset;
        while let Some(p) = parent.get(&cur) {
            if !parent.contains_key(p) {
                break; // `p` is the full base object: never cached
            }
            path.push(*p);
            cur = *p;
        }
        path.reverse();
        paths.push(path);
    }
    let shrinking = paths.iter().any(|p| p.windows(2).any(|w| size_of(&w[0]) > size_of(&w[1])));
    let deep = paths.iter().any(|p| p.len() >= 2);
    rep.bucket(if shrinking { "chain:cached-intermediate-LARGER-than-next-object" } else if deep { "chain:delta-on-delta-but-not-shrinking" } else { "chain:no-delta-on-delta" });
    let seedop = format!("packs {}", PACK_SEED.with(|s| s.get()));
    for spec in PACK_CACHES {
        if spec == "never" || spec == "static:0:0" {
            continue;
        }
        let Some(AnyCache::Pack(mut cache)) = make_cache(spec) else { continue };
        let mut out = Vec::new();
        let mut inflate = gix_features::zlib::Inflate::default();
        for path in &paths {
            for offset in path {
                let id = by_offset[offset];
                let key = format!("chain-order pack[{}] cache={spec} id={id}", pd.label);
                rep.oracle_only(&key, true);
                rep.oracle_checked();
                rep.git_checked(1);
                match decode_one(pd, *offset, &mut out, &mut inflate, cache.as_mut()) {
                    Ok(Ok(o)) => {
                        let (t, bytes) = &pd.truth[&id];
                        if &o.kind.to_string() != t || &out != bytes {
                            rep.oracle_failure(&key, &format!("requested right after its (cached) base: decode_entry gives {} with {} bytes, git cat-file says {t} with {} bytes", o.kind, out.len(), bytes.len()), &seedop);
                        }
                    }
                    Ok(Err(e)) => rep.oracle_failure(&key, &format!("requested right after its (cached) base: decode_entry failed: {e}"), &seedop),
                    Err(e) => rep.oracle_failure(&key, &format!("requested right after its (cached) base ({} bytes, cached base of the previous request): decode_entry panicked: {e}", size_of(offset)), &seedop),
                }
            }
        }
    }
}

/// a THIN pack: deltas against objects that are not in the pack (`ResolvedBase::OutOfPack` from the resolve callback)
fn thin_pack(rep: &mut Report, r: &mut Rng, dir: &Path, small: bool) {
    let (fam, ver, lines) = if small { (1, 8, 8) } else { (3, 8, 40) };
    let _objects = make_repo(dir, r, fam, ver, lines);
    // `--thin` reads revisions: everything reachable from the newest commit but not from an older one; objects of the
    // older commit are "edge" objects the receiver has, deltas against them stay in the pack as ref-deltas
    let commits: Vec<String> = git_ok(dir, &["rev-list", "refs/tags/v1"], None).lines().map(str::to_string).collect();
    if commits.len() < 3 {
        rep.note("thin pack: too few commits");
        return;
    }
    let list = format!("{}\n^{}\n", commits[0], commits[commits.len() / 2]);
    let ofs = r.chance(1, 2);
    let mut args = vec!["pack-objects", "--thin", "--stdout", "--depth=50", "--window=10", "-q"];
    if ofs {
        args.push("--delta-base-offset");
    }
    let o = git(dir, &args, Some(list.as_bytes()));
    if !o.ok || o.stdout.len() < 32 {
        rep.note("could not build a thin pack");
        return;
    }
    let thin_path = dir.join("thin.pack");
    std::fs::write(&thin_path, &o.stdout).expect("write");
    // an index for it: `--fix-thin` appends the missing bases BEHIND the original entries, whose offsets stay
    let fixed = git(dir, &["index-pack", "--fix-thin", "--stdin"], Some(&o.stdout));
    let hash = String::from_utf8_lossy(&fixed.stdout).split_whitespace().last().unwrap_or("").to_string();
    let idx_path = dir.join(".git").join("objects").join("pack").join(format!("pack-{hash}.idx"));
    let (Ok(pack), Ok(index)) = (gix_pack::data::File::at(&thin_path, gix_hash::Kind::Sha1), gix_pack::index::File::at(&idx_path, gix_hash::Kind::Sha1)) else {
        rep.note("could not open the thin pack / its index");
        return;
    };
    let thin_end = o.stdout.len() as u64 - 20;
    let all_ids: Vec<String> = index.iter().map(|e| e.oid.to_string()).collect();
    let truth = git_batch_all(dir, &all_ids);
    let entries: Vec<(u64, gix_hash::ObjectId)> = index.iter().filter(|e| e.pack_offset < thin_end).map(|e| (e.pack_offset, e.oid)).collect();
    let mut pd = PackData { pack, index, truth, entries, label: format!("thin ofs={ofs}"), max_chain: 0, thin_end: Some(thin_end) };
    let external = pd
        .entries
        .iter()
        .filter_map(|(o, _)| pd.pack.entry(*o).ok())
        .filter(|e| match e.header {
            gix_pack::data::entry::Header::RefDelta { base_id } => pd.index.lookup(base_id).map_or(true, |i| pd.index.pack_offset_at_index(i) >= thin_end),
            _ => false,
        })
        .count();
    rep.bucket(if external > 0 { "thin:deltas-on-out-of-pack-bases" } else { "thin:NO-out-of-pack-base" });
    if external == 0 {
        rep.note("the thin pack has no delta against an object outside the pack");
    }
    if small {
        for spec in ["never", "static:1:0", "static:64:0", "static:2:64", "mem:300:0", "mem:100000:0"] {
            let nreq = 30 + r.usize(30);
            pack_correspondence(rep, r, &pd, spec, nreq);
        }
    }
    let n = pd.entries.len();
    pack_oracle(rep, r, &mut pd, 2 * n, true);
    chain_order_oracle(rep, &pd);
}

/// the caches as `gix_odb::Cache` wants them
fn make_send_cache(spec: &str) -> Option<Box<gix_odb::cache::PackCache>> {
    use gix_pack::cache::lru::{MemoryCappedHashmap, StaticLinkedList};
    let parts: Vec<&str> = spec.split(':').collect();
    Some(match parts.as_slice() {
        ["never"] => Box::new(gix_pack::cache::Never),
        ["static", "1", lim] => Box::new(StaticLinkedList::<1>::new(lim.parse().ok()?)),
        ["static", "2", lim] => Box::new(StaticLinkedList::<2>::new(lim.parse().ok()?)),
        ["static", "64", lim] => Box::new(StaticLinkedList::<64>::new(lim.parse().ok()?)),
        ["mem", cap, "0"] => Box::new(MemoryCappedHashmap::new(cap.parse().ok()?)),
        _ => return None,
    })
}

const SHARED_CACHES: [&str; 8] = ["never", "static:1:0", "static:2:0", "static:64:0", "static:64:2000", "mem:700:0", "mem:4000:0", "mem:50000000:0"];

/// Two packs of the same shape (equal object sizes, stored entries → equal offsets) with different contents, read
/// through ONE cache: (a) directly with `decode_entry` and the pack ids gix-odb gives to packs inside a multi-pack
/// index, (b) behind `git multi-pack-index write` through one `gix_odb` handle.
fn twin_packs(rep: &mut Report, r: &mut Rng, dir: &Path) {
    std::fs::create_dir_all(dir).expect("mkdir");
    git_ok(dir, &["init", "-q", "."], None);
    let versions = 9;
    let mut groups: Vec<Vec<(String, String)>> = Vec::new();
    for tag in ["A", "B"] {
        let mut paths = String::new();
        let mut content: Vec<String> = (0..40).map(|i| format!("{tag} row {i:04} {}", hex(&r.bytes(10)))).collect();
        for v in 0..versions {
            let i = (3 * v + 1) % content.len();
            content[i] = format!("{tag} edt {v:04} {}", hex(&r.bytes(10)));
            let p = dir.join(format!("{tag}_v{v}"));
            std::fs::write(&p, content.join("\n") + "\n").expect("write");
            paths.push_str(&format!("{}\n", p.display()));
        }
        let out = git_ok(dir, &["hash-object", "-w", "--stdin-paths"], Some(paths.as_bytes()));
        groups.push(out.lines().map(|id| (id.to_string(), "same.txt".to_string())).collect());
    }
    let pack_dir = dir.join(".git").join("objects").join("pack");
    std::fs::create_dir_all(&pack_dir).expect("mkdir");
    let ofs = r.chance(1, 2);
    let (Some(mut pa), Some(mut pb)) = (
        pack_objects_at(dir, &groups[0], 50, 10, ofs, &pack_dir.join("pack"), true),
        pack_objects_at(dir, &groups[1], 50, 10, ofs, &pack_dir.join("pack"), true),
    ) else {
        rep.note("could not build the twin packs");
        return;
    };
    let delta_offsets = |pd: &PackData| -> Vec<u64> {
        pd.entries.iter().filter_map(|(o, _)| pd.pack.entry(*o).ok()).filter(|e| e.header.is_delta()).map(|e| e.data_offset).collect()
    };
    let (da, db) = (delta_offsets(&pa), delta_offsets(&pb));
    let shared = da.iter().filter(|o| db.contains(o)).count();
    rep.bucket(if shared > 0 { "twin:packs-share-delta-offsets" } else { "twin:NO-shared-delta-offsets" });
    if shared == 0 {
        rep.note("twin packs: no delta entry at the same data offset in both packs (the scenario is weaker than intended)");
    }
    let seedop = format!("packs {}", PACK_SEED.with(|s| s.get()));
    // (a) one cache, two packs, ids as gix-odb assigns them
    for (ida, idb) in [(0x8000u32, 0x1_8000u32), (0x8001, 0x1_8001), (0, 1), (0, 0x1_0000), (7, 0x8000_0007)] {
        pa.pack.id = ida;
        pb.pack.id = idb;
        for spec in SHARED_CACHES {
            let Some(AnyCache::Pack(mut cache)) = make_cache(spec) else { continue };
            let mut out = Vec::new();
            let mut inflate = gix_features::zlib::Inflate::default();
            let mut reqs: Vec<(bool, u64, gix_hash::ObjectId)> = Vec::new();
            for _ in 0..3 {
                for (o, id) in &pa.entries {
                    reqs.push((true, *o, *id));
                }
                for (o, id) in &pb.entries {
                    reqs.push((false, *o, *id));
                }
            }
            r.shuffle(&mut reqs);
            // and strictly alternating runs over the same positions of both packs
            for k in 0..pa.entries.len().min(pb.entries.len()) {
                reqs.push((true, pa.entries[k].0, pa.entries[k].1));
                reqs.push((false, pb.entries[k].0, pb.entries[k].1));
            }
            for (is_a, offset, id) in reqs {
                let pd = if is_a { &pa } else { &pb };
                let key = format!("twin-packs ids={ida:#x}/{idb:#x} cache={spec} pack={} id={id}", if is_a { "A" } else { "B" });
                rep.oracle_only(&key, true);
                rep.oracle_checked();
                rep.git_checked(1);
                match decode_one(pd, offset, &mut out, &mut inflate, cache.as_mut()) {
                    Ok(Ok(o)) => {
                        let (t, bytes) = &pd.truth[&id];
                        if &o.kind.to_string() != t || &out != bytes {
                            rep.oracle_failure(
                                &key,
                                &format!("two packs behind one cache: decode_entry gives {} with {} bytes (sha1 {}), git cat-file says {t} with {} bytes (sha1 {})", o.kind, out.len(), sha1_hex(&out), bytes.len(), sha1_hex(bytes)),
                                &seedop,
                            );
                        }
                    }
                    other => rep.oracle_failure(&key, &format!("decode_entry: {:?}", other.map(|r| r.map(|_| ()))), &seedop),
                }
            }
        }
    }
    // (b) the same two packs behind a multi-pack index, one gix_odb handle, each pack cache
    let _ = git(dir, &["prune-packed", "-q"], None);
    let o = git(dir, &["multi-pack-index", "write"], None);
    if !o.ok || !pack_dir.join("multi-pack-index").is_file() {
        rep.note("git multi-pack-index write failed");
        return;
    }
    let ids: Vec<String> = groups.iter().flatten().map(|o| o.0.clone()).collect();
    let truth = git_batch_all(dir, &ids);
    for spec in SHARED_CACHES {
        let Ok(handle) = gix_odb::at(dir.join(".git").join("objects")) else { continue };
        let mut cache: gix_odb::Cache<gix_odb::Handle> = gix_odb::Cache::from(handle);
        if let Some(c) = make_send_cache(spec) {
            let spec_owned = spec.to_string();
            drop(c);
            cache = cache.with_pack_cache(move || make_send_cache(&spec_owned).expect("a known cache"));
        }
        let mut order: Vec<String> = Vec::new();
        for k in 0..versions {
            order.push(groups[0][k].0.clone());
            order.push(groups[1][k].0.clone());
        }
        let mut extra: Vec<String> = (0..ids.len() * 2).map(|_| ids[r.usize(ids.len())].clone()).collect();
        order.append(&mut extra);
        let mut buf = Vec::new();
        for idhex in &order {
            let id = gix_hash::ObjectId::from_hex(idhex.as_bytes()).expect("hex");
            let key = format!("multi-pack-index cache={spec} id={id}");
            rep.oracle_only(&key, true);
            rep.oracle_checked();
            rep.git_checked(1);
            use gix_object::Find;
            match catch(|| cache.try_find(&id, &mut buf).map(|o| o.map(|d| (d.kind, d.data.to_vec()))).map_err(|e| e.to_string())) {
                Ok(Ok(Some((k, d)))) => {
                    let (t, bytes) = &truth[&id];
                    if &k.to_string() != t || &d != bytes {
                        rep.oracle_failure(
                            &key,
                            &format!("two packs of a multi-pack index through one handle: try_find gives {k} with {} bytes (sha1 {}), git says {t} with {} bytes (sha1 {})", d.len(), sha1_hex(&d), bytes.len(), sha1_hex(bytes)),
                            &seedop,
                        );
                    }
                }
                other => rep.oracle_failure(&key, &format!("try_find: {:?}", other.map(|r| r.map(|o| o.map(|(k, d)| (k, d.len()))))), &seedop),
            }
        }
        rep.bucket("twin:multi-pack-index-handle");
    }
}

/// a delta whose copy instructions reach beyond 2^24 in the base: two near-identical blobs of 17 MiB
fn big_offset_delta(rep: &mut Report, r: &mut Rng, dir: &Path) {
    std::fs::create_dir_all(dir).expect("mkdir");
    git_ok(dir, &["init", "-q", "."], None);
    let n = 17 * 1024 * 1024 + r.usize(5000);
    let a = gen_bytes(0, r.u64(), n);
    let mut b = a.clone();
    // an insertion near the start (shifts everything), a change in the middle and one near the end
    let ins_len = 3 + r.usize(40);
    let ins = r.bytes(ins_len);
    b.splice(1000..1000, ins);
    for k in 0..16 {
        b[n / 2 + k] ^= 0x55;
        let l = b.len();
        b[l - 5000 + k] ^= 0xaa;
    }
    std::fs::write(dir.join("a"), &a).expect("write");
    std::fs::write(dir.join("b"), &b).expect("write");
    let paths = format!("{}\n{}\n", dir.join("a").display(), dir.join("b").display());
    let out = git_ok(dir, &["-c", "core.compression=0", "hash-object", "-w", "--stdin-paths"], Some(paths.as_bytes()));
    let objects: Vec<(String, String)> = out.lines().map(|id| (id.to_string(), "big.bin".to_string())).collect();
    let Some(pd) = pack_objects_at(dir, &objects, 10, 10, r.chance(1, 2), &dir.join("out-big"), true) else {
        rep.note("could not build the pack with the 17 MiB blobs");
        return;
    };
    // is there a copy instruction with the fourth offset byte?
    let mut inflate = gix_features::zlib::Inflate::default();
    let mut found = false;
    for (offset, _) in &pd.entries {
        let Ok(entry) = pd.pack.entry(*offset) else { continue };
        if !entry.header.is_delta() {
            continue;
        }
        let mut buf = vec![0u8; entry.decompressed_size as usize];
        if pd.pack.decompress_entry(&entry, &mut inflate, &mut buf).is_err() {
            continue;
        }
        // skip the two size headers, then walk the instructions
        let mut i = 0;
        for _ in 0..2 {
            while i < buf.len() && buf[i] & 0x80 != 0 {
                i += 1;
            }
            i += 1;
        }
        while i < buf.len() {
            let cmd = buf[i];
            i += 1;
            if cmd & 0x80 != 0 {
                if cmd & 0x08 != 0 {
                    found = true;
                }
                i += (cmd & 0x7f).count_ones() as usize;
            } else {
                i += cmd as usize;
            }
        }
    }
    rep.bucket(if found { "pack:copy-from-offset>=2^24" } else { "pack:NO-copy-from-offset>=2^24" });
    if !found {
        rep.note("the 17 MiB pair did not produce a copy instruction with a fourth offset byte");
    }
    let seedop = format!("packs {}", PACK_SEED.with(|s| s.get()));
    for spec in ["never", "static:64:0"] {
        let Some(AnyCache::Pack(mut cache)) = make_cache(spec) else { continue };
        let mut out = Vec::new();
        for (offset, id) in pd.entries.iter().chain(pd.entries.iter()) {
            let key = format!("big-offset-delta cache={spec} id={id}");
            rep.oracle_only(&key, true);
            rep.oracle_checked();
            rep.git_checked(1);
            match decode_one(&pd, *offset, &mut out, &mut inflate, cache.as_mut()) {
                Ok(Ok(o)) => {
                    let (t, bytes) = &pd.truth[id];
                    if &o.kind.to_string() != t || &out != bytes {
                        let first_diff = out.iter().zip(bytes.iter()).position(|(x, y)| x != y);
                        rep.oracle_failure(
                            &key,
                            &format!("decode_entry of a {}-byte blob (delta chain {}) differs from git cat-file: {} vs {} bytes, first difference at byte {:?}", bytes.len(), o.num_deltas, out.len(), bytes.len(), first_diff),
                            &seedop,
                        );
                    }
                }
                other => rep.oracle_failure(&key, &format!("decode_entry: {:?}", other.map(|r| r.map(|_| ()))), &seedop),
            }
        }
    }
}

fn main() {
    let args = Args::parse();
    let mut rep = Report::new("C08", &args);
    if let Some(ops) = replay_ops(&args) {
        for op in ops {
            let a: Vec<&str> = op.split(' ').collect();
            match a.as_slice() {
                ["cache", rest @ ..] if !rest.is_empty() => do_cache_op(&mut rep, &op, rest),
                ["decode", ..] => run_decode_line(&mut rep, &op, None),
                ["packs", seed] => {
                    let scratch = Scratch::new("c08");
                    pack_level(&mut rep, seed.parse().unwrap_or(1), false, 1, &scratch);
                }
                _ => rep.case(&op, "bad-op", false),
            }
        }
        rep.finish();
        return;
    }
    let mut r = Rng::new(args.seed);
    let scratch = Scratch::new("c08");

    // ---- cache level: corpus then random sequences ---------------------------------------------------------------
    let corpus = [
        "cache never p/1/616263/blob/3 g/1",
        "cache static:0:0 p/1/616263/blob/3 g/1",
        "cache static:1:0 p/1/616263/blob/3 g/1 p/2/61/tree/1 g/1 g/2",
        "cache static:1:0 p/1/616263/blob/3 p/1/6162/blob/2 g/1",
        "cache static:2:0 p/1/61/blob/1 p/2/62/blob/1 g/1 p/3/63/blob/1 g/2 g/1 g/3",
        "cache static:64:10 p/1/61/blob/1 p/2/61/blob/1 p/3/61/blob/1 g/1 g/2 g/3 p/4/61/blob/1 g/4",
        "cache static:64:100 p/1/61/blob/1 p/2/61/blob/1 p/3/61/blob/1 p/4/61/blob/1 p/5/61/blob/1 p/6/61/blob/1 p/7/61/blob/1 p/8/61/blob/1 p/9/61/blob/1 p/10/61/blob/1 p/11/61/blob/1 p/12/61/blob/1 p/13/61/blob/1 p/14/61/blob/1 g/1 g/14",
        "cache static:1:100 p/1/g0:1:30/blob/1 p/2/g0:2:30/blob/1 p/3/g0:3:31/blob/1 g/3 p/4/g0:4:31/blob/1 g/4 g/3",
        "cache static:64:5 p/1/g0:1:6/blob/1 g/1 p/1/g0:1:5/blob/1 g/1",
        "cache mem:1:0 p/1/-/blob/0 g/1 p/2/61/blob/1 g/2",
        "cache mem:10:0 p/1/g0:1:4/blob/1 p/2/g0:2:4/blob/1 g/1 g/2 p/1/g0:3:20/blob/1 g/1",
        "cache mem:60:52 p/1/g0:1:4/blob/0 g/1 p/2/g0:2:4/blob/0 g/1 g/2",
        "cache static:64:0 p/32768.12/6161/blob/2 p/98304.12/6262/tree/2 g/32768.12 g/98304.12 g/163840.12",
        "cache static:2:0 p/0.5/61/blob/1 p/65536.5/62/blob/1 g/0.5 g/65536.5 g/1.5",
        "cache static:64:0 p/2147483648.9/61/blob/1 p/0.9/62/tag/1 g/2147483648.9 g/0.9 p/4294967295.9/63/blob/1 g/4294967295.9 g/65535.9",
        "cache mem:1000:0 p/32768.12/6161/blob/2 p/98304.12/6262/tree/2 g/32768.12 g/98304.12",
        "cache mem:1000:52 p/32768.12/6161/blob/0 p/98304.12/6262/tree/0 g/32768.12 g/98304.12",
    ];
    for op in corpus {
        let a: Vec<&str> = op.split(' ').collect();
        do_cache_op(&mut rep, op, &a[1..]);
    }
    for _ in 0..args.budget(1200, 15000) {
        let op = gen_cache_line(&mut r);
        let a: Vec<&str> = op.split(' ').collect();
        do_cache_op(&mut rep, &op, &a[1..]);
    }
    for op in ["cache", "cache bogus g/1", "cache static:x:0 g/1", "cache mem:0:0 g/1", "cache never x/1", "decode", "decode never 1", "nonsense"] {
        let a: Vec<&str> = op.split(' ').collect();
        match a.as_slice() {
            ["cache", rest @ ..] if !rest.is_empty() => do_cache_op(&mut rep, op, rest),
            _ => rep.case(op, "bad-op", false),
        }
    }

    pack_level(&mut rep, args.seed, args.thorough, args.scale, &scratch);
    rep.finish();
}
