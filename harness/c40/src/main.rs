//! C40 — path names git refuses to write are refused.
//!
//! Correspondence ops (real gix-validate vs the Lean model):
//!   component W H N S HEX   -> ok | err:<Kind>        (W,H,N = protect_windows/hfs/ntfs, S = symlink mode)
//!   device HEX              -> device | no            (component_is_windows_device)
//!   git N H S HEX           -> accept | refuse        (git BINARY vs the Lean transcription of verify_path)
//! Oracle (independent of the model): git's verdict for the name under core.protectNTFS=N,
//! core.protectHFS=H and a regular/symlink mode; whenever git refuses, gix must refuse for
//! protect_ntfs=N, protect_hfs=H and BOTH values of protect_windows.
use bstr::ByteSlice;
use hcommon::*;
use std::collections::{HashMap, HashSet};
use std::os::unix::ffi::OsStrExt as _;

fn opts(w: bool, h: bool, n: bool) -> gix_validate::path::component::Options {
    gix_validate::path::component::Options {
        protect_windows: w,
        protect_hfs: h,
        protect_ntfs: n,
    }
}

fn kind(e: &gix_validate::path::component::Error) -> &'static str {
    use gix_validate::path::component::Error::*;
    match e {
        Empty => "Empty",
        DotOrDotDot => "DotOrDotDot",
        PathSeparator => "PathSeparator",
        WindowsPathPrefix => "WindowsPathPrefix",
        WindowsReservedName => "WindowsReservedName",
        WindowsIllegalCharacter => "WindowsIllegalCharacter",
        DotGitDir => "DotGitDir",
        SymlinkedGitModules => "SymlinkedGitModules",
    }
}

fn gix(name: &[u8], w: bool, h: bool, n: bool, s: bool) -> String {
    let mode = s.then_some(gix_validate::path::component::Mode::Symlink);
    match catch(|| gix_validate::path::component(name.as_bstr(), mode, opts(w, h, n)).map(|_| ()).map_err(|e| kind(&e))) {
        Ok(Ok(())) => "ok".into(),
        Ok(Err(k)) => format!("err:{k}"),
        Err(_) => "panic".into(),
    }
}

/// an in-memory object database holding literal trees
#[derive(Default)]
struct Mem {
    objects: HashMap<gix_hash::ObjectId, (gix_object::Kind, Vec<u8>)>,
}

impl Mem {
    fn insert(&mut self, kind: gix_object::Kind, data: Vec<u8>) -> gix_hash::ObjectId {
        let id = gix_object::compute_hash(gix_hash::Kind::Sha1, kind, &data);
        self.objects.insert(id, (kind, data));
        id
    }
    /// a tree object with exactly the given raw entries (mode is written as given, not canonicalised)
    fn tree(&mut self, entries: &[(u32, &[u8], gix_hash::ObjectId)]) -> gix_hash::ObjectId {
        let mut data = Vec::new();
        for (mode, name, id) in entries {
            data.extend_from_slice(format!("{:o} ", mode).as_bytes());
            data.extend_from_slice(name);
            data.push(0);
            data.extend_from_slice(id.as_bytes());
        }
        self.insert(gix_object::Kind::Tree, data)
    }
}

impl gix_object::Find for Mem {
    fn try_find<'a>(
        &self,
        id: &gix_hash::oid,
        buffer: &'a mut Vec<u8>,
    ) -> Result<Option<gix_object::Data<'a>>, gix_object::find::Error> {
        Ok(self.objects.get(id).map(|(kind, data)| {
            buffer.clear();
            buffer.extend_from_slice(data);
            gix_object::Data { kind: *kind, data: buffer }
        }))
    }
}

/// `gix_index::State::from_tree` on a tree whose only hostile entry is (mode, name), at the root or
/// below the directory "d"; a tree-mode entry points to a tree with the single blob "x"
fn from_tree(name: &[u8], mode: u32, depth: u32, w: bool, h: bool, n: bool) -> String {
    let mut db = Mem::default();
    let blob = db.insert(gix_object::Kind::Blob, b"hi\n".to_vec());
    let target = if mode & 0o170000 == 0o040000 {
        db.tree(&[(0o100644, b"x", blob)])
    } else {
        blob
    };
    let mut root = db.tree(&[(mode, name, target)]);
    if depth == 1 {
        root = db.tree(&[(0o040000, b"d", root)]);
    }
    match catch(|| gix_index::State::from_tree(&root, &db, opts(w, h, n)).map(|s| s.entries().len())) {
        Ok(Ok(_)) => "ok".into(),
        Ok(Err(gix_index::init::from_tree::Error::InvalidComponent { source, .. })) => format!("err:{}", kind(&source)),
        Ok(Err(e)) => format!("err:other:{}", e.to_string().replace(['\n', '\t'], " ")),
        Err(_) => "panic".into(),
    }
}

/// `gix_worktree::Stack::at_entry(name, Some(mode))` configured for checkout: the validation in
/// `StackDelegate::push`
fn stack_push(stack: &mut gix_worktree::Stack, db: &Mem, name: &[u8], s: bool) -> String {
    let mode = if s { gix_index::entry::Mode::SYMLINK } else { gix_index::entry::Mode::FILE };
    // a path that is current already is not pushed (and not validated) again: move away first, as a
    // checkout does when it goes from one index entry to the next
    let _ = stack.at_entry(b"0".as_bstr(), Some(gix_index::entry::Mode::FILE), db);
    match catch(std::panic::AssertUnwindSafe(|| stack.at_entry(name.as_bstr(), Some(mode), db).map(|_| ()))) {
        Ok(Ok(())) => "ok".into(),
        Ok(Err(e)) => match e.get_ref().and_then(|i| i.downcast_ref::<gix_validate::path::component::Error>()) {
            Some(ce) => format!("err:{}", kind(ce)),
            None => format!("err:other:{}", e.to_string().replace(['\n', '\t'], " ")),
        },
        Err(_) => "panic".into(),
    }
}

fn b01(b: bool) -> &'static str {
    if b {
        "1"
    } else {
        "0"
    }
}

/// The git binary as oracle. Key: (ntfs, hfs, symlink, path) -> accepted.
struct Git {
    scratch: Scratch,
    oid: String,
    cache: HashMap<(bool, bool, bool, Vec<u8>), bool>,
    processes: u64,
    batched: u64,
    direct: u64,
}

impl Git {
    fn new() -> Git {
        let scratch = Scratch::new("c40");
        git_ok(&scratch.path, &["init", "-q", "wt"], None);
        let wt = scratch.join("wt");
        let oid = git_ok(&wt, &["hash-object", "-w", "--stdin"], Some(b"hi\n"));
        Git {
            scratch,
            oid,
            cache: HashMap::new(),
            processes: 2,
            batched: 0,
            direct: 0,
        }
    }
    fn wt(&self) -> std::path::PathBuf {
        self.scratch.join("wt")
    }
    /// the documented oracle: `git update-index --add --cacheinfo <mode>,<oid>,<path>` (one process per path)
    fn cacheinfo(&mut self, n: bool, h: bool, s: bool, path: &[u8]) {
        if path.contains(&0) || self.cache.contains_key(&(n, h, s, path.to_vec())) {
            return;
        }
        let _ = std::fs::remove_file(self.wt().join(".git/index"));
        let mut arg: Vec<u8> = format!("{},{},", if s { "120000" } else { "100644" }, self.oid).into_bytes();
        arg.extend_from_slice(path);
        let mut c = git_cmd(&self.wt());
        c.arg("-c")
            .arg(format!("core.protectNTFS={n}"))
            .arg("-c")
            .arg(format!("core.protectHFS={h}"))
            .args(["update-index", "--add", "--cacheinfo"])
            .arg(std::ffi::OsStr::from_bytes(&arg))
            .stdin(std::process::Stdio::null());
        let out = c.output().expect("run git");
        self.processes += 1;
        self.direct += 1;
        let err = String::from_utf8_lossy(&out.stderr).to_string();
        let acc = if out.status.success() {
            true
        } else {
            assert!(
                err.contains("Invalid path") || err.contains("invalid path"),
                "git update-index --cacheinfo failed for another reason on {}: {err}",
                hex(path)
            );
            false
        };
        self.cache.insert((n, h, s, path.to_vec()), acc);
    }
    /// can the name go through `git update-index -z --stdin`? (that route normalises the path first:
    /// no '/', not "." / "..", and the refusal is reported on a line of its own)
    fn batchable(name: &[u8]) -> bool {
        !name.is_empty() && !name.contains(&0) && !name.contains(&b'/') && !name.contains(&b'\n') && name != b"." && name != b".."
    }
    /// names that can exist as a symlink in the scratch worktree
    fn linkable(name: &[u8]) -> bool {
        Self::batchable(name) && name.len() <= 255 && name != b".git"
    }
    fn batch(&mut self, names: &[Vec<u8>]) {
        let mut regular: Vec<&Vec<u8>> = names.iter().filter(|n| Self::batchable(n)).collect();
        regular.sort();
        regular.dedup();
        let mut links: Vec<&Vec<u8>> = regular.iter().copied().filter(|n| Self::linkable(n)).collect();
        // create the symlinks once
        let wt = self.wt();
        links.retain(|n| {
            let p = wt.join(std::ffi::OsStr::from_bytes(n));
            p.symlink_metadata().is_ok() || std::os::unix::fs::symlink("target", &p).is_ok()
        });
        for n in [false, true] {
            for h in [false, true] {
                for s in [false, true] {
                    let set: &Vec<&Vec<u8>> = if s { &links } else { &regular };
                    let todo: Vec<&Vec<u8>> = set
                        .iter()
                        .copied()
                        .filter(|p| !self.cache.contains_key(&(n, h, s, p.to_vec())))
                        .collect();
                    if todo.is_empty() {
                        continue;
                    }
                    let _ = std::fs::remove_file(wt.join(".git/index"));
                    let mut stdin: Vec<u8> = Vec::new();
                    for p in &todo {
                        stdin.extend_from_slice(p);
                        stdin.push(0);
                    }
                    let pn = format!("core.protectNTFS={n}");
                    let ph = format!("core.protectHFS={h}");
                    let mut args: Vec<&str> = vec!["-c", &pn, "-c", &ph, "update-index"];
                    if s {
                        args.extend(["--add", "--info-only"]);
                    } else {
                        args.push("--force-remove");
                    }
                    args.extend(["-z", "--stdin"]);
                    let o = git(&wt, &args, Some(&stdin));
                    self.processes += 1;
                    assert!(o.ok, "git update-index --stdin failed: {}", String::from_utf8_lossy(&o.stderr));
                    let mut refused: HashSet<&[u8]> = HashSet::new();
                    for line in o.stderr.split(|b| *b == b'\n') {
                        if let Some(p) = line.strip_prefix(b"Ignoring path ") {
                            refused.insert(p);
                        }
                    }
                    for p in todo {
                        self.cache.insert((n, h, s, p.to_vec()), !refused.contains(&p[..]));
                        self.batched += 1;
                    }
                }
            }
        }
    }
    /// `git read-tree` of a literal one-entry tree (written with `hash-object --literally`, so the
    /// mode is stored as given): does git refuse to put (mode, name) into the index?
    fn read_tree(&mut self, n: bool, h: bool, mode: u32, name: &[u8]) -> bool {
        let mut data = format!("{:o} ", mode).into_bytes();
        data.extend_from_slice(name);
        data.push(0);
        data.extend_from_slice(&unhex(&self.oid).expect("oid"));
        let wt = self.wt();
        let tree = git_ok(&wt, &["hash-object", "-t", "tree", "-w", "--stdin", "--literally"], Some(&data));
        let _ = std::fs::remove_file(wt.join(".git/index"));
        let pn = format!("core.protectNTFS={n}");
        let ph = format!("core.protectHFS={h}");
        let o = git(&wt, &["-c", &pn, "-c", &ph, "read-tree", &tree], None);
        self.processes += 2;
        self.direct += 1;
        if !o.ok {
            let err = String::from_utf8_lossy(&o.stderr);
            assert!(err.contains("invalid path"), "git read-tree failed for another reason: {err}");
        }
        o.ok
    }
    fn get(&self, n: bool, h: bool, s: bool, p: &[u8]) -> Option<bool> {
        self.cache.get(&(n, h, s, p.to_vec())).copied()
    }
}

fn utf8(cp: u32) -> Vec<u8> {
    let mut b = [0u8; 4];
    char::from_u32(cp).expect("scalar").encode_utf8(&mut b).as_bytes().to_vec()
}

const IGNORABLE: &[u32] = &[
    0x200c, 0x200d, 0x200e, 0x200f, 0x202a, 0x202b, 0x202c, 0x202d, 0x202e, 0x206a, 0x206b, 0x206c, 0x206d, 0x206e, 0x206f, 0xfeff,
];
/// neighbours of the ignorable code points that are NOT ignorable
const NEAR: &[u32] = &[0x200b, 0x2010, 0x2029, 0x202f, 0x2069, 0x2070, 0xfefe, 0xfffd, 0xe9, 0x1f600, 0x131];
const MALFORMED: &[&[u8]] = &[b"\xff", b"\x80", b"\xe2\x80", b"\xe2", b"\xef\xbf\xbe", b"\xef\xbf\xbf", b"\xed\xa0\x80", b"\xc0\xae", b"\xf4\x90\x80\x80", b"\xf0\x9f"];
const SEEDS: &[&[u8]] = &[
    b".git", b".gitmodules", b"git~1", b"gitmod~1", b"gitmod~2", b"gitmod~3", b"gitmod~4", b"gitmod~5", b"gi7eba~1", b"gi7eb~12",
    b"gi7e~123", b"gi7~1234", b"g~123456", b"~1234567", b"gi7eba~9", b"gi7eba~0", b"gi7d29~1", b"git~2", b"git~", b".gi", b".gitmodule",
    b".gitattributes", b".gitignore", b"gitmodules", b"GI7EBA~1",
];
const SUFFIX: &[&[u8]] = &[b" ", b".", b":", b":stream", b"::$INDEX_ALLOCATION", b"x", b"\\", b"\\x", b"/x", b"  ", b"..", b" .", b":$DATA"];
const DEVICES: &[&[u8]] = &[b"aux", b"nul", b"prn", b"con", b"com1", b"com9", b"com0", b"lpt0", b"lpt1", b"lpt9", b"conin$", b"conout$", b"com", b"lpt", b"conin", b"co", b"coM10"];
const DEVSUF: &[&[u8]] = &[b"", b" ", b".", b":", b".txt", b" .x", b"x", b"  :a", b"1", b"$"];
const ALPHA: &[u8] = b".gitGIT~1234mod:\\/ \x7f\x01<>|?*\"\xe2\x80\x8cxA";

fn flip_case(r: &mut Rng, v: &mut [u8]) {
    for b in v.iter_mut() {
        if b.is_ascii_alphabetic() && r.chance(1, 3) {
            *b ^= 0x20;
        }
    }
}

fn gen_name(r: &mut Rng) -> (Vec<u8>, &'static str) {
    match r.below(12) {
        0..=2 => {
            // a seed with case flips and NTFS-style suffixes
            let mut v = r.pick(SEEDS).to_vec();
            flip_case(r, &mut v);
            for _ in 0..r.below(4) {
                let s: &[u8] = *r.pick(SUFFIX);
                v.extend_from_slice(s);
            }
            if r.chance(1, 6) {
                let mut p: Vec<u8> = r.pick(&[&b"a\\"[..], b"\\", b"x", b"a\\b\\", b" "]).to_vec();
                p.extend_from_slice(&v);
                v = p;
            }
            (v, "ntfs-family")
        }
        3..=5 => {
            // a seed with code points inserted anywhere
            let mut v = r.pick(&SEEDS[..2]).to_vec();
            flip_case(r, &mut v);
            let mut out = Vec::new();
            let mut bucket = "hfs-ignorable";
            for i in 0..=v.len() {
                match r.below(12) {
                    0..=3 => out.extend(utf8(*r.pick(IGNORABLE))),
                    4 => {
                        out.extend(utf8(*r.pick(NEAR)));
                        bucket = "hfs-near-miss";
                    }
                    5 if r.chance(1, 2) => {
                        let m: &[u8] = *r.pick(MALFORMED);
                        out.extend_from_slice(m);
                        bucket = "hfs-malformed";
                    }
                    _ => {}
                }
                if i < v.len() {
                    out.push(v[i]);
                }
            }
            if r.chance(1, 8) {
                let s: &[u8] = *r.pick(SUFFIX);
                out.extend_from_slice(s);
            }
            (out, bucket)
        }
        6..=7 => {
            let mut v = r.pick(DEVICES).to_vec();
            flip_case(r, &mut v);
            let s: &[u8] = *r.pick(DEVSUF);
            v.extend_from_slice(s);
            if r.chance(1, 4) {
                let s: &[u8] = *r.pick(DEVSUF);
                v.extend_from_slice(s);
            }
            (v, "device-family")
        }
        8 => {
            // harmless names
            let v = r.pick(&[&b"README.md"[..], b"src", b"a.git", b"gitx", b".github", b"Makefile", b"\xe4\xbd\xa0\xe5\xa5\xbd", b"a b", b"x~1", b".gitkeep"]).to_vec();
            (v, "harmless")
        }
        9..=10 => {
            let n = 1 + r.usize(9);
            ((0..n).map(|_| *r.pick(ALPHA)).collect(), "random-alpha")
        }
        _ => {
            let n = 1 + r.usize(8);
            (r.bytes(n).into_iter().map(|b| if b == 0 { b'g' } else { b }).collect(), "random-bytes")
        }
    }
}

fn corpus() -> Vec<Vec<u8>> {
    let mut v: Vec<Vec<u8>> = Vec::new();
    for s in SEEDS {
        v.push(s.to_vec());
        v.push(s.to_ascii_uppercase());
        for suf in SUFFIX {
            let mut t = s.to_vec();
            t.extend_from_slice(suf);
            v.push(t);
        }
    }
    // an ignorable code point at every position of ".git" / ".gitmodules"
    for seed in &SEEDS[..2] {
        for cp in IGNORABLE.iter().chain(NEAR) {
            for pos in 0..=seed.len() {
                let mut t = seed[..pos].to_vec();
                t.extend(utf8(*cp));
                t.extend_from_slice(&seed[pos..]);
                v.push(t);
            }
        }
        for m in MALFORMED {
            for pos in [0, 1, seed.len()] {
                let mut t = seed[..pos].to_vec();
                t.extend_from_slice(m);
                t.extend_from_slice(&seed[pos..]);
                v.push(t);
            }
        }
    }
    for d in DEVICES {
        for s in DEVSUF {
            let mut t = d.to_vec();
            t.extend_from_slice(s);
            v.push(t.clone());
            v.push(t.to_ascii_uppercase());
        }
    }
    for s in [
        &b""[..], b".", b"..", b"...", b". ", b".x", b"a", b"/", b"a/b", b"a/.git", b".git/x", b"a/../b", b"a//b", b"a/", b"\\", b"\\.git", b"a\\.git",
        b"a\\\\.git", b"a\\git~1", b"a\\.gitmodules", b"a\\gitmod~1", b".git\\hooks\\pre-commit", b"c:", b"c:x", b"\xd6\x8d:", b"\xe2\x82:", b"a:",
        b"a<", b"a\x01", b"a.", b"a ", b"a\n", b"a\nb", b".git\n", b"x\x7f", b"\xff", b".git\xff", b".git\xe2\x80\x8c", b".git\xe2\x80\x8c\xff", b".GIT", b".Git ", b".git.", b".git x",
    ] {
        v.push(s.to_vec());
    }
    v
}

/// a handful of (path, ntfs, hfs, symlink) judged by `--cacheinfo` (the documented oracle command)
const DIRECT: &[(&[u8], bool, bool, bool)] = &[
    (b".", false, false, false),
    (b"..", true, true, false),
    (b"", false, false, false),
    (b".git", false, false, false),
    (b".gitmodules", false, false, true),
    (b".gitmodules", false, false, false),
    (b"a\\.git", true, false, false),
    (b"a\\.git", false, false, false),
    (b"\\.git", true, false, false),
    (b".git\\x", true, false, false),
    (b"git~1 .:x", true, false, false),
    (b".g\xe2\x80\x8cit", false, true, false),
    (b".git\xff", false, true, false),
    (b".gitmodules\xe2\x80\x8d", false, true, true),
    (b"gitmod~4 .", true, false, true),
    (b"gi7eba~1", true, false, true),
    (b"a/.git", false, false, false),
    (b"a/b", true, true, false),
    (b"a/../b", false, false, false),
    (b"a//b", false, false, false),
    (b"a/", false, false, false),
    (b"/a", false, false, false),
    (b"a/x\\.git", true, false, false),
    (b"a/.gitmodules", false, false, true),
    (b"a/\\git~1", true, false, false),
    (b"a\nb", true, true, false),
    (b".git\n", true, false, false),
    (b"com1", true, true, false),
];

fn strictly_valid_utf8(n: &[u8]) -> bool {
    match std::str::from_utf8(n) {
        Ok(s) => !s.chars().any(|c| c == '\u{fffe}' || c == '\u{ffff}'),
        Err(_) => false,
    }
}

/// the longest prefix that git's decoder reads without hitting a malformed sequence
fn valid_prefix(n: &[u8]) -> &[u8] {
    let mut end = match std::str::from_utf8(n) {
        Ok(_) => n.len(),
        Err(e) => e.valid_up_to(),
    };
    let s = std::str::from_utf8(&n[..end]).expect("valid prefix");
    if let Some((i, _)) = s.char_indices().find(|(_, c)| *c == '\u{fffe}' || *c == '\u{ffff}') {
        end = i;
    }
    &n[..end]
}

/// is a "git refuses, gitoxide accepts" case one of the two recorded families? (decided with git's
/// own verdicts, independently of the model)
fn classify(git: &Git, name: &[u8], w: bool, h: bool, n: bool, s: bool) -> Option<String> {
    let replaced: Vec<u8> = name.iter().map(|b| if *b == b'\\' { b'x' } else { *b }).collect();
    if !w && n && name.contains(&b'\\') && git.get(n, h, s, &replaced) == Some(true) {
        Some("ntfs-backslash-separator".to_string())
    } else if h && !strictly_valid_utf8(name) && gix(valid_prefix(name), w, h, n, s) != "ok" {
        Some("hfs-malformed-utf8-terminator".to_string())
    } else {
        None
    }
}

fn main() {
    let args = Args::parse();
    let mut rep = Report::new("C40", &args);
    let mut r = Rng::new(args.seed);
    let mut git = Git::new();
    let mut names: Vec<(Vec<u8>, &'static str)> = Vec::new();
    if let Some(ops) = replay_ops(&args) {
        for op in &ops {
            if let Some(h) = op.split(' ').last().and_then(unhex) {
                names.push((h, "replay"));
            }
        }
    } else {
        for n in corpus() {
            names.push((n, "corpus"));
        }
        for (n, _, _, _) in DIRECT {
            names.push((n.to_vec(), "corpus"));
        }
        if args.thorough {
            // exhaustive: every string of length <= 5 over nine bytes that spell the NTFS family
            let sub: &[u8] = b".gGit~1:\\";
            let mut cur: Vec<Vec<u8>> = vec![vec![]];
            for _ in 0..5 {
                let mut next = Vec::with_capacity(cur.len() * sub.len());
                for s in &cur {
                    for c in sub {
                        let mut t = s.clone();
                        t.push(*c);
                        next.push(t);
                    }
                }
                for t in &next {
                    names.push((t.clone(), "exhaustive-len<=5"));
                }
                cur = next;
            }
        }
        for _ in 0..args.budget(4_000, 40_000) {
            names.push(gen_name(&mut r));
        }
    }
    let mut seen = HashSet::new();
    names.retain(|(n, _)| seen.insert(n.clone()));

    // ---- git ---------------------------------------------------------------------------------
    for (p, n, h, s) in DIRECT {
        git.cacheinfo(*n, *h, *s, p);
    }
    if args.replay.is_some() {
        for (n, _) in names.iter().filter(|(n, _)| !Git::batchable(n)).take(20) {
            for (nt, h, s) in [(true, true, false), (false, false, true)] {
                git.cacheinfo(nt, h, s, n);
            }
        }
    }
    let mut q: Vec<Vec<u8>> = Vec::new();
    for (n, _) in &names {
        q.push(n.clone());
        if n.contains(&b'\\') {
            q.push(n.iter().map(|b| if *b == b'\\' { b'x' } else { *b }).collect());
        }
    }
    git.batch(&q);
    rep.git_checked(git.batched + git.direct);
    rep.note(&format!(
        "git processes: {} ({} verdicts from `update-index --add --cacheinfo`, {} from `update-index -z --stdin` batches)",
        git.processes, git.direct, git.batched
    ));
    // git's own view of non-canonical entry modes: a literal tree read into the index
    for (mode, name, n, h) in [
        (0o120777u32, &b".gitmodules"[..], false, false),
        (0o120644, b".gitmodules", false, false),
        (0o100664, b".gitmodules", false, false),
        (0o120777, b".GITMODULES", true, true),
        (0o120644, b"gitmod~1", true, false),
        (0o120777, b"x", true, true),
        (0o100755, b".git", false, false),
    ] {
        let acc = git.read_tree(n, h, mode, name);
        rep.case(
            &format!("gittree {} {} {:o} {}", b01(n), b01(h), mode, hex(name)),
            if acc { "accept" } else { "refuse" },
            true,
        );
    }
    // tie of the Lean transcription of verify_path to the git binary
    let mut cached: Vec<(&(bool, bool, bool, Vec<u8>), &bool)> = git.cache.iter().collect();
    cached.sort();
    for ((n, h, s, p), acc) in cached {
        rep.case(
            &format!("git {} {} {} {}", b01(*n), b01(*h), b01(*s), hex(p)),
            if *acc { "accept" } else { "refuse" },
            false,
        );
    }

    // ---- the real code and the property ------------------------------------------------------
    let empty_db = Mem::default();
    let empty_index = gix_index::State::new(gix_hash::Kind::Sha1);
    let stack_root = git.scratch.join("stack-root");
    std::fs::create_dir_all(&stack_root).expect("stack root");
    let mut stacks: Vec<gix_worktree::Stack> = (0..8)
        .map(|i| {
            gix_worktree::Stack::from_state_and_ignore_case(
                stack_root.clone(),
                false,
                gix_worktree::stack::State::for_checkout(false, opts(i & 1 != 0, i & 2 != 0, i & 4 != 0), Default::default()),
                &empty_index,
                empty_index.path_backing(),
            )
        })
        .collect();
    let mut name_index = 0usize;
    for (name, bucket) in &names {
        let hx = hex(name);
        rep.bucket(bucket);
        let dev = catch(|| gix_validate::path::component_is_windows_device(name.as_bstr())).unwrap_or(false);
        rep.case(&format!("device {hx}"), if dev { "device" } else { "no" }, true);
        let mut any_git_refusal = false;
        for s in [false, true] {
            for n in [false, true] {
                for h in [false, true] {
                    let mut obs = [String::new(), String::new()];
                    for w in [false, true] {
                        let o = gix(name, w, h, n, s);
                        rep.case(&format!("component {} {} {} {} {hx}", b01(w), b01(h), b01(n), b01(s)), &o, true);
                        if o == "panic" {
                            rep.oracle_failure(&format!("panic:{hx}"), "component() panicked", &format!("component {} {} {} {} {hx}", b01(w), b01(h), b01(n), b01(s)));
                        }
                        obs[w as usize] = o;
                    }
                    if name.contains(&0) {
                        continue; // not a C string: no verdict from git
                    }
                    let Some(git_ok) = git.get(n, h, s, name) else { continue };
                    rep.oracle_checked();
                    if git_ok {
                        if obs[0] != "ok" {
                            rep.bucket("gix-stricter-than-git(not judged)");
                        }
                        continue;
                    }
                    any_git_refusal = true;
                    for w in [false, true] {
                        if obs[w as usize] != "ok" {
                            continue;
                        }
                        // git refuses, gitoxide accepts: which family?
                        let key = classify(&git, name, w, h, n, s).unwrap_or_else(|| format!("accepted:{hx}"));
                        rep.oracle_failure(
                            &key,
                            &format!(
                                "git (core.protectNTFS={n} core.protectHFS={h}, {}) refuses {:?} but component(protect_windows={w}, protect_hfs={h}, protect_ntfs={n}) accepts it",
                                if s { "symlink" } else { "regular file" },
                                name.as_bstr()
                            ),
                            &format!("component {} {} {} {} {hx}", b01(w), b01(h), b01(n), b01(s)),
                        );
                    }
                }
            }
        }
        // ---- the callers that choose the mode: index-from-tree and the checkout stack ----------
        if !name.is_empty() && !name.contains(&0) && !name.contains(&b'/') {
            name_index += 1;
            const LINKS: [u32; 3] = [0o120000, 0o120777, 0o120644];
            const OTHERS: [u32; 8] = [0o100644, 0o100755, 0o100664, 0o100600, 0o160000, 0o040000, 0o140000, 0o100777];
            // the first corpus names (the ".git"/".gitmodules"/short-name seeds with every suffix) meet every
            // mode at both depths; later names a rotating selection that always contains a link mode
            let full = name_index <= 400;
            let modes: Vec<u32> = if full {
                LINKS.iter().chain(OTHERS.iter()).copied().collect()
            } else {
                vec![LINKS[name_index % 3], OTHERS[name_index % 8], OTHERS[(name_index / 8 + 3) % 8]]
            };
            let depths: Vec<u32> = if full { vec![0, 1] } else { vec![(name_index % 2) as u32] };
            for (mode, depth) in modes.iter().flat_map(|m| depths.iter().map(move |d| (*m, *d))) {
                let s = mode & 0o170000 == 0o120000; // git's S_ISLNK
                for n in [false, true] {
                    for h in [false, true] {
                        for w in [false, true] {
                            let op = format!("fromtree {} {} {} {depth} {:o} {hx}", b01(w), b01(h), b01(n), mode);
                            let o = from_tree(name, mode, depth, w, h, n);
                            rep.case(&op, &o, true);
                            rep.bucket(if o == "ok" { "from_tree:ok" } else { "from_tree:refused" });
                            if o == "panic" || o.starts_with("err:other") {
                                rep.oracle_failure(&format!("from-tree-broken:{:o}:{hx}", mode), &format!("State::from_tree -> {o}"), &op);
                            }
                            if o == "ok" && git.get(n, h, s, name) == Some(false) {
                                rep.oracle_checked();
                                let key = classify(&git, name, w, h, n, s).unwrap_or_else(|| format!("from-tree-accepted:{:o}:{hx}", mode));
                                rep.oracle_failure(
                                    &key,
                                    &format!(
                                        "git (core.protectNTFS={n} core.protectHFS={h}) refuses the tree entry {:o} {:?} but State::from_tree(protect_windows={w}, protect_hfs={h}, protect_ntfs={n}) builds an index with it",
                                        mode,
                                        name.as_bstr()
                                    ),
                                    &op,
                                );
                            }
                        }
                    }
                }
            }
            if name != b"." && name != b".." {
                for s in [false, true] {
                    for (i, stack) in stacks.iter_mut().enumerate() {
                        let (w, h, n) = (i & 1 != 0, i & 2 != 0, i & 4 != 0);
                        let op = format!("stack {} {} {} {} {hx}", b01(w), b01(h), b01(n), b01(s));
                        let o = stack_push(stack, &empty_db, name, s);
                        rep.case(&op, &o, true);
                        if o == "panic" || o.starts_with("err:other") {
                            rep.oracle_failure(&format!("stack-broken:{hx}"), &format!("Stack::at_entry -> {o}"), &op);
                        }
                        if o == "ok" && git.get(n, h, s, name) == Some(false) {
                            rep.oracle_checked();
                            let key = classify(&git, name, w, h, n, s).unwrap_or_else(|| format!("stack-accepted:{hx}"));
                            rep.oracle_failure(
                                &key,
                                &format!(
                                    "git (core.protectNTFS={n} core.protectHFS={h}, {}) refuses {:?} but the checkout stack (protect_windows={w}, protect_hfs={h}, protect_ntfs={n}) accepts it",
                                    if s { "symlink" } else { "regular file" },
                                    name.as_bstr()
                                ),
                                &op,
                            );
                        }
                    }
                }
            }
        }
        rep.bucket(if any_git_refusal { "git:refuses-under-some-options" } else { "git:accepts-always" });
    }
    rep.finish();
}
