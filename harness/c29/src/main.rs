//! C29 — packet-line framing: encoders, `decode::{hex_prefix,streaming}`, the blocking
//! `StreamingPeekableIter` over a reader that splits the stream arbitrarily, `WithSidebands`,
//! `Writer`. Every case is an op line (so a replay file re-runs exactly the same thing):
//!
//!   enc <data|text|err|band1|band2|band3> <bytes>      the `*_to_write` encoders
//!   ctl <F|D|R>                                        flush/delim/response_end_to_write
//!   hp <bytes>                                         decode::hex_prefix
//!   st <stream>                                        decode::streaming
//!   ln <text|cerr|band> <bytes>                        PacketLineRef::Data(bytes).{as_text,check_error,decode_band}
//!   rd <failOnErr> <delims> <chunks> <script> <stream> StreamingPeekableIter; script: r=read_line p=peek_line *=read to end
//!   sb <handler> <delims> <chunks> <reads> <stream>    WithSidebands::read with the given buffer sizes
//!   sbc <handler> <delims> <chunks> <calls> <stream>   WithSidebands calls: f=fill_buf c<amt>=consume r<n>=read
//!                                                      <handler>: 0 none, 1 always Continue, i<k> Interrupt at call k
//!   wr <bin|text> <bytes>                              Writer::write_all
//!
//! <bytes>  = hex | `-` | `x<count>:<hexpattern>` (pattern repeated to count bytes)
//! <stream> = `+`-joined parts, each <bytes> (raw) or a line written by the REAL encoder:
//!            F D R  d.<bytes> t.<bytes> e.<bytes> 1.<bytes> 2.<bytes> 3.<bytes>
use gix_packetline::{decode, encode, read::ProgressAction, Channel, PacketLineRef, StreamingPeekableIter};
use hcommon::*;
use std::cell::RefCell;
use std::io::{self, BufRead, Read, Write};

const MAX_DATA_LEN: usize = 65516;

thread_local! {
    /// set by the progress handlers when they answer `Interrupt`; a call during which that happened must fail
    static INTERRUPTED: std::cell::Cell<bool> = const { std::cell::Cell::new(false) };
    static IGNORED_INTERRUPT: std::cell::Cell<bool> = const { std::cell::Cell::new(false) };
}

fn note_call_result(ok: bool) {
    if INTERRUPTED.with(|f| f.replace(false)) && ok {
        IGNORED_INTERRUPT.with(|f| f.set(true));
    }
}

fn fnv64(bs: &[u8]) -> u64 {
    let mut h: u64 = 0xcbf29ce484222325;
    for b in bs {
        h ^= *b as u64;
        h = h.wrapping_mul(0x100000001b3);
    }
    h
}

/// canonical rendering of a byte string: hex up to 64 bytes, else length and FNV-1a
fn bobs(bs: &[u8]) -> String {
    if bs.len() <= 64 {
        hex(bs)
    } else {
        format!("{}:{:016x}", bs.len(), fnv64(bs))
    }
}

fn parse_bytes(s: &str) -> Option<Vec<u8>> {
    if let Some(rest) = s.strip_prefix('x') {
        let (n, pat) = rest.split_once(':')?;
        let n: usize = n.parse().ok()?;
        let pat = unhex(pat)?;
        if pat.is_empty() {
            return None;
        }
        return Some((0..n).map(|i| pat[i % pat.len()]).collect());
    }
    unhex(s)
}

#[derive(Clone, Debug, PartialEq)]
enum Item {
    Flush,
    Delim,
    ResponseEnd,
    /// what `decode` must give back for a line written by an encoder
    Data(Vec<u8>),
}

#[derive(Clone, Debug)]
enum Part {
    Raw(Vec<u8>),
    Ctl(Item),
    /// encoder kind (d t e 1 2 3) and its argument
    Enc(char, Vec<u8>),
}

fn parse_part(p: &str) -> Option<Part> {
    match p {
        "F" => return Some(Part::Ctl(Item::Flush)),
        "D" => return Some(Part::Ctl(Item::Delim)),
        "R" => return Some(Part::Ctl(Item::ResponseEnd)),
        _ => {}
    }
    if p.len() >= 2 && p.as_bytes()[1] == b'.' {
        let k = p.as_bytes()[0] as char;
        if "dte123".contains(k) {
            return Some(Part::Enc(k, parse_bytes(&p[2..])?));
        }
        return None;
    }
    Some(Part::Raw(parse_bytes(p)?))
}

fn real_encode(kind: char, d: &[u8], out: &mut Vec<u8>) -> io::Result<usize> {
    match kind {
        'd' => encode::data_to_write(d, out),
        't' => encode::text_to_write(d, out),
        'e' => encode::error_to_write(d, out),
        '1' => encode::band_to_write(Channel::Data, d, out),
        '2' => encode::band_to_write(Channel::Progress, d, out),
        '3' => encode::band_to_write(Channel::Error, d, out),
        _ => unreachable!(),
    }
}

/// payload the decoder must return for a line written by encoder `kind`
fn payload_of(kind: char, d: &[u8]) -> Vec<u8> {
    let mut v = Vec::new();
    match kind {
        'e' => v.extend_from_slice(b"ERR "),
        '1' => v.push(1),
        '2' => v.push(2),
        '3' => v.push(3),
        _ => {}
    }
    v.extend_from_slice(d);
    if kind == 't' {
        v.push(b'\n');
    }
    v
}

/// the stream bytes, and — when every part is a line written by an encoder — the lines
fn parse_stream(s: &str) -> Option<(Vec<u8>, Option<Vec<(Part, Item)>>)> {
    let mut bytes = Vec::new();
    let mut items = Some(Vec::new());
    for p in s.split('+') {
        let part = parse_part(p)?;
        match &part {
            Part::Raw(b) => {
                bytes.extend_from_slice(b);
                if !b.is_empty() {
                    items = None;
                }
            }
            Part::Ctl(i) => {
                match i {
                    Item::Flush => encode::flush_to_write(&mut bytes),
                    Item::Delim => encode::delim_to_write(&mut bytes),
                    Item::ResponseEnd => encode::response_end_to_write(&mut bytes),
                    Item::Data(_) => unreachable!(),
                }
                .expect("write to vec");
                if let Some(v) = items.as_mut() {
                    v.push((part.clone(), i.clone()));
                }
            }
            Part::Enc(k, d) => {
                // a line the encoder refuses contributes nothing (the model does the same)
                if real_encode(*k, d, &mut bytes).is_ok() {
                    if let Some(v) = items.as_mut() {
                        v.push((part.clone(), Item::Data(payload_of(*k, d))));
                    }
                }
            }
        }
    }
    Some((bytes, items))
}

/// A reader handing out `data` in chunks of the given sizes (cyclically); a `read` never crosses a
/// chunk boundary and returns `Ok(0)` only at the end of the data.
struct Chunked {
    data: Vec<u8>,
    pos: usize,
    sizes: Vec<usize>,
    next: usize,
    left_in_chunk: usize,
}

impl Chunked {
    fn new(data: Vec<u8>, sizes: &[usize]) -> Self {
        Chunked {
            data,
            pos: 0,
            sizes: sizes.to_vec(),
            next: 0,
            left_in_chunk: 0,
        }
    }
    fn remaining(&self) -> usize {
        self.data.len() - self.pos
    }
}

impl Read for Chunked {
    fn read(&mut self, buf: &mut [u8]) -> io::Result<usize> {
        if self.pos == self.data.len() || buf.is_empty() {
            return Ok(0);
        }
        if self.left_in_chunk == 0 {
            self.left_in_chunk = self.sizes[self.next % self.sizes.len()];
            self.next += 1;
        }
        let n = buf.len().min(self.left_in_chunk).min(self.data.len() - self.pos);
        buf[..n].copy_from_slice(&self.data[self.pos..self.pos + n]);
        self.pos += n;
        self.left_in_chunk -= n;
        if self.pos == self.data.len() {
            self.left_in_chunk = 0;
        }
        Ok(n)
    }
}

fn line_obs(l: &PacketLineRef<'_>) -> String {
    match l {
        PacketLineRef::Flush => "F".into(),
        PacketLineRef::Delimiter => "D".into(),
        PacketLineRef::ResponseEnd => "R".into(),
        PacketLineRef::Data(d) => format!("d:{}", bobs(d)),
    }
}

fn item_obs(i: &Item) -> String {
    match i {
        Item::Flush => "F".into(),
        Item::Delim => "D".into(),
        Item::ResponseEnd => "R".into(),
        Item::Data(d) => format!("d:{}", bobs(d)),
    }
}

fn derr_obs(e: &decode::Error) -> String {
    match e {
        decode::Error::HexDecode { .. } => "hex".into(),
        decode::Error::DataLengthLimitExceeded { length_in_bytes } => format!("toolong:{length_in_bytes}"),
        decode::Error::DataIsEmpty => "empty".into(),
        decode::Error::InvalidLineLength => "len3".into(),
        decode::Error::NotEnoughData { bytes_needed } => format!("need:{bytes_needed}"),
        decode::Error::Line { .. } => "line".into(),
    }
}

fn io_obs(e: &io::Error) -> String {
    match e.get_ref() {
        None if e.kind() == io::ErrorKind::UnexpectedEof => "io:eof".into(),
        None => format!("io:other:{:?}", e.kind()),
        Some(inner) => {
            if let Some(l) = inner.downcast_ref::<gix_packetline::read::Error>() {
                format!("io:errline:{}", bobs(&l.message))
            } else if let Some(d) = inner.downcast_ref::<decode::Error>() {
                format!("dec:{}", derr_obs(d))
            } else if let Some(b) = inner.downcast_ref::<decode::band::Error>() {
                match b {
                    decode::band::Error::NonDataLine => "band:nondata".into(),
                    decode::band::Error::InvalidSideBand { band_id } => format!("band:invalid:{band_id}"),
                }
            } else if e.kind() == io::ErrorKind::UnexpectedEof {
                "notdataline".into()
            } else if let Some(enc) = inner.downcast_ref::<encode::Error>() {
                match enc {
                    encode::Error::DataLengthLimitExceeded { length_in_bytes } => format!("err:toolong:{length_in_bytes}"),
                    encode::Error::DataIsEmpty => "err:empty".into(),
                }
            } else if inner.to_string() == "interrupted by user" {
                "interrupted".into()
            } else {
                format!("io:custom:{}", inner)
            }
        }
    }
}

fn res_obs(r: &Option<io::Result<Result<PacketLineRef<'_>, decode::Error>>>) -> String {
    match r {
        None => "none".into(),
        Some(Err(e)) => io_obs(e),
        Some(Ok(Err(e))) => format!("err:{}", derr_obs(e)),
        Some(Ok(Ok(l))) => format!("l:{}", line_obs(l)),
    }
}

fn terminal(obs: &str) -> bool {
    obs == "none" || obs.starts_with("io:") || obs == "panic"
}

fn parse_delims(s: &str) -> Option<&'static [PacketLineRef<'static>]> {
    const F: PacketLineRef<'static> = PacketLineRef::Flush;
    const D: PacketLineRef<'static> = PacketLineRef::Delimiter;
    const R: PacketLineRef<'static> = PacketLineRef::ResponseEnd;
    Some(match s {
        "-" => &[],
        "F" => &[F],
        "D" => &[D],
        "R" => &[R],
        "FD" => &[F, D],
        "DF" => &[D, F],
        "FR" => &[F, R],
        "FDR" => &[F, D, R],
        "DR" => &[D, R],
        _ => return None,
    })
}

fn parse_sizes(s: &str) -> Option<Vec<usize>> {
    let v: Option<Vec<usize>> = s.split(',').map(|x| x.parse().ok().filter(|n| *n > 0)).collect();
    v.filter(|v| !v.is_empty())
}

fn fnv_key(s: &str) -> String {
    format!("{:016x}", fnv64(s.as_bytes()))
}

// ---------------------------------------------------------------------------------------------
// ops

fn op_enc(rep: &mut Report, op: &str, kind: &str, d: &[u8]) {
    let k = match kind {
        "data" => 'd',
        "text" => 't',
        "err" => 'e',
        "band1" => '1',
        "band2" => '2',
        "band3" => '3',
        _ => return,
    };
    let mut out = Vec::new();
    let r = catch(|| real_encode(k, d, &mut out));
    let obs = match &r {
        Err(_) => "panic".to_string(),
        Ok(Err(e)) => io_obs(e),
        Ok(Ok(n)) => format!("ok {} {}", n, bobs(&out)),
    };
    rep.case(op, &obs, true);
    rep.bucket(&format!(
        "enc:{kind}:{}",
        match &r {
            Ok(Ok(_)) => {
                if d.len() >= 65000 {
                    "ok-near-max"
                } else if d.len() <= 5 {
                    "ok-tiny"
                } else {
                    "ok"
                }
            }
            Ok(Err(_)) => "rejected",
            Err(_) => "panic",
        }
    ));
    // oracle: what is written decodes back to the same line, consuming exactly what was written
    rep.oracle_checked();
    let key = format!("enc-roundtrip kind={kind} len={}", d.len());
    let payload = payload_of(k, d);
    match r {
        Err(msg) => rep.oracle_failure(&format!("enc-panic kind={kind} len={}", d.len()), &msg, op),
        Ok(Err(_)) => {
            let must_reject = payload.len() > MAX_DATA_LEN || d.is_empty();
            if !must_reject {
                rep.oracle_failure(&key, "encoder rejected a line that fits (non-empty, payload <= 65516 bytes)", op);
            }
            if !out.is_empty() {
                rep.oracle_failure(&key, "encoder failed but wrote bytes", op);
            }
        }
        Ok(Ok(n)) => {
            if n != out.len() {
                rep.oracle_failure(&key, &format!("returned {n} but wrote {} bytes", out.len()), op);
            }
            let mut with_rest = out.clone();
            with_rest.extend_from_slice(b"0000junk");
            match catch(|| decode::streaming(&with_rest).map(|s| match s {
                decode::Stream::Complete { line, bytes_consumed } => Some((line.as_slice().map(<[u8]>::to_vec), bytes_consumed)),
                decode::Stream::Incomplete { .. } => None,
            })) {
                Ok(Ok(Some((Some(got), consumed)))) if got == payload && consumed == out.len() => {}
                other => rep.oracle_failure(
                    &key,
                    &format!("streaming(write(x) ++ rest) is not Complete(Data(x), written): {:?}", other.map(|r| r.map(|o| o.map(|(d, c)| (d.map(|d| bobs(&d)), c))).map_err(|e| e.to_string()))),
                    op,
                ),
            }
            match catch(|| gix_packetline::decode(&out).map(|l| l.as_slice().map(<[u8]>::to_vec))) {
                Ok(Ok(Some(got))) if got == payload => {}
                _ => rep.oracle_failure(&key, "decode(write(x)) != Data(x)", op),
            }
            // the typed view comes back too
            let line = PacketLineRef::Data(&payload);
            let typed_ok = match k {
                'd' => true,
                't' => catch(|| line.as_text().map(|t| t.0.to_vec())).ok().flatten().as_deref() == Some(d),
                'e' => line.check_error().map(|e| e.0.to_vec()).as_deref() == Some(d),
                _ => match catch(|| line.decode_band()) {
                    Ok(Ok(gix_packetline::BandRef::Data(x))) => k == '1' && x == d,
                    Ok(Ok(gix_packetline::BandRef::Progress(x))) => k == '2' && x == d,
                    Ok(Ok(gix_packetline::BandRef::Error(x))) => k == '3' && x == d,
                    _ => false,
                },
            };
            if !typed_ok {
                rep.oracle_failure(&key, "typed accessor (as_text / check_error / decode_band) does not give the written value back", op);
            }
        }
    }
}

fn op_ctl(rep: &mut Report, op: &str, kind: &str) {
    let mut out = Vec::new();
    let (r, want) = match kind {
        "F" => (encode::flush_to_write(&mut out), PacketLineRef::Flush),
        "D" => (encode::delim_to_write(&mut out), PacketLineRef::Delimiter),
        "R" => (encode::response_end_to_write(&mut out), PacketLineRef::ResponseEnd),
        _ => return,
    };
    let obs = match &r {
        Ok(n) => format!("ok {} {}", n, bobs(&out)),
        Err(e) => io_obs(e),
    };
    rep.case(op, &obs, true);
    rep.bucket("ctl");
    rep.oracle_checked();
    let mut with_rest = out.clone();
    with_rest.extend_from_slice(b"ffff");
    match decode::streaming(&with_rest) {
        Ok(decode::Stream::Complete { line, bytes_consumed }) if line == want && bytes_consumed == out.len() && r.ok() == Some(out.len()) => {}
        _ => rep.oracle_failure(&format!("ctl-roundtrip {kind}"), "control line does not decode back to itself", op),
    }
}

fn op_hp(rep: &mut Report, op: &str, four: &[u8]) {
    let r = catch(|| decode::hex_prefix(four).map(|p| match p {
        decode::PacketLineOrWantedSize::Line(l) => format!("line:{}", line_obs(&l)),
        decode::PacketLineOrWantedSize::Wanted(n) => format!("want:{n}"),
    }));
    let obs = match &r {
        Err(_) => "panic".to_string(),
        Ok(Err(e)) => format!("err:{}", derr_obs(e)),
        Ok(Ok(s)) => s.clone(),
    };
    rep.case(op, &obs, true);
    let class = obs.split(':').next().unwrap_or("").to_string();
    rep.bucket(&format!("hp:{class}{}", if four.len() != 4 { ":not4" } else { "" }));
    rep.oracle_checked();
    if four.len() != 4 {
        rep.outside_domain("hex_prefix called with other than 4 bytes (debug_assert in the callee; callers always pass 4)");
        return;
    }
    if r.is_err() {
        rep.oracle_failure(&format!("hex-prefix-panic {}", hex(four)), "decode::hex_prefix panicked on a 4-byte prefix", op);
        return;
    }
    // independent reading of the prefix
    let val = std::str::from_utf8(four)
        .ok()
        .filter(|s| s.bytes().all(|b| b.is_ascii_hexdigit()))
        .and_then(|s| u16::from_str_radix(s, 16).ok());
    let want = match val {
        None => "err:hex".to_string(),
        Some(0) => "line:F".into(),
        Some(1) => "line:D".into(),
        Some(2) => "line:R".into(),
        Some(3) => "err:len3".into(),
        Some(4) => "err:empty".into(),
        Some(n) => format!("want:{}", n - 4),
    };
    if want != obs {
        rep.oracle_failure(&format!("hex-prefix-value {}", hex(four)), &format!("hex_prefix gives {obs}, the prefix means {want}"), op);
    }
}

fn op_st(rep: &mut Report, op: &str, data: &[u8]) {
    let r = catch(|| decode::streaming(data).map(|s| match s {
        decode::Stream::Complete { line, bytes_consumed } => format!("complete {} {}", line_obs(&line), bytes_consumed),
        decode::Stream::Incomplete { bytes_needed } => format!("incomplete {bytes_needed}"),
    }));
    let obs = match &r {
        Err(_) => "panic".to_string(),
        Ok(Err(e)) => format!("err:{}", derr_obs(e)),
        Ok(Ok(s)) => s.clone(),
    };
    rep.case(op, &obs, true);
    rep.bucket(&format!("st:{}", obs.split([' ', ':']).next().unwrap_or("")));
    rep.oracle_checked();
    if r.is_err() {
        rep.oracle_failure(&format!("streaming-panic first4={}", hex(&data[..data.len().min(4)])), "decode::streaming panicked", op);
    }
}

fn op_ln(rep: &mut Report, op: &str, what: &str, d: &[u8]) {
    let line = PacketLineRef::Data(d);
    let obs = match what {
        "text" => match catch(|| line.as_text().map(|t| t.0.to_vec())) {
            Err(_) => "panic".to_string(),
            Ok(None) => "notdata".into(),
            Ok(Some(t)) => format!("text:{}", bobs(&t)),
        },
        "cerr" => match line.check_error() {
            None => "none".to_string(),
            Some(e) => format!("some:{}", bobs(e.0)),
        },
        "band" => match catch(|| line.decode_band()) {
            Err(_) => "panic".to_string(),
            Ok(Err(decode::band::Error::NonDataLine)) => "nondata".into(),
            Ok(Err(decode::band::Error::InvalidSideBand { band_id })) => format!("invalid:{band_id}"),
            Ok(Ok(gix_packetline::BandRef::Data(x))) => format!("band1:{}", bobs(x)),
            Ok(Ok(gix_packetline::BandRef::Progress(x))) => format!("band2:{}", bobs(x)),
            Ok(Ok(gix_packetline::BandRef::Error(x))) => format!("band3:{}", bobs(x)),
        },
        _ => return,
    };
    rep.case(op, &obs, true);
    rep.bucket(&format!("ln:{what}:{}", obs.split(':').next().unwrap_or("")));
    if obs == "panic" {
        if d.is_empty() {
            rep.outside_domain("as_text/decode_band on a hand-made empty Data line panics (the decoder never produces one)");
        } else {
            rep.oracle_failure(&format!("line-accessor-panic {what} {}", bobs(d)), "accessor panicked on a non-empty data line", op);
        }
    }
}

struct RdRun {
    results: Vec<String>,
    stop: String,
    left: String,
}

fn run_reader(stream: &[u8], fail: bool, delims: &'static [PacketLineRef<'static>], sizes: &[usize], script: &str) -> RdRun {
    let results = RefCell::new(Vec::<String>::new());
    let r = catch(|| {
        let mut rd = StreamingPeekableIter::new(Chunked::new(stream.to_vec(), sizes), delims, false);
        rd.fail_on_err_lines(fail);
        for ch in script.chars() {
            match ch {
                'r' => {
                    let o = res_obs(&rd.read_line());
                    results.borrow_mut().push(o);
                }
                'p' => {
                    let o = res_obs(&rd.peek_line());
                    results.borrow_mut().push(format!("p{o}"));
                }
                _ => {
                    // every non-terminal call consumes at least 4 bytes or the peeked line
                    for _ in 0..stream.len() + 2 {
                        let o = res_obs(&rd.read_line());
                        let t = terminal(&o);
                        results.borrow_mut().push(o);
                        if t {
                            break;
                        }
                    }
                }
            }
        }
        let stop = match rd.stopped_at() {
            None => "-".to_string(),
            Some(l) => line_obs(&l),
        };
        (stop, rd.into_inner().remaining().to_string())
    });
    let mut results = results.into_inner();
    match r {
        Ok((stop, left)) => RdRun { results, stop, left },
        Err(_) => {
            results.push("panic".into());
            RdRun {
                results,
                stop: "!".into(),
                left: "!".into(),
            }
        }
    }
}

fn rd_obs(r: &RdRun) -> String {
    format!("{} stop={} left={}", r.results.join("|"), r.stop, r.left)
}

/// What a script of calls over exactly these written lines must return (the property's statement,
/// spelled out independently of the model): lines come back unchanged and in order; `peek_line`
/// shows the next line without consuming it; the first delimiter ends the iteration (`None`) and
/// is reported by `stopped_at`; with `fail_on_err_lines` an `ERR ` line ends it with an error;
/// after the last line the reader reports EOF.
fn expected_script(items: &[(Part, Item)], fail: bool, delims: &'static [PacketLineRef<'static>], script: &str) -> (Vec<String>, String) {
    struct St<'a> {
        items: &'a [(Part, Item)],
        idx: usize,
        done: bool,
        peeked: Option<String>,
        stop: String,
    }
    fn next(st: &mut St<'_>, fail: bool, delims: &'static [PacketLineRef<'static>]) -> String {
        let Some((_, it)) = st.items.get(st.idx) else {
            st.stop = "-".into();
            return "io:eof".into();
        };
        st.idx += 1;
        st.stop = "-".into();
        let as_ref = match it {
            Item::Flush => PacketLineRef::Flush,
            Item::Delim => PacketLineRef::Delimiter,
            Item::ResponseEnd => PacketLineRef::ResponseEnd,
            Item::Data(d) => PacketLineRef::Data(d),
        };
        if delims.iter().any(|d| *d == as_ref) {
            st.done = true;
            st.stop = item_obs(it);
            return "none".into();
        }
        if let (true, Item::Data(d)) = (fail, it) {
            if d.starts_with(b"ERR ") {
                st.done = true;
                return format!("io:errline:{}", bobs(&d[4..]));
            }
        }
        format!("l:{}", item_obs(it))
    }
    fn read(st: &mut St<'_>, fail: bool, delims: &'static [PacketLineRef<'static>]) -> String {
        if st.done {
            return "none".into();
        }
        if let Some(p) = st.peeked.take() {
            return p;
        }
        next(st, fail, delims)
    }
    let mut st = St {
        items,
        idx: 0,
        done: false,
        peeked: None,
        stop: "-".into(),
    };
    let mut out = Vec::new();
    for ch in script.chars() {
        match ch {
            'r' => out.push(read(&mut st, fail, delims)),
            'p' => {
                let x = if st.done {
                    "none".to_string()
                } else if let Some(p) = &st.peeked {
                    p.clone()
                } else {
                    let x = next(&mut st, fail, delims);
                    if x.starts_with("l:") {
                        st.peeked = Some(x.clone());
                    }
                    x
                };
                out.push(format!("p{x}"));
            }
            _ => loop {
                let x = read(&mut st, fail, delims);
                let t = terminal(&x);
                out.push(x);
                if t {
                    break;
                }
            },
        }
    }
    (out, st.stop)
}

fn op_rd(rep: &mut Report, op: &str, a: &[&str]) -> Option<()> {
    let fail = match a[0] {
        "1" => true,
        "0" => false,
        _ => return None,
    };
    let delims = parse_delims(a[1])?;
    let sizes = parse_sizes(a[2])?;
    let script = a[3];
    if !script.chars().all(|c| "rp*".contains(c)) {
        return None;
    }
    let (stream, items) = parse_stream(a[4])?;
    let run = run_reader(&stream, fail, delims, &sizes, script);
    let obs = rd_obs(&run);
    rep.case(op, &obs, true);
    let last = run.results.last().cloned().unwrap_or_default();
    rep.bucket(&format!(
        "rd:{}:chunks{}:{}",
        if items.is_some() { "written" } else { "raw" },
        if sizes == [1] { "=1" } else if sizes.iter().all(|s| *s < 8) { "<8" } else { ">=8" },
        last.split(':').take(2).collect::<Vec<_>>().join(":")
    ));
    rep.oracle_checked();
    if run.stop == "!" {
        rep.oracle_failure(
            &format!("read-line-panic first4={}", hex(&stream[..stream.len().min(4)])),
            &format!("StreamingPeekableIter panicked instead of returning an error; calls so far: {}", run.results.join("|")),
            op,
        );
        return Some(());
    }
    // the same bytes handed over in one piece must read the same
    let whole = run_reader(&stream, fail, delims, &[stream.len().max(1)], script);
    if rd_obs(&whole) != obs {
        rep.oracle_failure(
            &format!("chunking-dependence {}", fnv_key(op)),
            &format!("chunks {:?} read as [{}], one chunk reads as [{}]", sizes, obs, rd_obs(&whole)),
            op,
        );
    }
    // lines written by the encoders come back unchanged, in order
    if let Some(items) = &items {
        let (want, stop) = expected_script(items, fail, delims, script);
        if want != run.results || stop != run.stop {
            rep.oracle_failure(
                &format!("lines-roundtrip {}", fnv_key(op)),
                &format!("wrote [{}] (stop {stop}) but read [{}] (stop {})", want.join("|"), run.results.join("|"), run.stop),
                op,
            );
        }
    }
    Some(())
}

struct SbRun {
    data: Vec<u8>,
    log: Vec<(bool, Vec<u8>)>,
    end: String,
    stop: String,
    left: String,
}

fn drive<T: Read, F: FnMut(bool, &[u8]) -> ProgressAction>(
    mut reader: gix_packetline::read::WithSidebands<'_, T, F>,
    reads: &[usize],
    max_calls: usize,
    out: &RefCell<Vec<u8>>,
) -> (String, String) {
    let mut end = "sizes".to_string();
    for i in 0..max_calls {
        let mut buf = vec![0u8; reads[i % reads.len()]];
        let res = reader.read(&mut buf);
        note_call_result(res.is_ok());
        match res {
            Ok(0) => {
                end = "eof".into();
                break;
            }
            Ok(n) => out.borrow_mut().extend_from_slice(&buf[..n]),
            Err(e) => {
                end = format!("err:{}", io_obs(&e));
                break;
            }
        }
    }
    let stop = match reader.stopped_at() {
        None => "-".to_string(),
        Some(l) => line_obs(&l),
    };
    (end, stop)
}

fn parse_handler(s: &str) -> Option<(bool, Option<usize>)> {
    match s {
        "0" => Some((false, None)),
        "1" => Some((true, None)),
        _ => Some((true, Some(s.strip_prefix('i')?.parse().ok()?))),
    }
}

fn run_sb(stream: &[u8], handler: (bool, Option<usize>), delims: &'static [PacketLineRef<'static>], sizes: &[usize], reads: &[usize]) -> SbRun {
    let (handler, intr) = handler;
    let out = RefCell::new(Vec::new());
    let log = RefCell::new(Vec::new());
    let r = catch(|| {
        let mut rd = StreamingPeekableIter::new(Chunked::new(stream.to_vec(), sizes), delims, false);
        let max_calls = stream.len() + 2;
        let (end, stop) = if handler {
            let h = |is_err: bool, text: &[u8]| {
                let n = log.borrow().len();
                log.borrow_mut().push((is_err, text.to_vec()));
                if Some(n) == intr {
                    INTERRUPTED.with(|f| f.set(true));
                    ProgressAction::Interrupt
                } else {
                    ProgressAction::Continue
                }
            };
            drive(rd.as_read_with_sidebands(h), reads, max_calls, &out)
        } else {
            drive(rd.as_read(), reads, max_calls, &out)
        };
        (end, stop, rd.into_inner().remaining().to_string())
    });
    let (end, stop, left) = r.unwrap_or_else(|_| ("panic".into(), "!".into(), "!".into()));
    SbRun {
        data: out.into_inner(),
        log: log.into_inner(),
        end,
        stop,
        left,
    }
}

fn sb_obs(r: &SbRun) -> String {
    let prog: Vec<String> = r
        .log
        .iter()
        .map(|(e, t)| format!("{}:{}", if *e { "e" } else { "p" }, bobs(t)))
        .collect();
    format!("data={} prog=[{}] end={} stop={} left={}", bobs(&r.data), prog.join(","), r.end, r.stop, r.left)
}

fn op_sb(rep: &mut Report, op: &str, a: &[&str]) -> Option<()> {
    let hspec = parse_handler(a[0])?;
    let handler = hspec.0;
    let delims = parse_delims(a[1])?;
    let sizes = parse_sizes(a[2])?;
    let reads = parse_sizes(a[3])?;
    let (stream, items) = parse_stream(a[4])?;
    let run = run_sb(&stream, hspec, delims, &sizes, &reads);
    let obs = sb_obs(&run);
    rep.case(op, &obs, true);
    rep.bucket(&format!(
        "sb:{}:{}:{}",
        if handler { "bands" } else { "plain" },
        if items.is_some() { "written" } else { "raw" },
        run.end.split(':').take(3).collect::<Vec<_>>().join(":")
    ));
    rep.oracle_checked();
    if IGNORED_INTERRUPT.with(|f| f.replace(false)) {
        rep.oracle_failure(
            &format!("interrupt-ignored {}", fnv_key(op)),
            &format!("the progress handler answered Interrupt but the read call succeeded: {obs}"),
            op,
        );
    }
    INTERRUPTED.with(|f| f.set(false));
    if run.end == "panic" {
        rep.oracle_failure(
            &format!("sideband-panic {}", if stream.len() <= 16 { hex(&stream) } else { fnv_key(op) }),
            &format!("WithSidebands::read panicked; delivered so far: {}", obs),
            op,
        );
        return Some(());
    }
    // independent of chunking and of the caller's buffer sizes
    let whole = run_sb(&stream, hspec, delims, &[stream.len().max(1)], &[1 << 17]);
    if (&whole.data, &whole.log, &whole.end, &whole.stop, &whole.left) != (&run.data, &run.log, &run.end, &run.stop, &run.left) {
        rep.oracle_failure(
            &format!("sideband-chunking-dependence {}", fnv_key(op)),
            &format!("[{}] vs one chunk / one big read [{}]", obs, sb_obs(&whole)),
            op,
        );
    }
    // written bands: data concatenated, progress / error texts in order, up to the first flush
    if let (Some(items), true) = (&items, handler && hspec.1.is_none() && a[1] == "F") {
        let mut data = Vec::new();
        let mut log = Vec::new();
        let mut well_formed = true;
        let mut stopped = false;
        for (part, it) in items {
            match (part, it) {
                (_, Item::Flush) => {
                    stopped = true;
                    break;
                }
                (Part::Enc('1', d), _) => data.extend_from_slice(d),
                (Part::Enc(k @ ('2' | '3'), d), _) => {
                    let t = if d.last() == Some(&b'\n') { &d[..d.len() - 1] } else { &d[..] };
                    log.push((*k == '3', t.to_vec()));
                }
                _ => {
                    well_formed = false;
                    break;
                }
            }
        }
        if well_formed && stopped && (data != run.data || log != run.log || run.end != "eof" || run.stop != "F") {
            rep.oracle_failure(
                &format!("sideband-demux {}", fnv_key(op)),
                &format!("expected data={} and {} progress messages then eof at the flush, got {}", bobs(&data), log.len(), obs),
                op,
            );
        }
    }
    Some(())
}

#[derive(Clone, Copy)]
enum SbCall {
    Fill,
    Consume(usize),
    Read(usize),
    PeekData,
    ReadData,
    ReadString,
}

fn parse_sb_calls(s: &str) -> Option<Vec<SbCall>> {
    s.split(',')
        .map(|x| {
            if x == "p" {
                Some(SbCall::PeekData)
            } else if x == "l" {
                Some(SbCall::ReadData)
            } else if x == "s" {
                Some(SbCall::ReadString)
            } else if x == "f" {
                Some(SbCall::Fill)
            } else if let Some(n) = x.strip_prefix('c') {
                Some(SbCall::Consume(n.parse().ok()?))
            } else if let Some(n) = x.strip_prefix('r') {
                Some(SbCall::Read(n.parse().ok()?))
            } else {
                None
            }
        })
        .collect()
}

fn drive_calls<T: Read, F: FnMut(bool, &[u8]) -> ProgressAction>(
    mut reader: gix_packetline::read::WithSidebands<'_, T, F>,
    calls: &[SbCall],
    obs: &RefCell<Vec<String>>,
) {
    for c in calls {
        let o = match *c {
            SbCall::Fill => match reader.fill_buf() {
                Ok(b) => {
                    note_call_result(true);
                    format!("b:{}", bobs(b))
                }
                Err(e) => {
                    note_call_result(false);
                    format!("err:{}", io_obs(&e))
                }
            },
            SbCall::Consume(n) => {
                reader.consume(n);
                "c".to_string()
            }
            SbCall::PeekData => match reader.peek_data_line() {
                None => "[none]".to_string(),
                Some(Err(e)) => format!("[{}]", io_obs(&e)),
                Some(Ok(Err(e))) => format!("[err:{}]", derr_obs(&e)),
                Some(Ok(Ok(d))) => format!("[l:d:{}]", bobs(d)),
            },
            SbCall::ReadData => format!("[{}]", res_obs(&reader.read_data_line())),
            SbCall::ReadString => {
                let mut st = String::new();
                let res = reader.read_line_to_string(&mut st);
                note_call_result(res.is_ok());
                match res {
                    Ok(n) if n == st.len() => format!("b:{}", bobs(st.as_bytes())),
                    Ok(n) => format!("b:{}:returned-{n}", bobs(st.as_bytes())),
                    Err(e) => {
                        if e.get_ref().map_or(false, |i| i.is::<std::str::Utf8Error>()) {
                            "err:utf8".to_string()
                        } else {
                            format!("err:{}", io_obs(&e))
                        }
                    }
                }
            }
            SbCall::Read(n) => {
                let mut buf = vec![0u8; n];
                let res = reader.read(&mut buf);
                note_call_result(res.is_ok());
                match res {
                    Ok(k) => format!("b:{}", bobs(&buf[..k])),
                    Err(e) => format!("err:{}", io_obs(&e)),
                }
            }
        };
        obs.borrow_mut().push(o);
    }
}

fn op_sbc(rep: &mut Report, op: &str, a: &[&str]) -> Option<()> {
    let (handler, intr) = parse_handler(a[0])?;
    let delims = parse_delims(a[1])?;
    let sizes = parse_sizes(a[2])?;
    let calls = parse_sb_calls(a[3])?;
    let (stream, _) = parse_stream(a[4])?;
    let obs = RefCell::new(Vec::new());
    let log = RefCell::new(Vec::<(bool, Vec<u8>)>::new());
    let r = catch(|| {
        let mut rd = StreamingPeekableIter::new(Chunked::new(stream.clone(), &sizes), delims, false);
        if handler {
            let h = |is_err: bool, text: &[u8]| {
                let n = log.borrow().len();
                log.borrow_mut().push((is_err, text.to_vec()));
                if Some(n) == intr {
                    INTERRUPTED.with(|f| f.set(true));
                    ProgressAction::Interrupt
                } else {
                    ProgressAction::Continue
                }
            };
            drive_calls(rd.as_read_with_sidebands(h), &calls, &obs)
        } else {
            drive_calls(rd.as_read(), &calls, &obs)
        }
    });
    let mut obs = obs.into_inner();
    if r.is_err() {
        obs.push("panic".into());
    }
    let prog: Vec<String> = log
        .into_inner()
        .iter()
        .map(|(e, t)| format!("{}:{}", if *e { "e" } else { "p" }, bobs(t)))
        .collect();
    rep.case(op, &format!("{} prog=[{}]", obs.join("|"), prog.join(",")), true);
    // caller contracts: consume() amounts, and the line-wise calls assert that nothing is buffered
    // (`cap == 0`): that fails after fill_buf/read, and after a read_line_to_string that hit invalid UTF-8
    let mut legal = calls.iter().all(|c| !matches!(c, SbCall::Consume(n) if *n as u64 > u64::MAX - 65536));
    if r.is_err() {
        let at = obs.len() - 1; // the call that panicked
        let mut buffered = false;
        for (i, c) in calls.iter().enumerate().take(at) {
            match c {
                SbCall::Fill | SbCall::Read(_) => buffered = true,
                SbCall::ReadString => buffered = obs.get(i).map_or(false, |o| o.starts_with("err:")),
                _ => {}
            }
        }
        if buffered && matches!(calls.get(at), Some(SbCall::ReadData | SbCall::ReadString)) {
            legal = false;
        }
    }
    rep.bucket(&format!(
        "sbc:{}:{}:{}",
        if handler { if intr.is_some() { "interrupting" } else { "bands" } } else { "plain" },
        if legal { "legal" } else { "contract-violated" },
        if r.is_err() { "panic" } else { "ok" }
    ));
    rep.oracle_checked();
    if IGNORED_INTERRUPT.with(|f| f.replace(false)) {
        rep.oracle_failure(
            &format!("interrupt-ignored {}", fnv_key(op)),
            &format!("the progress handler answered Interrupt but the call succeeded: {}", obs.join("|")),
            op,
        );
    }
    INTERRUPTED.with(|f| f.set(false));
    if r.is_err() {
        if legal {
            rep.oracle_failure(
                &format!("sideband-panic {}", fnv_key(op)),
                &format!("WithSidebands panicked although every consume() amount is legal; calls so far: {}", obs.join("|")),
                op,
            );
        } else {
            rep.outside_domain("caller contract violated: consume() near usize::MAX overflows pos + amt, or read_data_line/read_line_to_string called while a line is buffered (assert cap == 0)");
        }
    }
    Some(())
}

fn op_wr(rep: &mut Report, op: &str, mode: &str, d: &[u8]) -> Option<()> {
    let binary = match mode {
        "bin" => true,
        "text" => false,
        _ => return None,
    };
    let mut out = Vec::new();
    let r = catch(|| {
        let mut w = gix_packetline::Writer::new(&mut out);
        if !binary {
            w.enable_text_mode();
        }
        w.write_all(d).is_ok()
    });
    let obs = match r {
        Err(_) => "panic".to_string(),
        Ok(true) => format!("ok {}", bobs(&out)),
        Ok(false) => format!("err {}", bobs(&out)),
    };
    rep.case(op, &obs, true);
    rep.bucket(&format!("wr:{mode}:{}", obs.split(' ').next().unwrap_or("")));
    rep.oracle_checked();
    match r {
        Err(msg) => rep.oracle_failure(&format!("writer-panic {mode} len={}", d.len()), &msg, op),
        Ok(false) => {}
        Ok(true) => {
            // reading the lines back gives the written bytes
            let mut back = Vec::new();
            let mut rest = &out[..];
            let mut ok = true;
            while !rest.is_empty() {
                match decode::streaming(rest) {
                    Ok(decode::Stream::Complete {
                        line: PacketLineRef::Data(p),
                        bytes_consumed,
                    }) => {
                        let p = if binary { p } else { p.strip_suffix(b"\n").unwrap_or(p) };
                        back.extend_from_slice(p);
                        rest = &rest[bytes_consumed..];
                    }
                    _ => {
                        ok = false;
                        break;
                    }
                }
            }
            if !ok || back != d {
                rep.oracle_failure(&format!("writer-roundtrip {mode} len={}", d.len()), "lines written by Writer do not decode back to the input", op);
            }
        }
    }
    Some(())
}

fn run_op(rep: &mut Report, op: &str) {
    let a: Vec<&str> = op.split(' ').collect();
    let done = (|| -> Option<()> {
        match (a[0], a.len()) {
            ("enc", 3) => op_enc(rep, op, a[1], &parse_bytes(a[2])?),
            ("ctl", 2) => op_ctl(rep, op, a[1]),
            ("hp", 2) => op_hp(rep, op, &parse_bytes(a[1])?),
            ("st", 2) => op_st(rep, op, &parse_stream(a[1])?.0),
            ("ln", 3) => op_ln(rep, op, a[1], &parse_bytes(a[2])?),
            ("rd", 6) => op_rd(rep, op, &a[1..])?,
            ("sb", 6) => op_sb(rep, op, &a[1..])?,
            ("sbc", 6) => op_sbc(rep, op, &a[1..])?,
            ("wr", 3) => op_wr(rep, op, a[1], &parse_bytes(a[2])?)?,
            _ => return None,
        }
        Some(())
    })();
    if done.is_none() {
        rep.note(&format!("malformed op skipped: {}", &op[..op.len().min(80)]));
    }
}

// ---------------------------------------------------------------------------------------------
// generators

fn bytes_text(r: &mut Rng, len: usize) -> String {
    if len > 48 {
        let pl = 1 + r.usize(3);
        let pat = r.bytes(pl);
        format!("x{}:{}", len, hex(&pat))
    } else {
        let v = match r.below(4) {
            0 => r.bytes(len),
            1 => (0..len).map(|_| *r.pick(b"ERR \n\x01\x02\x03\x000")).collect(),
            _ => (0..len).map(|_| *r.pick(b"abcdefgh 0123\n")).collect(),
        };
        hex(&v)
    }
}

fn gen_len(r: &mut Rng) -> usize {
    match r.below(20) {
        0..=7 => 1 + r.usize(5),
        8..=13 => 1 + r.usize(40),
        14..=16 => 1 + r.usize(3000),
        17 => *r.pick(&[65510usize, 65511, 65512, 65513, 65514, 65515, 65516]),
        18 => 60000 + r.usize(5517),
        _ => 1 + r.usize(300),
    }
}

fn gen_chunks(r: &mut Rng, stream_hint: usize) -> String {
    let big = stream_hint > 6000;
    match r.below(10) {
        0 | 1 if !big => "1".into(),
        2 if !big => "2".into(),
        3 if !big => "3,1".into(),
        4 => "4".into(),
        5 if !big => "5,7,1".into(),
        6 => "4096".into(),
        7 => "65520".into(),
        8 => "1000000".into(),
        _ => {
            let n = 1 + r.usize(4);
            let lo = if big { 700 } else { 1 };
            (0..n).map(|_| (lo + r.usize(if big { 9000 } else { 12 })).to_string()).collect::<Vec<_>>().join(",")
        }
    }
}

fn gen_line_part(r: &mut Rng, bands: bool) -> (String, usize) {
    let len = gen_len(r);
    if bands {
        let k = *r.pick(b"111223");
        let len = len.min(65515);
        let mut t = bytes_text(r, len);
        if k != b'1' && len <= 48 && r.chance(1, 2) {
            // progress text usually ends in a newline or carriage return
            let mut v = parse_bytes(&t).unwrap();
            *v.last_mut().unwrap() = *r.pick(b"\n\r");
            t = hex(&v);
        }
        return (format!("{}.{}", k as char, t), len + 5);
    }
    match r.below(12) {
        0 => ("F".into(), 4),
        1 => ("D".into(), 4),
        2 => ("R".into(), 4),
        3 | 4 => {
            let len = len.min(65515);
            (format!("t.{}", bytes_text(r, len)), len + 5)
        }
        5 => {
            let len = len.min(65512);
            (format!("e.{}", bytes_text(r, len)), len + 8)
        }
        6 => {
            // a data line that happens to start with ERR
            let tail = r.usize(6);
            let mut v = b"ERR ".to_vec();
            v.extend(r.bytes(tail));
            (format!("d.{}", hex(&v)), v.len() + 4)
        }
        _ => (format!("d.{}", bytes_text(r, len)), len + 4),
    }
}

fn gen_raw_part(r: &mut Rng) -> (String, usize) {
    match r.below(12) {
        0 => ("30303033".into(), 4),                         // 0003
        1 => ("30303034".into(), 4),                         // 0004
        2 => {
            // oversized prefix with a little data
            let p = format!("{:04x}", 0xfff0u32 + r.below(16) as u32);
            (format!("{}+x{}:61", hex(p.as_bytes()), r.usize(40)), 44)
        }
        3 => {
            let p = format!("{:04x}", 65521 - r.below(4));
            (hex(p.as_bytes()), 4)
        }
        4 => {
            // not hex
            let v: Vec<u8> = (0..4).map(|_| *r.pick(b"0123456789abcdefABCDEFgG/:@ \x00\xff")).collect();
            (hex(&v), 4)
        }
        5 => {
            // upper-case hex prefix, complete line
            let n = 1 + r.usize(20);
            let p = format!("{:04X}", n + 4);
            (format!("{}+x{}:62", hex(p.as_bytes()), n), n + 4)
        }
        6 => {
            // truncated line: the prefix promises more than there is
            let n = 2 + r.usize(30);
            let p = format!("{:04x}", n + 4);
            (format!("{}+x{}:63", hex(p.as_bytes()), r.usize(n)), n + 4)
        }
        7 => {
            // 1..3 stray bytes (truncated prefix)
            let k = 1 + r.usize(3);
            (hex(&b"0009"[..k]), k)
        }
        8 => ("3030303502".into(), 5), // "0005\x02": band 2 with empty text
        9 => (format!("30303035{:02x}", r.byte()), 5),
        _ => {
            let n = r.usize(12);
            (hex(&r.bytes(n)), n)
        }
    }
}

fn gen_rd(r: &mut Rng) -> String {
    let written_only = r.chance(3, 5);
    let n = 1 + r.usize(7);
    let mut parts = Vec::new();
    let mut total = 0;
    for _ in 0..n {
        let (p, l) = if written_only || r.chance(2, 3) { gen_line_part(r, false) } else { gen_raw_part(r) };
        // keep the Lean side fast: at most two huge lines per stream
        if l > 6000 && total > 120_000 {
            continue;
        }
        total += l;
        parts.push(p);
    }
    if parts.is_empty() {
        parts.push("F".into());
    }
    let delims = *r.pick(&["F", "F", "F", "-", "-", "D", "FD", "FDR", "DR", "R"]);
    let fail = if r.chance(1, 3) { "1" } else { "0" };
    let script = match r.below(6) {
        0..=2 => "*".to_string(),
        3 => "p*".into(),
        _ => {
            let k = 1 + r.usize(6);
            let mut s: String = (0..k).map(|_| *r.pick(&['r', 'p', 'p'])).collect();
            s.push('*');
            s
        }
    };
    format!("rd {} {} {} {} {}", fail, delims, gen_chunks(r, total), script, parts.join("+"))
}

fn gen_sb(r: &mut Rng) -> String {
    let handler = r.chance(4, 5);
    let n = 1 + r.usize(8);
    let mut parts = Vec::new();
    let mut total = 0;
    let malformed = r.chance(1, 4);
    for _ in 0..n {
        let (p, l) = if malformed && r.chance(1, 3) {
            match r.below(4) {
                0 => gen_raw_part(r),
                1 => gen_line_part(r, false),
                2 => (format!("d.{:02x}{}", 4 + r.below(3) as u8, "6162"), 7), // invalid band id
                _ => (format!("3030303{}", 5 + r.below(2)) + &format!("{:02x}", 1 + r.below(3) as u8) + if r.chance(1, 2) { "" } else { "0a" }, 6),
            }
        } else {
            gen_line_part(r, handler)
        };
        if l > 6000 && total > 120_000 {
            continue;
        }
        total += l;
        parts.push(p);
    }
    if !malformed || r.chance(1, 2) {
        parts.push("F".into());
        if r.chance(1, 3) {
            parts.push(gen_line_part(r, handler).0);
        }
    }
    let delims = if malformed { *r.pick(&["F", "-", "FD"]) } else { "F" };
    let reads = match r.below(6) {
        0 if total < 6000 => "1".to_string(),
        1 if total < 6000 => "3,2".into(),
        2 => "8192".into(),
        3 => "65536".into(),
        4 => "4,65516".into(),
        _ => (700 + r.usize(3000)).to_string(),
    };
    let hspec = if handler && r.chance(1, 5) { format!("i{}", r.below(4)) } else { (handler as u8).to_string() };
    if r.chance(1, 4) {
        // explicit fill_buf / consume / read sequences
        let n = 1 + r.usize(10);
        let linewise = r.chance(1, 2);
        let calls: Vec<String> = (0..n)
            .map(|_| match r.below(if linewise { 7 } else { 6 }) {
                0 | 1 | 2 | 3 if linewise => (*r.pick(&["p", "l", "s"])).to_string(),
                0 | 1 => "f".to_string(),
                2 => format!("c{}", *r.pick(&[0usize, 1, 2, 3, 5, 100, 70000, 1 << 40])),
                3 => format!("c{}", r.usize(12)),
                4 => format!("r{}", *r.pick(&[0usize, 1, 2, 7, 65536])),
                5 if linewise => (*r.pick(&["p", "l", "s", "p", "l", "s", "f"])).to_string(),
                _ if linewise => (*r.pick(&["p", "l", "s"])).to_string(),
                _ => format!("r{}", 1 + r.usize(50)),
            })
            .collect();
        return format!("sbc {} {} {} {} {}", hspec, delims, gen_chunks(r, total), calls.join(","), parts.join("+"));
    }
    format!("sb {} {} {} {} {}", hspec, delims, gen_chunks(r, total), reads, parts.join("+"))
}

/// the whole 16-bit prefix space against the real reader, followed by enough bytes: never a
/// panic, and the line returned is the one the prefix announces (oracle only — no model lines)
fn sweep_reader_all_prefixes(rep: &mut Report) {
    let tail = vec![0x5au8; 65536];
    let mut panics = Vec::new();
    for v in 0..=0xffffu32 {
        for upper in [false, true] {
            let p = if upper { format!("{v:04X}") } else { format!("{v:04x}") };
            if upper && p == p.to_lowercase() {
                continue;
            }
            let r = catch(|| {
                let mut rd = StreamingPeekableIter::new(p.as_bytes().chain(&tail[..]), &[], false);
                res_obs(&rd.read_line())
            });
            rep.oracle_only(&format!("reader-prefix {p}"), true);
            rep.oracle_checked();
            let want = match v {
                0 => "l:F".to_string(),
                1 => "l:D".into(),
                2 => "l:R".into(),
                3 => "err:len3".into(),
                4 => "err:empty".into(),
                n if n as usize - 4 <= MAX_DATA_LEN => format!("l:d:{}", bobs(&tail[..n as usize - 4])),
                n => format!("err:toolong:{n}"),
            };
            match r {
                Err(_) => panics.push(p.clone()),
                Ok(got) if got == want => {}
                Ok(got) => {
                    if (v as usize) > MAX_DATA_LEN + 4 && got.starts_with("err:toolong") {
                        continue; // the reported number is not part of the property
                    }
                    rep.oracle_failure(&format!("reader-prefix-value {p}"), &format!("read_line gives {got}, the prefix announces {want}"), &format!("rd 0 - 4096 r {}+x65536:5a", hex(p.as_bytes())));
                }
            }
        }
    }
    rep.bucket(&format!("reader-prefix-sweep:panics={}", panics.len()));
    for p in panics {
        rep.oracle_failure(
            &format!("read-line-panic first4={}", hex(p.as_bytes())),
            &format!("StreamingPeekableIter::read_line panics on the length prefix {p:?} (followed by enough data)"),
            &format!("rd 0 - 4096 r {}+x65536:5a", hex(p.as_bytes())),
        );
    }
}

fn corpus(rep: &mut Report, thorough: bool) {
    for k in ["F", "D", "R"] {
        run_op(rep, &format!("ctl {k}"));
    }
    // payload lengths around both ends, every encoder
    for kind in ["data", "text", "err", "band1", "band2", "band3"] {
        run_op(rep, &format!("enc {kind} -"));
        for len in [1usize, 2, 3, 4, 5, 6, 11, 12, 64, 65, 255, 256, 4091, 4092, 65510, 65511, 65512, 65513, 65514, 65515, 65516, 65517, 65518, 65535, 65536, 70000] {
            run_op(rep, &format!("enc {kind} x{len}:61"));
        }
        run_op(rep, &format!("enc {kind} 0a"));
        run_op(rep, &format!("enc {kind} 610a"));
        run_op(rep, &format!("enc {kind} 0a0a"));
    }
    // every four-hex-digit prefix: hex_prefix and streaming (with three bytes behind it)
    for v in 0..=0xffffu32 {
        let p = format!("{v:04x}");
        run_op(rep, &format!("hp {}", hex(p.as_bytes())));
        run_op(rep, &format!("st {}616263", hex(p.as_bytes())));
        let up = format!("{v:04X}");
        if up != p && (thorough || v % 7 == 0 || v >= 0xff00) {
            run_op(rep, &format!("hp {}", hex(up.as_bytes())));
            run_op(rep, &format!("st {}616263", hex(up.as_bytes())));
        }
    }
    for bad in ["-", "30", "3030", "303030", "3030303030", "30303067", "67303030", "2f303030", "3a303030", "40414243", "60616263", "00000000", "ffffffff", "30303a30"] {
        run_op(rep, &format!("hp {bad}"));
        run_op(rep, &format!("st {bad}"));
    }
    // streaming: complete / incomplete around the maximum
    for (pfx, n) in [("fff0", 65516usize), ("fff0", 65515), ("fff0", 65517), ("ffef", 65515), ("fff1", 65517), ("fff1", 65600), ("ffff", 65531), ("0005", 0), ("0005", 1), ("0006", 1)] {
        run_op(rep, &format!("st {}+x{n}:7a", hex(pfx.as_bytes())));
    }
    // the reader on every prefix class: the part the model answers too
    for v in 0..=0xffffu32 {
        if thorough || v % 16 == 0 || v >= 0xff00 || v <= 0x20 || (0xffe0..=0xffff).contains(&v) {
            let p = format!("{v:04x}");
            run_op(rep, &format!("rd 0 - 3 r* {}+616263", hex(p.as_bytes())));
        }
    }
    for v in [5u32, 6, 0x100, 0xffef, 0xfff0, 0xfff1, 0xfff2, 0xfffe, 0xffff] {
        let p = format!("{v:04x}");
        for chunks in ["1000000", "4096", "700,3"] {
            run_op(rep, &format!("rd 0 F {chunks} r {}+x65540:5a", hex(p.as_bytes())));
            run_op(rep, &format!("rd 0 F {chunks} prr {}+x65540:5a", hex(p.as_bytes())));
            // … and with exactly the announced amount behind it, then a flush
            let n = (v as usize).saturating_sub(4).min(70000);
            run_op(rep, &format!("rd 0 F {chunks} * {}+x{n}:5a+F", hex(p.as_bytes())));
        }
        run_op(rep, &format!("sb 0 F 4096 8192 {}+x65540:01", hex(p.as_bytes())));
        run_op(rep, &format!("sb 1 F 4096 8192 {}+x65540:01", hex(p.as_bytes())));
    }
    // boundary payloads through the reader, 1-byte chunks for the small ones
    for len in [1usize, 2, 3, 4, 5] {
        run_op(rep, &format!("rd 0 F 1 * d.x{len}:61+t.x{len}:62+e.x{len}:63+F+d.61"));
        run_op(rep, &format!("rd 1 F 1 p*r d.x{len}:61+t.x{len}:62+e.x{len}:63+F+d.61"));
        run_op(rep, &format!("sb 1 F 1 1 1.x{len}:61+2.x{len}:62+3.x{len}:63+1.x{len}:64+F"));
    }
    for len in [65515usize, 65516, 65517] {
        run_op(rep, &format!("rd 0 F 4096 * d.x{len}:61+d.62+F"));
        run_op(rep, &format!("rd 0 F 65520 p*r d.x{len}:61+d.62+F"));
        run_op(rep, &format!("sb 1 F 4096 8192 1.x{}:61+2.6869+1.62+F", len - 1));
        run_op(rep, &format!("sb 0 F 4096 8192 d.x{len}:61+d.62+F"));
        run_op(rep, &format!("wr bin x{len}:61"));
        run_op(rep, &format!("wr text x{len}:61"));
        run_op(rep, &format!("wr text x{}:61", len - 2));
    }
    run_op(rep, "wr bin -");
    run_op(rep, "wr text -");
    run_op(rep, "wr bin x131033:6162");
    run_op(rep, "wr bin x200000:616263");
    // side-band corner cases
    for s in [
        "sb 1 F 1 1 3030303502",          // "0005\x02": progress band without text
        "sb 1 F 1 1 3030303503",
        "sb 1 F 1 1 3030303501+1.61+F",   // empty data band is skipped
        "sb 1 F 4 3 3030303504",
        "sb 1 - 4 3 1.61+F",              // flush is not a delimiter: non-data line
        "sb 0 - 4 3 d.61+F",
        "sb 1 F 4 3 2.0a+3.0a+1.0a+F",
        "sb 1 F 4 3 2.610a0a+F",
        "sb 1 F 7 2 e.6f6f7073+F",
        "sb 0 F 7 2 e.6f6f7073+F",
        "sb 1 F 7 2 1.61+30303033+1.62+F",
        "sb 1 F 7 2 1.61+66666666",
        "sb 1 F 7 2 1.61+3030",
    ] {
        run_op(rep, s);
    }
    // fill_buf / consume / read call sequences, the interrupting handler, the consume() contract
    for s in [
        "sbc 1 F 7 f,f,c1,f,c1,f,c5,f 1.616263+1.64+F",
        "sbc 1 F 7 f,c0,f,c100,f,r2,f 1.616263+2.700a+1.64+F",
        "sbc 0 F 3 f,c2,r1,f,c70000,f,f d.616263+d.64+F",
        "sbc 1 - 3 r4,f,c1,f 1.6162+3030303504+1.63",
        "sbc 1 F 2 f,c18446744073709551615 1.61+F",           // Props.C29.consume_overflow_panics (illegal amount)
        "sbc 1 F 2 c18446744073709551615,f 1.61+F",           // the same amount before anything was read: pos = 0, no overflow
        "sbc i0 F 4 r9,r9,r9 2.6f6e65+1.61+2.74776f+1.62+F",
        "sbc i1 F 4 r9,r9,r9,r9 2.6f6e65+1.61+3.74776f+1.62+F",
        "sbc i5 F 4 r9,r9,r9,r9 2.6f6e65+1.61+3.74776f+1.62+F",
        "sbc 0 F 3 p,p,l,p,s,l,l d.6162+t.6364+d.65+F+d.66",    // peek_data_line / read_data_line / read_line_to_string
        "sbc 1 F 3 p,l,s,s,p,l 1.6162+1.630a+2.7072+1.64+F",
        "sbc 0 - 3 p,l,p,l D+d.61+F",
        "sbc 0 F 3 s,s,s t.c3a9+d.c3+t.61+F",                   // valid UTF-8, invalid UTF-8 (then the assert fires)
        "sbc 0 F 3 f,l d.6162+F",                               // read_data_line with a buffered line: assert
        "sbc 0 F 3 r1,s d.6162+F",
        "sbc 0 F 3 s,p,s,l e.6f6f7073+d.61+F",
        "sb i0 F 4 9 3030303502+1.61+F",
        "sb i1 F 1 1 2.61+2.62+2.63+1.64+F",
    ] {
        run_op(rep, s);
    }
    for what in ["text", "cerr", "band"] {
        for d in ["-", "0a", "61", "610a", "0a0a", "45525220", "4552522061", "455252", "01", "0161", "02610a", "03", "00", "04", "ff6162"] {
            run_op(rep, &format!("ln {what} {d}"));
        }
    }
}

fn main() {
    let args = Args::parse();
    let mut rep = Report::new("C29", &args);
    let mut r = Rng::new(args.seed);
    if let Some(ops) = replay_ops(&args) {
        for op in ops {
            run_op(&mut rep, &op);
        }
        rep.finish();
        return;
    }
    sweep_reader_all_prefixes(&mut rep);
    corpus(&mut rep, args.thorough);
    let n = args.budget(2_500, 60_000);
    for _ in 0..n {
        let op = match r.below(20) {
            0..=8 => gen_rd(&mut r),
            9..=14 => gen_sb(&mut r),
            15 | 16 => {
                let kind = *r.pick(&["data", "text", "err", "band1", "band2", "band3"]);
                let len = if r.chance(1, 6) { 65505 + r.usize(16) } else { gen_len(&mut r) };
                format!("enc {kind} {}", bytes_text(&mut r, len))
            }
            17 => {
                let v: Vec<u8> = (0..4).map(|_| *r.pick(b"0123456789abcdefABCDEFgG/:@`\x00\xff ")).collect();
                if r.chance(1, 2) {
                    format!("hp {}", hex(&v))
                } else {
                    format!("st {}+x{}:41", hex(&v), r.usize(30))
                }
            }
            18 => {
                let len = if r.chance(1, 4) { 65000 + r.usize(140_000) } else { gen_len(&mut r) };
                format!("wr {} {}", if r.chance(1, 2) { "bin" } else { "text" }, bytes_text(&mut r, len))
            }
            _ => {
                let what = *r.pick(&["text", "cerr", "band"]);
                let len = 1 + r.usize(8);
                format!("ln {what} {}", bytes_text(&mut r, len))
            }
        };
        run_op(&mut rep, &op);
    }
    rep.finish();
}
