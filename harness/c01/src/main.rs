//! C01 — object writers: declared size, written bytes, decode round-trip, object id vs git.
use gix_object::bstr::ByteSlice;
use gix_object::WriteTo;
use hcommon::*;

fn time_op(t: &gix_date::Time) -> String {
    format!(
        "{} {} {}",
        t.seconds,
        t.offset,
        if t.sign == gix_date::time::Sign::Minus { "-" } else { "+" }
    )
}

fn sig_op(s: &gix_actor::Signature) -> String {
    format!("{} {} {}", hex(&s.name), hex(&s.email), time_op(&s.time))
}

fn obs(size: u64, w: &std::io::Result<Vec<u8>>) -> String {
    match w {
        Err(_) => format!("size={size} err"),
        Ok(b) => format!("size={size} len={} ok {}", b.len(), hex(b)),
    }
}

fn write_of(f: impl FnOnce(&mut Vec<u8>) -> std::io::Result<()>) -> std::io::Result<Vec<u8>> {
    let mut v = Vec::new();
    f(&mut v).map(|_| v)
}

fn gen_seconds(r: &mut Rng) -> i64 {
    match r.below(10) {
        0..=4 => {
            let k = r.below(19) as u32;
            let p = 10i64.pow(k);
            let base = if r.chance(1, 2) { p } else { -p };
            base.saturating_add(r.range(-2, 2))
        }
        5 => *r.pick(&[i64::MIN, i64::MIN + 1, i64::MAX, i64::MAX - 1, 0, -1, 1]),
        6 => r.range(-100_000, 100_000),
        7 => r.range(0, 4_000_000_000),
        _ => r.u64() as i64 >> r.below(63),
    }
}

fn gen_offset(r: &mut Rng) -> i32 {
    match r.below(8) {
        0 => 0,
        1..=3 => {
            let b = *r.pick(&[0, 59, 60, 61, 3599, 3600, 3601, 35_999, 36_000, 356_399, 356_400, 359_999, 360_000]);
            let v = b + r.range(-1, 1) as i32;
            if r.chance(1, 2) {
                v
            } else {
                -v
            }
        }
        4 => *r.pick(&[i32::MIN, i32::MIN + 1, i32::MAX]),
        5 => (r.range(-99, 99) * 3600 + r.range(0, 59) * 60) as i32,
        _ => r.range(-400_000, 400_000) as i32,
    }
}

fn gen_time(r: &mut Rng) -> gix_date::Time {
    let offset = gen_offset(r);
    let sign = if r.chance(1, 5) {
        if r.chance(1, 2) {
            gix_date::time::Sign::Minus
        } else {
            gix_date::time::Sign::Plus
        }
    } else {
        offset.into()
    };
    gix_date::Time {
        seconds: gen_seconds(r),
        offset,
        sign,
    }
}

fn gen_token(r: &mut Rng) -> Vec<u8> {
    if r.chance(1, 12) {
        return r.over(b"ab <>\n\t.", 6);
    }
    let mut v = r.over(b"abcXYZ .-_\xc3\xa9@0\r", 12);
    if r.chance(9, 10) {
        // keep it inside the round-trip domain: no surrounding whitespace
        while v.first() == Some(&b' ') {
            v.remove(0);
        }
        while v.last() == Some(&b' ') {
            v.pop();
        }
    }
    v
}

fn gen_sig(r: &mut Rng) -> gix_actor::Signature {
    gix_actor::Signature {
        name: gen_token(r).into(),
        email: gen_token(r).into(),
        time: gen_time(r),
    }
}

fn gen_id(r: &mut Rng) -> gix_hash::ObjectId {
    let b = r.bytes(20);
    gix_hash::ObjectId::from_bytes_or_panic(&b)
}

fn gen_message(r: &mut Rng) -> Vec<u8> {
    match r.below(6) {
        0 => vec![],
        1 => { let n = r.usize(40); r.bytes(n) }.into_iter().filter(|b| *b != 0).collect(),
        _ => r.over(b"ab c\n\n-:\xf0\r", 60),
    }
}

fn gen_extra(r: &mut Rng) -> (Vec<u8>, Vec<u8>) {
    let name = match r.below(8) {
        0 => b"gpgsig".to_vec(),
        1 => b"mergetag".to_vec(),
        2 => b"encoding".to_vec(),
        3 => r.over(b"ab \n", 3),
        _ => {
            let mut n = r.over(b"abcxyz-", 8);
            if n.is_empty() {
                n.push(b'h');
            }
            n
        }
    };
    let value = match r.below(8) {
        0 => vec![],
        1 => b"\n".to_vec(),
        2 => r.over(b"ab \n\r", 10),
        7 => {
            // CRLF-terminated lines, as signatures produced by Windows tooling have
            let n = 1 + r.usize(4);
            let mut v = Vec::new();
            for _ in 0..n {
                v.extend_from_slice(&r.over(b"abc =", 6));
                v.extend_from_slice(if r.chance(3, 4) { b"\r\n" } else { b"\n" });
            }
            v
        }
        3 => {
            let mut v = b"-----BEGIN PGP SIGNATURE-----\n\nabc\n-----END PGP SIGNATURE-----".to_vec();
            if r.chance(1, 2) {
                v.push(b'\n');
            }
            v
        }
        _ => {
            let mut v = r.over(b"abc xyz", 10);
            if v.is_empty() {
                v.push(b'v');
            }
            v
        }
    };
    (name, value)
}

struct GitBatch {
    scratch: Scratch,
    items: Vec<(String, gix_object::Kind, Vec<u8>, gix_hash::ObjectId, String)>,
}

impl GitBatch {
    fn add(&mut self, key: String, kind: gix_object::Kind, bytes: Vec<u8>, id: gix_hash::ObjectId, op: String) {
        self.items.push((key, kind, bytes, id, op));
    }
    fn run(&mut self, rep: &mut Report) {
        for kind in [gix_object::Kind::Commit, gix_object::Kind::Tag, gix_object::Kind::Tree, gix_object::Kind::Blob] {
            let mut paths = String::new();
            let mut expect = Vec::new();
            for (i, (key, k, bytes, id, op)) in self.items.iter().enumerate() {
                if *k != kind {
                    continue;
                }
                let p = self.scratch.join(format!("o{i}"));
                std::fs::write(&p, bytes).expect("write obj");
                paths.push_str(&format!("{}\n", p.display()));
                expect.push((key.clone(), *id, op.clone()));
            }
            if expect.is_empty() {
                continue;
            }
            let kname = std::str::from_utf8(kind.as_bytes()).unwrap().to_string();
            let out = git_ok(
                &self.scratch.path,
                &["hash-object", "--literally", "-t", &kname, "--stdin-paths"],
                Some(paths.as_bytes()),
            );
            let got: Vec<&str> = out.lines().collect();
            assert_eq!(got.len(), expect.len(), "git hash-object answered every path");
            for ((key, id, op), g) in expect.iter().zip(got) {
                rep.git_checked(1);
                if id.to_string() != g {
                    rep.oracle_failure(
                        key,
                        &format!("object id computed from loose_header()+write_to() is {id}, git hash-object says {g}"),
                        op,
                    );
                }
            }
        }
        self.items.clear();
    }
}

fn id_of(header: &[u8], body: &[u8]) -> gix_hash::ObjectId {
    let mut h = gix_features::hash::hasher(gix_hash::Kind::Sha1);
    h.update(header);
    h.update(body);
    h.digest().into()
}

fn seconds_class(s: i64) -> String {
    let a = s.unsigned_abs();
    let digits = a.to_string().len();
    let pow = a == 10u64.pow(digits as u32 - 1) && a != 0;
    format!("{}{}digits{}", if s < 0 { "neg" } else { "pos" }, digits, if pow { "-pow10" } else { "" })
}

fn do_time(rep: &mut Report, t: gix_date::Time) {
    let op = format!("time {}", time_op(&t));
    let w = write_of(|o| t.write_to(o));
    let size = t.size() as u64;
    rep.case(&op, &obs(size, &w), true);
    rep.bucket(&format!("time:{}", seconds_class(t.seconds)));
    rep.oracle_checked();
    if let Ok(b) = &w {
        if b.len() as u64 != size {
            rep.oracle_failure(
                &format!("time-size seconds={}", t.seconds),
                &format!("Time::size()={} but write_to() wrote {} bytes ({:?})", size, b.len(), String::from_utf8_lossy(b)),
                &op,
            );
        }
        // round trip through the signature decoder's time grammar (only in the round-trip domain)
        let in_domain = t.offset % 60 == 0 && (gix_date::time::Sign::from(t.offset) == t.sign || t.offset == 0);
        let mut sigbytes = b"n <e> ".to_vec();
        sigbytes.extend_from_slice(b);
        match gix_actor::SignatureRef::from_bytes::<()>(&sigbytes) {
            Ok(s) if s.time == t => {}
            other => {
                if in_domain {
                    rep.oracle_failure(
                        &format!("time-roundtrip {}", time_op(&t)),
                        &format!("written time {:?} decodes to {:?}", String::from_utf8_lossy(b), other.map(|s| s.time)),
                        &op,
                    );
                } else {
                    rep.outside_domain(&format!("time {} does not round-trip (offset not minute-granular or sign differs)", time_op(&t)));
                }
            }
        }
    } else {
        rep.bucket("time:write-err");
    }
}

fn do_sig(rep: &mut Report, s: gix_actor::Signature) {
    let op = format!("sig {}", sig_op(&s));
    let w = write_of(|o| s.write_to(o));
    let size = s.size() as u64;
    rep.case(&op, &obs(size, &w), true);
    rep.bucket(if w.is_ok() { "sig:ok" } else { "sig:err" });
    rep.oracle_checked();
    if let Ok(b) = &w {
        if b.len() as u64 != size {
            rep.oracle_failure(
                &format!("sig-size seconds={}", s.time.seconds),
                &format!("Signature::size()={} but wrote {} bytes", size, b.len()),
                &op,
            );
        }
    }
}

fn sig_roundtrips(s: &gix_actor::Signature) -> bool {
    let t = &s.time;
    t.offset % 60 == 0
        && (gix_date::time::Sign::from(t.offset) == t.sign || t.offset == 0)
        && s.name.trim() == s.name.as_slice()
        && s.email.trim() == s.email.as_slice()
}

fn gen_commit(r: &mut Rng) -> gix_object::Commit {
    let np = match r.below(6) {
        0 => 0,
        1 | 2 => 1,
        3 => 2,
        4 => r.usize(6),
        _ => r.usize(41),
    };
    gix_object::Commit {
        tree: gen_id(r),
        parents: (0..np).map(|_| gen_id(r)).collect(),
        author: gen_sig(r),
        committer: gen_sig(r),
        encoding: match r.below(5) {
            0 => Some(b"ISO-8859-1".as_slice().into()),
            1 => Some(r.over(b"a\n ", 3).into()),
            _ => None,
        },
        message: gen_message(r).into(),
        extra_headers: {
            let n = if r.chance(1, 2) { 0 } else { r.usize(4) };
            (0..n).map(|_| gen_extra(r)).map(|(a, b)| (a.into(), b.into())).collect()
        },
    }
}

fn commit_op(c: &gix_object::Commit) -> String {
    let mut op = format!("commit {} {}", hex(c.tree.as_bytes()), c.parents.len());
    for p in &c.parents {
        op.push(' ');
        op.push_str(&hex(p.as_bytes()));
    }
    op.push_str(&format!(" {} {}", sig_op(&c.author), sig_op(&c.committer)));
    match &c.encoding {
        None => op.push_str(" none"),
        Some(e) => op.push_str(&format!(" {}", hex(e))),
    }
    op.push_str(&format!(" {}", c.extra_headers.len()));
    for (n, v) in &c.extra_headers {
        op.push_str(&format!(" {} {}", hex(n), hex(v)));
    }
    op.push_str(&format!(" {}", hex(&c.message)));
    op
}

fn do_commit(rep: &mut Report, git: &mut GitBatch, c: gix_object::Commit) {
    let op = commit_op(&c);
    let w = write_of(|o| c.write_to(o));
    let size = c.size();
    rep.case(&op, &obs(size, &w), true);
    rep.bucket(&format!(
        "commit:{}:parents{}:extra{}",
        if w.is_ok() { "ok" } else { "err" },
        match c.parents.len() {
            0 => "0",
            1 => "1",
            2 => "2",
            _ => "3+",
        },
        c.extra_headers.len().min(2)
    ));
    rep.oracle_checked();
    if let Ok(b) = &w {
        if b.len() as u64 != size {
            rep.oracle_failure(
                &format!("commit-size author={} committer={}", c.author.time.seconds, c.committer.time.seconds),
                &format!("Commit::size()={} but write_to() wrote {} bytes", size, b.len()),
                &op,
            );
        }
        let id = id_of(&c.loose_header(), b);
        git.add(
            format!("commit-id author={} committer={}", c.author.time.seconds, c.committer.time.seconds),
            gix_object::Kind::Commit,
            b.clone(),
            id,
            op.clone(),
        );
        // decode round trip, in the documented writable/round-trip domain only
        let in_domain = sig_roundtrips(&c.author)
            && sig_roundtrips(&c.committer)
            && c.extra_headers.iter().all(|(n, v)| {
                !n.is_empty()
                    && n.find_byteset(b" \n").is_none()
                    && n.as_slice() != b"encoding"
                    && !v.is_empty()
                    && !v.starts_with(b"\n")
                    && (v.find_byte(b'\n').is_none() || (v.ends_with(b"\n") && v[..v.len() - 1].find_byte(b'\n').is_some()))
                    && !v.contains_str("\n\n")
            });
        match gix_object::CommitRef::from_bytes(b) {
            Ok(cr) => {
                let back: gix_object::Commit = cr.into();
                if back != c {
                    if in_domain {
                        rep.oracle_failure(
                            &format!("commit-roundtrip {}", fnv_key(&op)),
                            "CommitRef::from_bytes(write_to(c)) differs from c",
                            &op,
                        );
                    } else {
                        rep.outside_domain("commit outside the round-trip domain decodes to a different value");
                    }
                }
            }
            Err(e) => {
                if in_domain {
                    rep.oracle_failure(
                        &format!("commit-roundtrip {}", fnv_key(&op)),
                        &format!("written commit does not decode: {e}"),
                        &op,
                    );
                } else {
                    rep.outside_domain("commit outside the round-trip domain does not decode");
                }
            }
        }
    }
}

fn fnv_key(s: &str) -> String {
    let mut h: u64 = 0xcbf29ce484222325;
    for b in s.bytes() {
        h ^= b as u64;
        h = h.wrapping_mul(0x100000001b3);
    }
    format!("{h:016x}")
}

fn gen_tag(r: &mut Rng) -> gix_object::Tag {
    let name: Vec<u8> = match r.below(8) {
        0 => r.over(b"-a/.@{~ \n", 5),
        1 => b"-dash".to_vec(),
        2 => vec![],
        _ => {
            let mut n = r.over(b"abcv0.12-", 10);
            if n.is_empty() {
                n.push(b'v');
            }
            n
        }
    };
    gix_object::Tag {
        target: gen_id(r),
        target_kind: *r.pick(&[
            gix_object::Kind::Commit,
            gix_object::Kind::Tree,
            gix_object::Kind::Blob,
            gix_object::Kind::Tag,
        ]),
        name: name.into(),
        tagger: if r.chance(3, 4) { Some(gen_sig(r)) } else { None },
        message: gen_message(r).into(),
        pgp_signature: if r.chance(1, 3) {
            Some(b"-----BEGIN PGP SIGNATURE-----\nabc\n-----END PGP SIGNATURE-----\n".as_slice().into())
        } else {
            None
        },
    }
}

fn kind_str(k: gix_object::Kind) -> &'static str {
    match k {
        gix_object::Kind::Tree => "tree",
        gix_object::Kind::Blob => "blob",
        gix_object::Kind::Commit => "commit",
        gix_object::Kind::Tag => "tag",
    }
}

fn do_tag(rep: &mut Report, git: &mut GitBatch, t: gix_object::Tag) {
    let valid = gix_validate::tag::name(t.name.as_ref()).is_ok();
    let mut op = format!(
        "tag {} {} {} {} {}",
        hex(t.target.as_bytes()),
        kind_str(t.target_kind),
        hex(&t.name),
        valid as u8,
        t.tagger.is_some() as u8
    );
    if let Some(s) = &t.tagger {
        op.push_str(&format!(" {}", sig_op(s)));
    }
    op.push_str(&format!(" {}", hex(&t.message)));
    match &t.pgp_signature {
        None => op.push_str(" none"),
        Some(p) => op.push_str(&format!(" {}", hex(p))),
    }
    let w = match catch(|| write_of(|o| t.write_to(o))) {
        Ok(w) => w,
        Err(msg) => {
            // an empty name makes `name[0]` panic in validated_name unless validation rejects it first
            rep.case(&op, "panic", true);
            rep.oracle_failure(&format!("tag-write-panic name={}", hex(&t.name)), &msg, &op);
            return;
        }
    };
    let size = t.size();
    rep.case(&op, &obs(size, &w), true);
    rep.bucket(&format!("tag:{}:tagger{}", if w.is_ok() { "ok" } else { "err" }, t.tagger.is_some() as u8));
    rep.oracle_checked();
    if let Ok(b) = &w {
        if b.len() as u64 != size {
            rep.oracle_failure(
                &format!("tag-size tagger={}", t.tagger.as_ref().map(|s| s.time.seconds).unwrap_or(0)),
                &format!("Tag::size()={} but write_to() wrote {} bytes", size, b.len()),
                &op,
            );
        }
        let id = id_of(&t.loose_header(), b);
        git.add(
            format!("tag-id tagger={}", t.tagger.as_ref().map(|s| s.time.seconds).unwrap_or(0)),
            gix_object::Kind::Tag,
            b.clone(),
            id,
            op.clone(),
        );
    }
}

fn gen_tree(r: &mut Rng) -> gix_object::Tree {
    use gix_object::tree::EntryKind;
    let n = match r.below(5) {
        0 => 0,
        1 => 1,
        _ => r.usize(12),
    };
    let mut entries: Vec<gix_object::tree::Entry> = (0..n)
        .map(|_| {
            let mut name = r.over(b"ab.-/0\xff", 6);
            if r.chance(1, 30) {
                name.push(0);
            }
            if name.is_empty() {
                name.push(b'f');
            }
            gix_object::tree::Entry {
                mode: if r.chance(1, 6) {
                    // any u16 the type admits via the decoder's mode parser
                    gix_object::tree::EntryMode::try_from(*r.pick(&[0o100664u32, 0o100640, 0o40000, 0o100755, 0o120000, 0o160000])).unwrap_or(EntryKind::Blob.into())
                } else {
                    (*r.pick(&[EntryKind::Tree, EntryKind::Blob, EntryKind::BlobExecutable, EntryKind::Link, EntryKind::Commit])).into()
                },
                filename: name.into(),
                oid: gen_id(r),
            }
        })
        .collect();
    entries.sort();
    entries.dedup_by(|a, b| a.filename == b.filename);
    gix_object::Tree { entries }
}

fn do_tree(rep: &mut Report, git: &mut GitBatch, t: gix_object::Tree) {
    let mut op = format!("tree {}", t.entries.len());
    for e in &t.entries {
        op.push_str(&format!(" {} {} {}", e.mode.0, hex(&e.filename), hex(e.oid.as_bytes())));
    }
    let w = write_of(|o| t.write_to(o));
    let size = t.size();
    rep.case(&op, &obs(size, &w), !t.entries.is_empty());
    rep.bucket(&format!("tree:{}:n{}", if w.is_ok() { "ok" } else { "err" }, t.entries.len().min(3)));
    rep.oracle_checked();
    if let Ok(b) = &w {
        if b.len() as u64 != size {
            rep.oracle_failure("tree-size", &format!("Tree::size()={} but wrote {}", size, b.len()), &op);
        }
        let id = id_of(&t.loose_header(), b);
        git.add(format!("tree-id {}", fnv_key(&op)), gix_object::Kind::Tree, b.clone(), id, op.clone());
        match gix_object::TreeRef::from_bytes(b) {
            Ok(tr) => {
                let back: gix_object::Tree = tr.into();
                if back != t {
                    rep.oracle_failure(&format!("tree-roundtrip {}", fnv_key(&op)), "TreeRef::from_bytes(write_to(t)) != t", &op);
                }
            }
            Err(e) => rep.oracle_failure(&format!("tree-roundtrip {}", fnv_key(&op)), &format!("written tree does not decode: {e}"), &op),
        }
    }
}

fn do_loose(rep: &mut Report, kind: gix_object::Kind, size: u64) {
    let op = format!("loose {} {}", kind_str(kind), size);
    let h = gix_object::encode::loose_header(kind, size);
    rep.case(&op, &hex(&h), true);
    rep.bucket("loose");
    rep.oracle_checked();
    match gix_object::decode::loose_header(&h) {
        Ok((k, s, consumed)) if k == kind && s == size && consumed == h.len() => {}
        other => rep.oracle_failure(
            &format!("loose-header {} {}", kind_str(kind), size),
            &format!("loose header does not decode back: {other:?}"),
            &op,
        ),
    }
}

fn replay(rep: &mut Report, git: &mut GitBatch, ops: &[String]) {
    // replay files carry op lines; re-create the value from the op text
    for op in ops {
        let a: Vec<&str> = op.split(' ').collect();
        let time_at = |i: usize| gix_date::Time {
            seconds: a[i].parse().unwrap(),
            offset: a[i + 1].parse().unwrap(),
            sign: if a[i + 2] == "-" { gix_date::time::Sign::Minus } else { gix_date::time::Sign::Plus },
        };
        let sig_at = |i: usize| gix_actor::Signature {
            name: unhex(a[i]).unwrap().into(),
            email: unhex(a[i + 1]).unwrap().into(),
            time: time_at(i + 2),
        };
        match a[0] {
            "time" => do_time(rep, time_at(1)),
            "sig" => do_sig(rep, sig_at(1)),
            "commit" => {
                let np: usize = a[2].parse().unwrap();
                let id = |s: &str| gix_hash::ObjectId::from_bytes_or_panic(&unhex(s).unwrap());
                let mut i = 3;
                let parents = (0..np).map(|k| id(a[i + k])).collect();
                i += np;
                let author = sig_at(i);
                let committer = sig_at(i + 5);
                i += 10;
                let encoding = if a[i] == "none" { None } else { Some(unhex(a[i]).unwrap().into()) };
                let nx: usize = a[i + 1].parse().unwrap();
                i += 2;
                let extra = (0..nx)
                    .map(|k| (unhex(a[i + 2 * k]).unwrap().into(), unhex(a[i + 2 * k + 1]).unwrap().into()))
                    .collect();
                i += 2 * nx;
                let c = gix_object::Commit {
                    tree: id(a[1]),
                    parents,
                    author,
                    committer,
                    encoding,
                    message: unhex(a[i]).unwrap().into(),
                    extra_headers: extra,
                };
                do_commit(rep, git, c);
            }
            _ => rep.note(&format!("replay: op kind {} is re-generated by seed only", a[0])),
        }
    }
}

fn main() {
    let args = Args::parse();
    let mut rep = Report::new("C01", &args);
    let mut r = Rng::new(args.seed);
    let mut git = GitBatch {
        scratch: Scratch::new("c01"),
        items: Vec::new(),
    };
    if let Some(ops) = replay_ops(&args) {
        replay(&mut rep, &mut git, &ops);
        git.run(&mut rep);
        rep.finish();
        return;
    }
    // corpus first: every ladder boundary, deterministically
    for k in 0..19u32 {
        for d in [-1i64, 0, 1] {
            for sgn in [1i64, -1] {
                let s = (sgn * 10i64.pow(k)).saturating_add(d);
                do_time(&mut rep, gix_date::Time { seconds: s, offset: 0, sign: gix_date::time::Sign::Plus });
            }
        }
    }
    for s in [i64::MIN, i64::MAX] {
        do_time(&mut rep, gix_date::Time { seconds: s, offset: -3600, sign: gix_date::time::Sign::Minus });
    }
    for size in [0u64, 1, 9, 10, 99, 100, u32::MAX as u64, u64::MAX] {
        for k in [gix_object::Kind::Blob, gix_object::Kind::Tree, gix_object::Kind::Commit, gix_object::Kind::Tag] {
            do_loose(&mut rep, k, size);
        }
    }
    let n = args.budget(6_000, 300_000);
    for i in 0..n {
        match r.below(10) {
            0..=2 => {
                let t = gen_time(&mut r);
                do_time(&mut rep, t)
            }
            3 => {
                let s = gen_sig(&mut r);
                do_sig(&mut rep, s)
            }
            4..=6 => {
                let c = gen_commit(&mut r);
                do_commit(&mut rep, &mut git, c)
            }
            7 => {
                let t = gen_tag(&mut r);
                do_tag(&mut rep, &mut git, t)
            }
            8 => {
                let t = gen_tree(&mut r);
                do_tree(&mut rep, &mut git, t)
            }
            _ => {
                let k = *r.pick(&[gix_object::Kind::Blob, gix_object::Kind::Tree, gix_object::Kind::Commit, gix_object::Kind::Tag]);
                let s = r.u64() >> r.below(64);
                do_loose(&mut rep, k, s)
            }
        }
        // keep the git batch bounded: the quick tier hashes ~600 objects with git
        if git.items.len() >= 400 {
            if args.thorough || i < 1_500 {
                git.run(&mut rep);
            } else {
                git.items.clear();
            }
        }
    }
    git.run(&mut rep);
    rep.finish();
}
