//! Tokenizer correspondence: the real `gix_revision::spec::parse` drives a recording delegate whose
//! answers follow a policy; the op line carries the input, the policy and which brace contents
//! `gix_date::parse` accepts.
use gix_revision::spec::parse::{delegate, Delegate, Error};
use gix_revision::spec::Kind;
use hcommon::*;

#[derive(Clone, Copy, Debug)]
pub struct Policy {
    pub fail_prefix: bool,
    pub fail_ref: bool,
    pub fail_at: Option<usize>,
}

pub struct Recorder {
    pub calls: Vec<String>,
    pol: Policy,
}

impl Recorder {
    pub fn new(pol: Policy) -> Self {
        Recorder { calls: Vec::new(), pol }
    }
    fn answer(&mut self, s: String, is_prefix: bool, is_ref: bool) -> Option<()> {
        let idx = self.calls.len();
        self.calls.push(s);
        if (is_prefix && self.pol.fail_prefix) || (is_ref && self.pol.fail_ref) || self.pol.fail_at == Some(idx) {
            None
        } else {
            Some(())
        }
    }
}

fn kind_str(k: Kind) -> &'static str {
    match k {
        Kind::IncludeReachable => "include",
        Kind::ExcludeReachable => "exclude",
        Kind::RangeBetween => "range",
        Kind::ReachableToMergeBase => "merge",
        Kind::IncludeReachableFromParents => "incparents",
        Kind::ExcludeReachableFromParents => "excparents",
    }
}

impl delegate::Revision for Recorder {
    fn find_ref(&mut self, name: &gix_object::bstr::BStr) -> Option<()> {
        self.answer(format!("ref:{}", hex(name)), false, true)
    }
    fn disambiguate_prefix(&mut self, prefix: gix_hash::Prefix, hint: Option<delegate::PrefixHint<'_>>) -> Option<()> {
        let h = match hint {
            None => "none".to_string(),
            Some(delegate::PrefixHint::MustBeCommit) => "commit".to_string(),
            Some(delegate::PrefixHint::DescribeAnchor { ref_name, generation }) => {
                format!("anchor:{}:{}", hex(ref_name), generation)
            }
        };
        self.answer(format!("prefix:{}:{}", hex(prefix.to_string().as_bytes()), h), true, false)
    }
    fn reflog(&mut self, query: delegate::ReflogLookup) -> Option<()> {
        let s = match query {
            delegate::ReflogLookup::Entry(n) => format!("reflog:{n}"),
            delegate::ReflogLookup::Date(_) => "reflogdate".to_string(),
        };
        self.answer(s, false, false)
    }
    fn nth_checked_out_branch(&mut self, branch_no: usize) -> Option<()> {
        self.answer(format!("nth:{branch_no}"), false, false)
    }
    fn sibling_branch(&mut self, kind: delegate::SiblingBranch) -> Option<()> {
        let s = match kind {
            delegate::SiblingBranch::Upstream => "sibling:upstream",
            delegate::SiblingBranch::Push => "sibling:push",
        };
        self.answer(s.to_string(), false, false)
    }
}

impl delegate::Navigate for Recorder {
    fn traverse(&mut self, kind: delegate::Traversal) -> Option<()> {
        let s = match kind {
            delegate::Traversal::NthParent(n) => format!("parent:{n}"),
            delegate::Traversal::NthAncestor(n) => format!("ancestor:{n}"),
        };
        self.answer(s, false, false)
    }
    fn peel_until(&mut self, kind: delegate::PeelTo<'_>) -> Option<()> {
        let s = match kind {
            delegate::PeelTo::ObjectKind(k) => format!(
                "peel:{}",
                match k {
                    gix_object::Kind::Commit => "commit",
                    gix_object::Kind::Tag => "tag",
                    gix_object::Kind::Tree => "tree",
                    gix_object::Kind::Blob => "blob",
                }
            ),
            delegate::PeelTo::ValidObject => "peel:object".to_string(),
            delegate::PeelTo::RecursiveTagObject => "peel:tags".to_string(),
            delegate::PeelTo::Path(p) => format!("path:{}", hex(p)),
        };
        self.answer(s, false, false)
    }
    fn find(&mut self, regex: &gix_object::bstr::BStr, negated: bool) -> Option<()> {
        self.answer(format!("find:{}:{}", hex(regex), negated as u8), false, false)
    }
    fn index_lookup(&mut self, path: &gix_object::bstr::BStr, stage: u8) -> Option<()> {
        self.answer(format!("index:{}:{}", hex(path), stage), false, false)
    }
}

impl delegate::Kind for Recorder {
    fn kind(&mut self, kind: Kind) -> Option<()> {
        self.answer(format!("kind:{}", kind_str(kind)), false, false)
    }
}

impl Delegate for Recorder {
    fn done(&mut self) {
        self.calls.push("done".to_string());
    }
}

fn err_str(e: &Error) -> String {
    match e {
        Error::MissingTildeAnchor => "MissingTildeAnchor".into(),
        Error::MissingColonSuffix => "MissingColonSuffix".into(),
        Error::EmptyTopLevelRegex => "EmptyTopLevelRegex".into(),
        Error::UnspecifiedRegexModifier { regex } => format!("UnspecifiedRegexModifier:{}", hex(regex)),
        Error::InvalidObject { input } => format!("InvalidObject:{}", hex(input)),
        Error::Time { input, .. } => format!("Time:{}", hex(input)),
        Error::SiblingBranchNeedsBranchName { name } => format!("SiblingBranchNeedsBranchName:{}", hex(name)),
        Error::ReflogLookupNeedsRefName { name } => format!("ReflogLookupNeedsRefName:{}", hex(name)),
        Error::RefnameNeedsPositiveReflogEntries { nav } => {
            format!("RefnameNeedsPositiveReflogEntries:{}", hex(nav))
        }
        Error::SignedNumber { input } => format!("SignedNumber:{}", hex(input)),
        Error::InvalidNumber { input } => format!("InvalidNumber:{}", hex(input)),
        Error::NegativeZero { input } => format!("NegativeZero:{}", hex(input)),
        Error::UnclosedBracePair { input } => format!("UnclosedBracePair:{}", hex(input)),
        Error::KindSetTwice { prev_kind, kind } => {
            format!("KindSetTwice:{}:{}", kind_str(*prev_kind), kind_str(*kind))
        }
        Error::AtNeedsCurlyBrackets { input } => format!("AtNeedsCurlyBrackets:{}", hex(input)),
        Error::UnconsumedInput { input } => format!("UnconsumedInput:{}", hex(input)),
        Error::Delegate => "Delegate".into(),
    }
}

/// brace contents the parser might hand to `gix_date::parse`: for every `{`…`}` pair the raw
/// content and the content with the parser's backslash escapes removed
fn date_candidates(input: &[u8]) -> Vec<Vec<u8>> {
    let mut out: Vec<Vec<u8>> = Vec::new();
    let opens: Vec<usize> = (0..input.len()).filter(|i| input[*i] == b'{').collect();
    let closes: Vec<usize> = (0..input.len()).filter(|i| input[*i] == b'}').collect();
    // the nearest closing brace of every opening one first (what the parser takes unless braces are
    // escaped or nested), then all other pairs, so that the cap never drops the likely candidates
    let mut pairs: Vec<(usize, usize)> = Vec::new();
    for &i in &opens {
        if let Some(&j) = closes.iter().find(|j| **j > i) {
            pairs.push((i, j));
        }
    }
    for &i in &opens {
        for &j in closes.iter().filter(|j| **j > i) {
            if !pairs.contains(&(i, j)) {
                pairs.push((i, j));
            }
        }
    }
    {
        for &(i, j) in &pairs {
            let raw = &input[i + 1..j];
            let mut un = Vec::new();
            let mut k = 0;
            while k < raw.len() {
                if raw[k] == b'\\' && k + 1 < raw.len() && matches!(raw[k + 1], b'{' | b'}' | b'\\') {
                    un.push(raw[k + 1]);
                    k += 2;
                } else {
                    un.push(raw[k]);
                    k += 1;
                }
            }
            for c in [raw.to_vec(), un] {
                if !out.contains(&c) && out.len() < 48 {
                    out.push(c);
                }
            }
        }
    }
    out
}

fn date_ok(c: &[u8]) -> bool {
    match std::str::from_utf8(c) {
        Err(_) => false,
        Ok(s) => gix_date::parse(s, Some(std::time::SystemTime::now())).is_ok(),
    }
}

pub fn op_line(input: &[u8], pol: Policy) -> String {
    let mut op = format!(
        "tok {} {} {} {}",
        hex(input),
        pol.fail_prefix as u8,
        pol.fail_ref as u8,
        pol.fail_at.map_or("-".to_string(), |n| n.to_string())
    );
    for c in date_candidates(input) {
        op.push_str(&format!(" {} {}", hex(&c), date_ok(&c) as u8));
    }
    op
}

/// run the real tokenizer; returns the observation line
pub fn observe(input: &[u8], pol: Policy) -> String {
    let inp = input.to_vec();
    let r = catch(move || {
        let mut rec = Recorder::new(pol);
        let res = gix_revision::spec::parse(inp.as_slice().into(), &mut rec);
        (rec.calls, res)
    });
    match r {
        Err(_) => "panic".to_string(),
        Ok((calls, res)) => format!(
            "{} {}",
            calls.join(","),
            match res {
                Ok(()) => "ok".to_string(),
                Err(e) => format!("err:{}", err_str(&e)),
            }
        ),
    }
}

pub fn do_tok(rep: &mut Report, input: &[u8], pol: Policy) {
    let op = op_line(input, pol);
    let obs = observe(input, pol);
    let bucket = if obs == "panic" {
        "tok:panic"
    } else if obs.ends_with(" ok") {
        "tok:ok"
    } else if obs.ends_with("err:Delegate") {
        "tok:err-delegate"
    } else {
        "tok:err-syntax"
    };
    rep.bucket(bucket);
    if obs == "panic" {
        // the tokenizer must never panic, whatever the bytes (tokenize_total on the real code)
        rep.oracle_failure(&format!("tokenizer panics on {}", hex(input)), "gix_revision::spec::parse panicked", &op);
    }
    rep.oracle_checked();
    rep.case(&op, &obs, obs.contains(','));
}

pub fn parse_policy(fp: &str, fr: &str, fa: &str) -> Policy {
    Policy {
        fail_prefix: fp == "1",
        fail_ref: fr == "1",
        fail_at: fa.parse().ok(),
    }
}

pub const ANCHORS: &[&str] = &[
    "HEAD", "@", "main", "refs/heads/main", "v1.0", "a.b", "abcd", "abcdef1", "ABCDEF12", "0123456789abcdef0123456789abcdef01234567",
    "0123456789abcdef0123456789abcdef012345678", "abc", "v1.0-3-gabcdef1", "v1.0-gabcd", "abcd-dirty", "x-1-g", "", "a@b", "a@",
    "@@", "feat/x-y", "v1-2-3-gdeadbeef", "tag-+5-gabcdef", "-1-gabcd", "g1234", "a-g1234", "a--g1234", "a-x-g1234",
    "a-18446744073709551615-gabcd", "a-18446744073709551616-gabcd", "abcd.ef01", "dead@beef", "a.@", "a.", ".a", "a/.b",
    "1234-5678", "12-34-56", "v1.0-3-gabcdef1-dirty", "caf\u{e9}", "FETCH_HEAD", "stash", "a-3-gABCD",
];

pub const SUFFIXES: &[&str] = &[
    "~", "~3", "~0", "~1", "^", "^2", "^0", "^1", "^-", "^-2", "^-1", "^-0", "^+1", "~-1", "~+1", "^{commit}", "^{tree}",
    "^{blob}", "^{tag}", "^{object}", "^{}", "^{/re}", "^{/!-re}", "^{/!!re}", "^{/!x}", "^{/}", "^{/!}", "^{/!-}", "^{foo}",
    "^{", "^{commit", "^@", "^!", ":path", ":", ":a/b.c", "@{1}", "@{-1}", "@{0}", "@{-0}", "@{+1}", "@{u}", "@{UPSTREAM}",
    "@{upstream}", "@{push}", "@{PuSh}", "@{yesterday}", "@{2020-01-01}", "@{1 day ago}", "@{1700000000 +0000}", "@{", "@{}",
    "@x", "@", "~18446744073709551616", "~18446744073709551615", "^9223372036854775807", "^9223372036854775808",
    "^-9223372036854775808", "^-9223372036854775809", "^-9223372036854775807", "^5-3", "^--", "^-1-", "^{\\}}", "^{/a\\{b\\}}",
    "^{/a\\\\b}", "^{/a\\b}", "^{/{x}}", "^{/x{1,2}}", "@{\\{}", "@{9223372036854775807}", "@{9223372036854775808}",
    "@{-9223372036854775808}", "@{-9223372036854775809}", "~00", "^007", "~ 1", "^ ", "@{ 1}",
];

pub const WHOLE: &[&str] = &[
    "", "^", "^^", "..", "...", "....", "^..", "..^", "a..", "a...", "..b", "...b", "a..b", "a...b", "^a..b", "a..b..c", "a....b",
    ":", ":/", ":/x", ":/!-x", ":/!!x", ":/!x", ":/!", ":/!-", ":0:", ":0:a", ":1:a", ":2:a", ":3:a", ":4:a", ":a", "::", ":0", ":/a..b",
    "~", "~1", "^~", "@~", "@^", "@:", "@.", "@..", "@...", "@..@", "@{", "@{}", "@{u", "@@{1}", "@{1}@{2}", "@{-1}@{1}", "@{1}..@{2}",
    "a@{1}..b@{u}", "a^!..b", "a^@x", "a^!x", "a^-x", "a^-1..b", "abcd^-", "abcd^-1", "abcdef12^-2x", "^abcd^-1", "x^-1^-1", "a..b^!",
    "a..b^-1", "HEAD@{now}@{1}", "a@{1}@{now}", "@{now}", "@{-1}^{/x}", "-", "--", "-1", "+1", "a b", "a\tb", "\u{0}", "{", "}", "{}", "a{b}",
    "a^{/x}^{/y}~2^3:p", "@^{}^{}", "@^0^0", "@~~", "@^^", "@~0~0", "@^^^", "@~1~2~3", "abcd..ef01", "abcd...ef01", "abcdef..", "abcd.1234",
    "a.b..c.d", "a...b.c", "a@..b", "@..b", "a.@..b", "a@@..b", "a@..", "1.0@..2.0", "a@.b", "a@~1", "a@^", "a@:", "a@{1}:p", "a@{1}^",
];

const ALPHABET: &[u8] = b"~^:.@{}\\-+!/0129abfgG \xff\xc3\xa9xh";

pub fn gen_input(r: &mut Rng) -> Vec<u8> {
    let mut rev = |r: &mut Rng| -> Vec<u8> {
        let mut v: Vec<u8> = r.pick(ANCHORS).as_bytes().to_vec();
        let n = match r.below(6) {
            0 => 0,
            1 | 2 => 1,
            3 => 2,
            _ => r.usize(5),
        };
        for _ in 0..n {
            v.extend_from_slice(r.pick(SUFFIXES).as_bytes());
        }
        v
    };
    let mut v = match r.below(12) {
        0 => r.pick(WHOLE).as_bytes().to_vec(),
        1..=5 => rev(r),
        6 => {
            let mut a = rev(r);
            a.extend_from_slice(b"..");
            a.extend(rev(r));
            a
        }
        7 => {
            let mut a = rev(r);
            a.extend_from_slice(b"...");
            a.extend(rev(r));
            a
        }
        8 => {
            let mut a = vec![b'^'];
            a.extend(rev(r));
            a
        }
        9 => {
            let mut a = b":/".to_vec();
            a.extend(r.over(ALPHABET, 6));
            a
        }
        10 => {
            let mut a = format!(":{}:", r.below(5)).into_bytes();
            a.extend(r.over(b"ab/.", 5));
            a
        }
        _ => r.over(ALPHABET, 12),
    };
    // malformed stream: mutate some of the inputs
    if r.chance(1, 4) {
        for _ in 0..1 + r.usize(3) {
            match r.below(3) {
                0 if !v.is_empty() => {
                    let i = r.usize(v.len());
                    v.remove(i);
                }
                1 => {
                    let i = r.usize(v.len() + 1);
                    v.insert(i, *r.pick(ALPHABET));
                }
                _ if !v.is_empty() => {
                    let i = r.usize(v.len());
                    v[i] = *r.pick(ALPHABET);
                }
                _ => {}
            }
        }
    }
    v
}

pub fn gen_policy(r: &mut Rng) -> Policy {
    match r.below(10) {
        0..=4 => Policy { fail_prefix: false, fail_ref: false, fail_at: None },
        5 | 6 => Policy { fail_prefix: true, fail_ref: false, fail_at: None },
        7 => Policy { fail_prefix: true, fail_ref: true, fail_at: None },
        8 => Policy { fail_prefix: false, fail_ref: true, fail_at: None },
        _ => Policy { fail_prefix: r.chance(1, 2), fail_ref: false, fail_at: Some(r.usize(6)) },
    }
}

pub fn corpus(rep: &mut Report) {
    let yes = Policy { fail_prefix: false, fail_ref: false, fail_at: None };
    let nop = Policy { fail_prefix: true, fail_ref: false, fail_at: None };
    for w in WHOLE {
        do_tok(rep, w.as_bytes(), yes);
        do_tok(rep, w.as_bytes(), nop);
    }
    for a in ANCHORS {
        for pol in [yes, nop, Policy { fail_prefix: true, fail_ref: true, fail_at: None }] {
            do_tok(rep, a.as_bytes(), pol);
        }
        for s in SUFFIXES {
            let mut v = a.as_bytes().to_vec();
            v.extend_from_slice(s.as_bytes());
            do_tok(rep, &v, yes);
        }
    }
    for k in 0..6 {
        do_tok(rep, b"abcdef12^-1", Policy { fail_prefix: false, fail_ref: false, fail_at: Some(k) });
        do_tok(rep, b"main~2..v1.0-3-gabcdef1^{tree}", Policy { fail_prefix: true, fail_ref: false, fail_at: Some(k) });
    }
}
