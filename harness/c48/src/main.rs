//! C48 — revision specs: tokenizer correspondence (recording delegate) and `git rev-parse` oracle.
use hcommon::*;
mod oracle;
mod tok;

fn replay(rep: &mut Report, ops: &[String]) {
    for op in ops {
        let a: Vec<&str> = op.split(' ').collect();
        match a.as_slice() {
            ["tok", inp, fp, fr, fa, ..] => {
                if let Some(b) = unhex(inp) {
                    tok::do_tok(rep, &b, tok::parse_policy(fp, fr, fa));
                }
            }
            ["rev", seed, spec] => {
                if let (Ok(seed), Some(spec)) = (seed.parse::<u64>(), unhex(spec)) {
                    let scratch = Scratch::new("c48r");
                    let info = oracle::build_repo(seed, &scratch);
                    let repo = oracle::open(&info);
                    let text = String::from_utf8_lossy(&spec).to_string();
                    let single = !(text.starts_with('^') || text.contains("..") || text.ends_with("^@") || text.ends_with("^!") || text.contains("^-"));
                    let sp = oracle::Spec {
                        label: format!("replay {text}"),
                        single,
                        nameless_anchor: text.starts_with("@{"),
                        has_navs: true,
                        ambiguous_anchor: false,
                        text,
                    };
                    let mut batch = oracle::Batch::new(&info.dir);
                    oracle::check_spec(rep, &repo, &info, &mut batch, &sp);
                }
            }
            _ => rep.note(&format!("unknown op in replay: {op}")),
        }
    }
}

fn main() {
    let args = Args::parse();
    let mut rep = Report::new("C48", &args);
    let mut r = Rng::new(args.seed);
    if let Some(ops) = replay_ops(&args) {
        replay(&mut rep, &ops);
        rep.finish();
        return;
    }
    tok::corpus(&mut rep);
    let n = args.budget(4_000, 120_000);
    for _ in 0..n {
        let v = tok::gen_input(&mut r);
        let pol = tok::gen_policy(&mut r);
        tok::do_tok(&mut rep, &v, pol);
    }
    // oracle: git rev-parse vs Repository::rev_parse on random repositories
    let yes = tok::parse_policy("0", "0", "-");
    let scratch = Scratch::new("c48");
    let repos = args.budget(4, 12);
    for i in 0..repos {
        let seed = args.seed * 1000 + i;
        let info = oracle::build_repo(seed, &scratch);
        let repo = oracle::open(&info);
        let mut batch = oracle::Batch::new(&info.dir);
        for _ in 0..args.budget(300, 400) / args.scale.max(1) {
            let sp = oracle::gen_spec(&mut r, &info);
            oracle::check_spec(&mut rep, &repo, &info, &mut batch, &sp);
            // the same spec also goes through the tokenizer correspondence
            tok::do_tok(&mut rep, sp.text.as_bytes(), yes);
            // and (a third of them) through the resolution model fed with the repository's facts
            if r.chance(1, 3) {
                oracle::do_res(&mut rep, &repo, &info, &sp.text);
            }
        }
        drop(batch);
        drop(repo);
        let _ = std::fs::remove_dir_all(&info.dir);
    }
    rep.finish();
}
