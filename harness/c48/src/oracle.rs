//! Oracle: `git rev-parse <spec> --` versus `gix::Repository::rev_parse(spec)` on random repositories.
//! A repository is a pure function of its seed (fixed identities and dates), so `rev <seed> <spec>`
//! ops can be replayed.
use hcommon::*;
use std::collections::BTreeMap;
use std::path::{Path, PathBuf};

pub struct RepoInfo {
    pub dir: PathBuf,
    pub seed: u64,
    /// every commit reachable from a ref, with its parents
    pub parents: BTreeMap<String, Vec<String>>,
    pub commits: Vec<String>,
    pub branches: Vec<String>,
    /// (name, what it points at: "commit" | "tag" | "tree" | "blob", annotated?)
    pub tags: Vec<(String, &'static str, bool)>,
    pub trees: Vec<String>,
    pub blobs: Vec<String>,
    pub tag_objects: Vec<String>,
    pub paths: Vec<String>,
    pub describes: Vec<String>,
    /// (hex prefix, description of what shares it)
    pub ambiguous: Vec<(String, String)>,
    pub hexrefs: Vec<String>,
    pub conflicted: bool,
    pub words: Vec<&'static str>,
    /// the repository as facts for the resolution model (`res` ops), see `export_facts`
    pub facts: String,
}

fn git_at(dir: &Path, date: i64, args: &[&str]) -> GitOut {
    let mut c = git_cmd(dir);
    let d = format!("{date} +0000");
    c.env("GIT_AUTHOR_DATE", &d).env("GIT_COMMITTER_DATE", &d);
    c.args(args)
        .stdin(std::process::Stdio::null())
        .stdout(std::process::Stdio::piped())
        .stderr(std::process::Stdio::piped());
    let out = c.output().expect("spawn git");
    GitOut {
        ok: out.status.success(),
        code: out.status.code().unwrap_or(-1),
        stdout: out.stdout,
        stderr: out.stderr,
    }
}

fn must(dir: &Path, date: i64, args: &[&str]) -> String {
    let o = git_at(dir, date, args);
    if !o.ok {
        panic!("git {:?} failed: {}", args, String::from_utf8_lossy(&o.stderr));
    }
    String::from_utf8_lossy(&o.stdout).trim_end().to_string()
}

const WORDS: &[&str] = &["fix", "add", "feature", "bug", "release", "wip", "Merge", "x.y", "a+b", "[tag]"];

fn message(r: &mut Rng, n: usize) -> String {
    let a = r.pick(WORDS);
    let b = r.pick(WORDS);
    match r.below(4) {
        0 => format!("{a} {b} #{n}"),
        1 => format!("{a} #{n}\n\nbody {b}\nsecond line"),
        2 => format!("{a}{n}"),
        _ => format!("{a} {b} {n} end"),
    }
}

fn write_file(dir: &Path, rel: &str, content: &str) {
    let p = dir.join(rel);
    std::fs::create_dir_all(p.parent().unwrap()).unwrap();
    std::fs::write(p, content).unwrap();
}

fn sha1_hex(kind: gix_object::Kind, data: &[u8]) -> String {
    gix_object::compute_hash(gix_hash::Kind::Sha1, kind, data).to_string()
}

struct Clock {
    t: i64,
    counter: usize,
}

impl Clock {
    fn tick(&mut self, r: &mut Rng) -> i64 {
        self.t += match r.below(5) {
            0 => 0,
            1 => 1,
            _ => r.range(2, 5000),
        };
        self.t
    }
    fn commit(&mut self, r: &mut Rng, dir: &Path, touch: &[&str]) {
        self.counter += 1;
        for f in touch {
            write_file(dir, f, &format!("{f} {} {}\n", self.counter, r.below(1000)));
        }
        let d = self.tick(r);
        must(dir, d, &["add", "-A"]);
        let msg = message(r, self.counter);
        must(dir, d, &["commit", "-q", "--allow-empty", "-m", &msg]);
    }
}

pub fn build_repo(seed: u64, scratch: &Scratch) -> RepoInfo {
    let mut r = Rng::new(seed ^ 0x48_48_48);
    let dir = scratch.join(format!("repo-{seed}"));
    let _ = std::fs::remove_dir_all(&dir);
    std::fs::create_dir_all(&dir).unwrap();
    let mut ck = Clock { t: 1_600_000_000, counter: 0 };
    must(&dir, ck.t, &["init", "-q", "."]);
    let files = ["a", "b.txt", "d/e", "d/f/g", "0:x", "sp ace"];
    ck.commit(&mut r, &dir, &files);
    for _ in 0..1 + r.usize(3) {
        let f = *r.pick(&files);
        ck.commit(&mut r, &dir, &[f]);
    }
    // a side branch, merged back
    let mut branches = vec!["main".to_string()];
    if r.chance(4, 5) {
        let back = r.usize(2);
        let d = ck.tick(&mut r);
        must(&dir, d, &["checkout", "-q", "-b", "dev", &format!("HEAD~{back}")]);
        branches.push("dev".into());
        for _ in 0..1 + r.usize(2) {
            ck.commit(&mut r, &dir, &["dev.txt"]);
        }
        must(&dir, d, &["checkout", "-q", "main"]);
        ck.commit(&mut r, &dir, &["a"]);
        let d = ck.tick(&mut r);
        let msg = message(&mut r, 100);
        must(&dir, d, &["merge", "-q", "--no-ff", "-m", &msg, "dev"]);
        if r.chance(1, 2) {
            ck.commit(&mut r, &dir, &["b.txt"]);
        }
    }
    if r.chance(1, 2) {
        let d = ck.tick(&mut r);
        must(&dir, d, &["checkout", "-q", "-b", "feat/x-y"]);
        branches.push("feat/x-y".into());
        ck.commit(&mut r, &dir, &["d/e"]);
        must(&dir, d, &["checkout", "-q", "main"]);
    }
    if r.chance(1, 2) {
        // more reflog entries on main
        let d = ck.tick(&mut r);
        must(&dir, d, &["reset", "-q", "--hard", "HEAD~1"]);
        must(&dir, d, &["reset", "-q", "--hard", "HEAD@{1}"]);
    }
    // tags
    let mut tags: Vec<(String, &'static str, bool)> = Vec::new();
    let t = ck.t;
    let all = must(&dir, t, &["rev-list", "--all"]);
    let commits_now: Vec<String> = all.lines().map(str::to_string).collect();
    let d = ck.tick(&mut r);
    let c0 = r.pick(&commits_now).clone();
    must(&dir, d, &["tag", "lw", &c0]);
    tags.push(("lw".into(), "commit", false));
    let c1 = r.pick(&commits_now).clone();
    must(&dir, d, &["tag", "-a", "-m", "release one", "v1.0", &c1]);
    tags.push(("v1.0".into(), "commit", true));
    if r.chance(1, 2) {
        must(&dir, d, &["tag", "-a", "-m", "tag of tag", "vv", "v1.0"]);
        tags.push(("vv".into(), "tag", true));
    }
    if r.chance(1, 2) {
        must(&dir, d, &["tag", "-a", "-m", "tree tag", "ttree", &format!("{c1}^{{tree}}")]);
        tags.push(("ttree".into(), "tree", true));
    }
    if r.chance(1, 2) {
        must(&dir, d, &["tag", "-a", "-m", "blob tag", "tblob", &format!("{c1}:a")]);
        tags.push(("tblob".into(), "blob", true));
    }
    // upstream configuration for main
    if r.chance(3, 4) {
        let up = r.pick(&commits_now).clone();
        must(&dir, d, &["update-ref", "refs/remotes/origin/main", &up]);
        must(&dir, d, &["config", "remote.origin.url", "https://example.com/x.git"]);
        must(&dir, d, &["config", "remote.origin.fetch", "+refs/heads/*:refs/remotes/origin/*"]);
        must(&dir, d, &["config", "branch.main.remote", "origin"]);
        must(&dir, d, &["config", "branch.main.merge", "refs/heads/main"]);
    }
    // a ref whose name looks like an abbreviated object id of another commit
    let mut hexrefs = Vec::new();
    if r.chance(1, 2) {
        let target = r.pick(&commits_now).clone();
        let other = r.pick(&commits_now).clone();
        let name = other[..6].to_string();
        must(&dir, d, &["update-ref", &format!("refs/heads/{name}"), &target]);
        hexrefs.push(name);
    }
    // objects
    let mut parents = BTreeMap::new();
    for line in must(&dir, t, &["rev-list", "--all", "--parents"]).lines() {
        let mut it = line.split(' ').map(str::to_string);
        let c = it.next().unwrap();
        parents.insert(c, it.collect::<Vec<_>>());
    }
    let commits: Vec<String> = parents.keys().cloned().collect();
    let mut trees = Vec::new();
    let mut blobs = Vec::new();
    let mut tag_objects = Vec::new();
    for line in must(&dir, t, &["cat-file", "--batch-all-objects", "--batch-check"]).lines() {
        let f: Vec<&str> = line.split(' ').collect();
        match f[1] {
            "tree" => trees.push(f[0].to_string()),
            "blob" => blobs.push(f[0].to_string()),
            "tag" => tag_objects.push(f[0].to_string()),
            _ => {}
        }
    }
    // describe strings
    let mut describes = Vec::new();
    for c in commits.iter().take(3) {
        let o = git_at(&dir, t, &["describe", "--tags", "--long", c]);
        if o.ok {
            describes.push(String::from_utf8_lossy(&o.stdout).trim().to_string());
        }
    }
    // ambiguous abbreviated ids: brute-force a blob (and sometimes a commit) sharing 4–5 hex digits
    let mut ambiguous = Vec::new();
    let targets: Vec<(String, &str)> = commits
        .iter()
        .map(|c| (c.clone(), "commit"))
        .chain(trees.iter().take(2).map(|c| (c.clone(), "tree")))
        .chain(tag_objects.iter().take(1).map(|c| (c.clone(), "tag")))
        .chain(blobs.iter().take(1).map(|c| (c.clone(), "blob")))
        .collect();
    let (tgt, tkind) = r.pick(&targets).clone();
    let plen = 4;
    let mut i = 0u64;
    loop {
        let content = format!("collide {seed} {i}\n");
        let id = sha1_hex(gix_object::Kind::Blob, content.as_bytes());
        if id[..plen] == tgt[..plen] && id != tgt {
            let o = git(&dir, &["hash-object", "-w", "--stdin"], Some(content.as_bytes()));
            assert!(o.ok);
            ambiguous.push((tgt[..plen].to_string(), format!("{tkind}+blob")));
            break;
        }
        i += 1;
        if i > 40_000_000 {
            break;
        }
    }
    if r.chance(2, 3) {
        // a second COMMIT sharing a prefix with an existing commit
        let base = r.pick(&commits).clone();
        let tree = must(&dir, t, &["rev-parse", &format!("{base}^{{tree}}")]);
        let mut i = 0u64;
        loop {
            let body = format!(
                "tree {tree}\nparent {base}\nauthor A U Thor <author@example.com> 1600000000 +0000\ncommitter C O Mitter <committer@example.com> 1600000000 +0000\n\ncollide {i}\n"
            );
            let id = sha1_hex(gix_object::Kind::Commit, body.as_bytes());
            if id[..4] == base[..4] && id != base {
                let o = git(&dir, &["hash-object", "-w", "-t", "commit", "--stdin"], Some(body.as_bytes()));
                assert!(o.ok);
                ambiguous.push((base[..4].to_string(), "commit+commit".to_string()));
                parents.insert(id, vec![base.clone()]);
                break;
            }
            i += 1;
            if i > 40_000_000 {
                break;
            }
        }
    }
    // a blob sharing 4 hex digits with a commit that has a parent: the prefix is unique only among
    // commits, which is what a describe name (`<anything>-<n>-g<hex>`) asks for — also the second time
    // `<describe>^-<n>` resolves it
    if let Some(base) = commits.iter().find(|c| parents.get(*c).map_or(false, |p| !p.is_empty())).cloned() {
        if !ambiguous.iter().any(|(p, _)| base.starts_with(p.as_str())) {
            let mut i = 0u64;
            loop {
                let content = format!("describe collide {seed} {i}\n");
                let id = sha1_hex(gix_object::Kind::Blob, content.as_bytes());
                if id[..4] == base[..4] {
                    let o = git(&dir, &["hash-object", "-w", "--stdin"], Some(content.as_bytes()));
                    assert!(o.ok);
                    ambiguous.push((base[..4].to_string(), "commit-with-parent+blob".to_string()));
                    break;
                }
                i += 1;
                if i > 40_000_000 {
                    break;
                }
            }
        }
    }
    // index state: a staged change, or an unresolved merge conflict (stages 1,2,3)
    let mut conflicted = false;
    if r.chance(1, 2) {
        let d = ck.tick(&mut r);
        must(&dir, d, &["checkout", "-q", "-b", "side", "HEAD~1"]);
        write_file(&dir, "a", "side version\n");
        must(&dir, d, &["commit", "-q", "-am", "side change"]);
        must(&dir, d, &["checkout", "-q", "main"]);
        write_file(&dir, "a", "main version\n");
        must(&dir, d, &["commit", "-q", "-am", "main change"]);
        let o = git_at(&dir, d, &["merge", "-q", "side"]);
        conflicted = !o.ok;
        branches.push("side".into());
        for line in must(&dir, t, &["rev-list", "--all", "--parents"]).lines() {
            let mut it = line.split(' ').map(str::to_string);
            let c = it.next().unwrap();
            parents.entry(c).or_insert_with(|| it.collect::<Vec<_>>());
        }
    } else if r.chance(1, 2) {
        write_file(&dir, "b.txt", "staged\n");
        write_file(&dir, "new", "new staged\n");
        must(&dir, t, &["add", "-A"]);
    }
    let commits: Vec<String> = parents.keys().cloned().collect();
    RepoInfo {
        dir,
        seed,
        parents,
        commits,
        branches,
        tags,
        trees,
        blobs,
        tag_objects,
        paths: vec!["a", "b.txt", "d/e", "d/f/g", "d", "d/f", "d/", "nosuch", "0:x", "sp ace", "dev.txt", "new", "./a", "../a"]
            .into_iter()
            .map(str::to_string)
            .collect(),
        describes,
        ambiguous,
        hexrefs,
        conflicted,
        words: WORDS.to_vec(),
        facts: String::new(),
    }
    .with_facts()
}

impl RepoInfo {
    fn with_facts(mut self) -> Self {
        self.facts = export_facts(&self.dir);
        self
    }
}

/// Everything the resolution model needs to know about the repository, as op-line tokens:
/// objects (`o id kind parents tree target`), refs (`r name obj`), HEAD's branch (`h name`), reflogs
/// (`l name ids`, newest first), prior checkouts (`c from-branch previous-id`), tracking branches
/// (`u branch push? ref`), tree entries by path (`p tree path obj`) and index entries (`i path stage obj`).
/// All of it is read with plumbing commands of the git binary or straight from files under `.git`.
pub fn export_facts(dir: &Path) -> String {
    use std::fmt::Write as _;
    let out = |args: &[&str]| -> Vec<u8> { git(dir, args, None).stdout };
    let text = |args: &[&str]| -> String { String::from_utf8_lossy(&out(args)).to_string() };
    let mut ids: Vec<(String, String)> = Vec::new();
    for line in text(&["cat-file", "--batch-all-objects", "--batch-check"]).lines() {
        let f: Vec<&str> = line.split(' ').collect();
        ids.push((f[0].to_string(), f[1].to_string()));
    }
    let idx: BTreeMap<String, usize> = ids.iter().enumerate().map(|(i, (h, _))| (h.clone(), i)).collect();
    let ix = |h: &str| -> String { idx.get(h).map_or("-".to_string(), |i| i.to_string()) };
    // commits and tags: parents / tree / target from their content
    let wanted: Vec<&(String, String)> = ids.iter().filter(|(_, k)| k == "commit" || k == "tag").collect();
    let input: String = wanted.iter().map(|(h, _)| format!("{h}\n")).collect();
    let raw = git(dir, &["cat-file", "--batch"], Some(input.as_bytes())).stdout;
    let mut meta: BTreeMap<String, (Vec<String>, String, String)> = BTreeMap::new();
    let mut pos = 0usize;
    while pos < raw.len() {
        let nl = match raw[pos..].iter().position(|b| *b == b'\n') {
            Some(n) => pos + n,
            None => break,
        };
        let header = String::from_utf8_lossy(&raw[pos..nl]).to_string();
        let f: Vec<&str> = header.split(' ').collect();
        if f.len() != 3 {
            break;
        }
        let size: usize = f[2].parse().unwrap_or(0);
        let body = &raw[nl + 1..nl + 1 + size];
        let (mut parents, mut tree, mut target) = (Vec::new(), String::new(), String::new());
        for l in String::from_utf8_lossy(body).lines() {
            if l.is_empty() {
                break;
            }
            if let Some(r) = l.strip_prefix("tree ") {
                tree = r.to_string();
            } else if let Some(r) = l.strip_prefix("parent ") {
                parents.push(r.to_string());
            } else if let Some(r) = l.strip_prefix("object ") {
                target = r.to_string();
            }
        }
        meta.insert(f[0].to_string(), (parents, tree, target));
        pos = nl + 1 + size + 1;
    }
    let mut s = String::new();
    for (h, k) in &ids {
        let kk = match k.as_str() {
            "commit" => "c",
            "tree" => "t",
            "blob" => "b",
            _ => "T",
        };
        let (ps, tr, tg) = meta.get(h).cloned().unwrap_or_default();
        let ps = if ps.is_empty() { "-".to_string() } else { ps.iter().map(|p| ix(p)).collect::<Vec<_>>().join(",") };
        let _ = write!(s, " o {h} {kk} {ps} {} {}", if tr.is_empty() { "-".into() } else { ix(&tr) }, if tg.is_empty() { "-".into() } else { ix(&tg) });
    }
    for line in text(&["for-each-ref", "--format=%(refname) %(objectname)"]).lines() {
        if let Some((n, h)) = line.split_once(' ') {
            let _ = write!(s, " r {} {}", hex(n.as_bytes()), ix(h));
        }
    }
    let head = text(&["rev-parse", "-q", "--verify", "HEAD"]);
    if !head.trim().is_empty() {
        let _ = write!(s, " r {} {}", hex(b"HEAD"), ix(head.trim()));
    }
    let sym = git(dir, &["symbolic-ref", "-q", "HEAD"], None);
    if sym.ok {
        let _ = write!(s, " h {}", hex(String::from_utf8_lossy(&sym.stdout).trim().as_bytes()));
    }
    // reflogs, newest first, and the prior checkouts recorded in HEAD's log
    fn logs(root: &Path, rel: &str, acc: &mut Vec<(String, PathBuf)>) {
        if let Ok(rd) = std::fs::read_dir(root.join(rel)) {
            for e in rd.filter_map(|e| e.ok()) {
                let name = e.file_name().to_string_lossy().to_string();
                let r = if rel.is_empty() { name.clone() } else { format!("{rel}/{name}") };
                if e.path().is_dir() {
                    logs(root, &r, acc);
                } else {
                    acc.push((r, e.path()));
                }
            }
        }
    }
    let mut files = Vec::new();
    logs(&dir.join(".git/logs"), "", &mut files);
    files.sort();
    for (name, path) in files {
        let content = std::fs::read(&path).unwrap_or_default();
        let mut news = Vec::new();
        let mut checkouts = Vec::new();
        for l in String::from_utf8_lossy(&content).lines() {
            let (meta_part, msg) = l.split_once('\t').unwrap_or((l, ""));
            let f: Vec<&str> = meta_part.split(' ').collect();
            if f.len() < 2 {
                continue;
            }
            news.push(ix(f[1]));
            if let Some(rest) = msg.strip_prefix("checkout: moving from ") {
                if let Some(p) = rest.find(" to ") {
                    checkouts.push((rest[..p].to_string(), ix(f[0])));
                }
            }
        }
        news.reverse();
        let _ = write!(s, " l {} {}", hex(name.as_bytes()), if news.is_empty() { "-".to_string() } else { news.join(",") });
        if name == "HEAD" {
            checkouts.reverse();
            for (from, prev) in checkouts {
                let _ = write!(s, " c {} {}", hex(from.as_bytes()), prev);
            }
        }
    }
    // tracking branches (fetch and push resolve to the same ref in these repositories)
    for b in text(&["for-each-ref", "--format=%(refname:short)", "refs/heads"]).lines() {
        let remote = text(&["config", "--get", &format!("branch.{b}.remote")]);
        let merge = text(&["config", "--get", &format!("branch.{b}.merge")]);
        if !remote.trim().is_empty() && merge.trim().starts_with("refs/heads/") {
            let t = format!("refs/remotes/{}/{}", remote.trim(), &merge.trim()["refs/heads/".len()..]);
            for push in [0, 1] {
                let _ = write!(s, " u {} {push} {}", hex(format!("refs/heads/{b}").as_bytes()), hex(t.as_bytes()));
            }
        }
    }
    // tree entries by path, for every tree object (with and without a trailing slash for directories)
    for (h, k) in &ids {
        if k != "tree" {
            continue;
        }
        let raw = out(&["ls-tree", "-r", "-t", "-z", h]);
        for rec in raw.split(|b| *b == 0).filter(|r| !r.is_empty()) {
            let tab = match rec.iter().position(|b| *b == b'\t') {
                Some(t) => t,
                None => continue,
            };
            let f: Vec<&str> = std::str::from_utf8(&rec[..tab]).unwrap_or("").split(' ').collect();
            if f.len() != 3 {
                continue;
            }
            let path = &rec[tab + 1..];
            let _ = write!(s, " p {} {} {}", ix(h), hex(path), ix(f[2]));
            if f[1] == "tree" {
                let mut p2 = path.to_vec();
                p2.push(b'/');
                let _ = write!(s, " p {} {} {}", ix(h), hex(&p2), ix(f[2]));
            }
        }
    }
    let raw = out(&["ls-files", "-s", "-z"]);
    for rec in raw.split(|b| *b == 0).filter(|r| !r.is_empty()) {
        if let Some(tab) = rec.iter().position(|b| *b == b'\t') {
            let f: Vec<&str> = std::str::from_utf8(&rec[..tab]).unwrap_or("").split(' ').collect();
            if f.len() == 3 {
                let _ = write!(s, " i {} {} {}", hex(&rec[tab + 1..]), f[2], ix(f[1]));
            }
        }
    }
    s
}

/// what `Repository::rev_parse` returned, as the resolution model prints it
pub fn gix_outcome(repo: &gix::Repository, spec: &str) -> String {
    let sp = spec.to_string();
    match catch(|| repo.rev_parse(sp.as_str()).map(|s| s.detach())) {
        Err(_) => "panic".into(),
        Ok(Err(_)) => "err".into(),
        Ok(Ok(s)) => {
            use gix_revision::Spec as S;
            match s {
                S::Include(a) => format!("ok include {a}"),
                S::Exclude(a) => format!("ok exclude {a}"),
                S::Range { from, to } => format!("ok range {from} {to}"),
                S::Merge { theirs, ours } => format!("ok merge {theirs} {ours}"),
                S::IncludeOnlyParents(a) => format!("ok incparents {a}"),
                S::ExcludeParents(a) => format!("ok excparents {a}"),
            }
        }
    }
}

/// the `res` correspondence case: the resolution model predicts gitoxide's answer from the facts
pub fn do_res(rep: &mut Report, repo: &gix::Repository, info: &RepoInfo, spec: &str) {
    // commit-message search is an opaque function of the model: specs using it are not predicted
    if spec.contains("^{/") || spec.starts_with(":/") || spec.contains(' ') || spec.is_empty() {
        return;
    }
    let op = format!("res {}{}", hex(spec.as_bytes()), info.facts);
    let obs = gix_outcome(repo, spec);
    rep.bucket(if obs.starts_with("ok") { "res:ok" } else { "res:err" });
    rep.case(&op, &obs, obs.starts_with("ok"));
}


/// one spec to check: the text and a stable label (no object ids) used as finding key
pub struct Spec {
    pub text: String,
    pub label: String,
    /// a single revision (no `^r`, range or `^@ ^! ^-` suffix): `git cat-file --batch-check` can answer
    pub single: bool,
    /// classification hints for recorded differences
    pub nameless_anchor: bool,
    pub has_navs: bool,
    pub ambiguous_anchor: bool,
}

struct Anchor {
    text: String,
    label: String,
    commitish: bool,
    nameless: bool,
    ambiguous: bool,
}

fn gen_anchor(r: &mut Rng, info: &RepoInfo, want_commitish: bool) -> Anchor {
    let abbrev = |r: &mut Rng, id: &str| -> String { id[..4 + r.usize(9)].to_string() };
    let mk = |t: String, l: String, c: bool| Anchor { text: t, label: l, commitish: c, nameless: false, ambiguous: false };
    for _ in 0..20 {
        let a = match r.below(25) {
            0 => mk("HEAD".into(), "HEAD".into(), true),
            1 => mk("@".into(), "@".into(), true),
            2 | 3 => {
                let b = r.pick(&info.branches).clone();
                mk(b.clone(), format!("<branch {b}>"), true)
            }
            4 => {
                let b = r.pick(&info.branches).clone();
                let p = *r.pick(&["refs/heads/", "heads/"]);
                mk(format!("{p}{b}"), format!("{p}<branch {b}>"), true)
            }
            5 | 6 => {
                let (t, k, ann) = r.pick(&info.tags).clone();
                let p = *r.pick(&["", "", "refs/tags/", "tags/"]);
                mk(format!("{p}{t}"), format!("{p}<tag {t} of {k} annotated={ann}>"), k == "commit" || k == "tag")
            }
            7 => {
                let s = *r.pick(&["origin/main", "refs/remotes/origin/main", "remotes/origin/main"]);
                mk(s.into(), s.into(), true)
            }
            8 | 9 => {
                let c = r.pick(&info.commits).clone();
                if r.chance(1, 2) {
                    mk(c, "<full commit id>".into(), true)
                } else {
                    mk(abbrev(r, &c), "<abbrev commit id>".into(), true)
                }
            }
            10 => {
                let c = r.pick(&info.trees).clone();
                if r.chance(1, 2) {
                    mk(c, "<full tree id>".into(), false)
                } else {
                    mk(abbrev(r, &c), "<abbrev tree id>".into(), false)
                }
            }
            11 => {
                let c = r.pick(&info.blobs).clone();
                if r.chance(1, 2) {
                    mk(c, "<full blob id>".into(), false)
                } else {
                    mk(abbrev(r, &c), "<abbrev blob id>".into(), false)
                }
            }
            12 if !info.tag_objects.is_empty() => {
                let c = r.pick(&info.tag_objects).clone();
                if r.chance(1, 2) {
                    mk(c, "<full tag id>".into(), false)
                } else {
                    mk(abbrev(r, &c), "<abbrev tag id>".into(), false)
                }
            }
            13 | 14 if !info.ambiguous.is_empty() => {
                let (p, what) = r.pick(&info.ambiguous).clone();
                let mut a = mk(p, format!("<ambiguous prefix {what}>"), false);
                a.ambiguous = true;
                a
            }
            15 if !info.describes.is_empty() => {
                let d = r.pick(&info.describes).clone();
                let hexpart = d.rsplit("-g").next().unwrap().to_string();
                match r.below(3) {
                    0 => mk(d, "<describe>".into(), true),
                    // only the `-g<hex>` suffix matters to git
                    1 => mk(format!("anything-7-g{hexpart}"), "anything-7-g<hex>".into(), true),
                    _ => mk(format!("{hexpart}-dirty"), "<hex>-dirty".into(), false),
                }
            }
            16 => {
                let s = *r.pick(&["nosuch", "deadbeef", "0000", "refs/heads/nosuch", "dead-1-gbeef", "v9.9-1-g0123456"]);
                mk(s.into(), s.into(), false)
            }
            17 => {
                let b = r.pick(&info.branches).clone();
                let n = *r.pick(&[0usize, 1, 1, 2, 3, 99]);
                mk(format!("{b}@{{{n}}}"), format!("<branch {b}>@{{{n}}}"), n < 3)
            }
            18 => {
                let n = *r.pick(&[0usize, 1, 2, 5, 99]);
                let h = *r.pick(&["", "HEAD"]);
                let mut a = mk(format!("{h}@{{{n}}}"), format!("{h}@{{{n}}}"), n < 3);
                a.nameless = h.is_empty();
                a
            }
            19 => {
                let n = *r.pick(&[1usize, 1, 2, 3, 9]);
                let mut a = mk(format!("@{{-{n}}}"), format!("@{{-{n}}}"), n < 3);
                a.nameless = true;
                a
            }
            20 => {
                let b = *r.pick(&["", "", "main", "dev", "HEAD", "nosuch"]);
                let u = *r.pick(&["u", "upstream", "UPSTREAM", "push"]);
                let mut a = mk(format!("{b}@{{{u}}}"), format!("{b}@{{{u}}}"), b.is_empty() || b == "main");
                a.nameless = b.is_empty();
                a
            }
            21 => {
                let b = *r.pick(&["", "main", "HEAD"]);
                let d = *r.pick(&["2020-09-14", "1 year ago", "now", "1600000100 +0000"]);
                let mut a = mk(format!("{b}@{{{d}}}"), format!("{b}@{{<date>}}"), false);
                a.nameless = b.is_empty();
                a
            }
            22 if !info.hexrefs.is_empty() => {
                let h = r.pick(&info.hexrefs).clone();
                mk(h, "<ref named like an abbreviated id>".into(), true)
            }
            _ => {
                let b = r.pick(&info.branches).clone();
                mk(b.clone(), format!("<branch {b}>"), true)
            }
        };
        let mut a = a;
        if info.ambiguous.iter().any(|(p, _)| p.starts_with(&a.text)) {
            a.ambiguous = true;
            a.label = format!("<ambiguous prefix, {}>", a.label);
        }
        if !want_commitish || a.commitish {
            return a;
        }
    }
    mk("HEAD".into(), "HEAD".into(), true)
}

/// navigation; `commit_only` keeps the result a commit (for the sides of ranges)
fn gen_navs(r: &mut Rng, info: &RepoInfo, commit_only: bool) -> String {
    let mut s = String::new();
    let n = match r.below(8) {
        0..=2 => 0,
        3 | 4 => 1,
        5 | 6 => 2,
        _ => 3,
    };
    for _ in 0..n {
        match r.below(if commit_only { 13 } else { 16 }) {
            0 => s.push('~'),
            1 | 2 => s.push_str(&format!("~{}", r.below(4))),
            3 => s.push('^'),
            4 | 5 => s.push_str(&format!("^{}", r.below(3))),
            6 | 7 => s.push_str("^{commit}"),
            8 | 9 => s.push_str("^{}"),
            10 | 11 => {
                let w = *r.pick(&info.words);
                let w = match r.below(6) {
                    0 => format!("!-{w}"),
                    1 => format!("^{w}"),
                    2 => format!("{w}.*[0-9]"),
                    _ => w.to_string(),
                };
                s.push_str(&format!("^{{/{w}}}"));
            }
            12 => s.push_str("~20"),
            13 => s.push_str("^{tree}"),
            14 => s.push_str(*r.pick(&["^{blob}", "^{tag}", "^{object}"])),
            _ => s.push_str("^{tree}"),
        }
    }
    if !commit_only && r.chance(1, 5) {
        s.push(':');
        let p: &String = r.pick(&info.paths[..]);
        s.push_str(p);
    }
    s
}

pub fn gen_spec(r: &mut Rng, info: &RepoInfo) -> Spec {
    let rev = |r: &mut Rng, commit_only: bool| -> (String, String, Anchor, bool) {
        // the sides of ranges are commit-ish nine times out of ten
        let strict = commit_only && !r.chance(1, 10);
        let a = gen_anchor(r, info, strict);
        let mut n = gen_navs(r, info, strict);
        if commit_only {
            if let Some(i) = n.find(':') {
                n.truncate(i);
            }
        }
        (format!("{}{}", a.text, n), format!("{}{}", a.label, n), a, !n.is_empty())
    };
    let mut sp = Spec { text: String::new(), label: String::new(), single: true, nameless_anchor: false, has_navs: false, ambiguous_anchor: false };
    let describe_prefix = info.ambiguous.iter().find(|(_, w)| w == "commit-with-parent+blob").map(|(p, _)| p.clone());
    match r.below(21) {
        20 if describe_prefix.is_some() => {
            // a describe name whose hex part is unique only among commits
            let p = describe_prefix.expect("checked");
            let name = *r.pick(&["v1.0", "anything", "x"]);
            let n = *r.pick(&[0usize, 2, 7]);
            let suf = *r.pick(&["", "^-", "^-1", "^-", "^-1", "^-2", "^@", "^!", "~1", "^{tree}", "^0"]);
            sp.text = format!("{name}-{n}-g{p}{suf}");
            sp.label = format!("<describe name, hex part ambiguous with a blob>{suf}");
            sp.single = suf.is_empty() || suf.starts_with('~') || suf.starts_with("^{") || suf == "^0";
        }
        0..=8 | 17.. => {
            let (t, l, a, navs) = rev(r, false);
            sp.text = t;
            sp.label = l;
            sp.ambiguous_anchor = a.ambiguous;
            sp.has_navs = navs;
        }
        9 => {
            let (t, l, a, _) = rev(r, true);
            sp.text = format!("^{t}");
            sp.label = format!("^{l}");
            sp.single = false;
            sp.ambiguous_anchor = a.ambiguous;
        }
        10 | 11 => {
            let (a, la, aa, _) = if r.chance(1, 6) {
                (String::new(), String::new(), gen_anchor(r, info, true), false)
            } else {
                rev(r, true)
            };
            let (b, lb, ab, _) = if r.chance(1, 6) {
                (String::new(), String::new(), gen_anchor(r, info, true), false)
            } else {
                // (git reads ANY text ending in `-g<hex>` as describe output, so no describe names after `..`)
                let mut x = rev(r, true);
                while x.0.contains("-g") {
                    x = rev(r, true);
                }
                x
            };
            let dots = if r.chance(1, 2) { ".." } else { "..." };
            sp.text = format!("{a}{dots}{b}");
            sp.label = format!("{la}{dots}{lb}");
            sp.single = false;
            sp.ambiguous_anchor = (aa.ambiguous && !a.is_empty()) || (ab.ambiguous && !b.is_empty());
        }
        12 | 13 => {
            let (t, l, a, navs) = rev(r, true);
            let suf = *r.pick(&["^@", "^!", "^-", "^-1", "^-2", "^-3"]);
            sp.text = format!("{t}{suf}");
            sp.label = format!("{l}{suf}");
            sp.single = false;
            sp.nameless_anchor = a.nameless;
            sp.has_navs = navs || a.text.contains("@{");
            sp.ambiguous_anchor = a.ambiguous;
        }
        14 => {
            let w = *r.pick(&info.words);
            let w = match r.below(5) {
                0 => format!("!-{w}"),
                1 => format!("^{w}"),
                _ => w.to_string(),
            };
            sp.text = format!(":/{w}");
            sp.label = sp.text.clone();
        }
        _ => {
            let p: &String = r.pick(&info.paths[..]);
            let st = *r.pick(&["", "", "0:", "1:", "2:", "3:"]);
            let tag = if info.conflicted { " (conflicted index)" } else { "" };
            sp.text = format!(":{st}{p}");
            sp.label = format!(":{st}{p}{tag}");
        }
    }
    sp
}

/// a long-running `git cat-file --batch-check`: resolves single revisions without a process per spec
pub struct Batch {
    child: std::process::Child,
    stdin: std::process::ChildStdin,
    stdout: std::io::BufReader<std::process::ChildStdout>,
}

impl Batch {
    pub fn new(dir: &Path) -> Batch {
        let mut c = git_cmd(dir);
        c.args(["cat-file", "--batch-check"])
            .stdin(std::process::Stdio::piped())
            .stdout(std::process::Stdio::piped())
            .stderr(std::process::Stdio::null());
        let mut child = c.spawn().expect("spawn git cat-file");
        let stdin = child.stdin.take().unwrap();
        let stdout = std::io::BufReader::new(child.stdout.take().unwrap());
        Batch { child, stdin, stdout }
    }
    /// `Some(Ok(oid))`, `Some(Err(reason))`, or `None` if the process died on this input
    pub fn ask(&mut self, spec: &str) -> Option<Result<String, String>> {
        use std::io::{BufRead, Write};
        if writeln!(self.stdin, "{spec}").is_err() || self.stdin.flush().is_err() {
            return None;
        }
        let mut line = String::new();
        match self.stdout.read_line(&mut line) {
            Ok(0) | Err(_) => None,
            Ok(_) => {
                let line = line.trim_end_matches('\n');
                if let Some(rest) = line.strip_prefix(spec) {
                    if rest == " missing" || rest == " ambiguous" {
                        return Some(Err(rest.trim().to_string()));
                    }
                }
                let f: Vec<&str> = line.split(' ').collect();
                if f.len() == 3 && f[0].len() == 40 && f[0].bytes().all(|b| b.is_ascii_hexdigit()) {
                    Some(Ok(f[0].to_string()))
                } else {
                    Some(Err(line.to_string()))
                }
            }
        }
    }
}

impl Drop for Batch {
    fn drop(&mut self) {
        let _ = self.child.kill();
        let _ = self.child.wait();
    }
}

/// canonical expectation lines from gitoxide's result, in the order `git rev-parse` prints them
fn gix_lines(repo: &gix::Repository, info: &RepoInfo, spec: &str) -> Result<(Vec<String>, bool), String> {
    let parents_of = |id: &gix_hash::ObjectId| -> Vec<String> {
        let h = id.to_string();
        match info.parents.get(&h) {
            Some(p) => p.clone(),
            None => {
                let out = git(&info.dir, &["rev-list", "--parents", "-n", "1", &h], None);
                String::from_utf8_lossy(&out.stdout)
                    .trim()
                    .split(' ')
                    .skip(1)
                    .map(str::to_string)
                    .collect()
            }
        }
    };
    match repo.rev_parse(spec) {
        Err(e) => Err(format!("{e}").lines().next().unwrap_or("").to_string()),
        Ok(s) => {
            use gix_revision::Spec as S;
            Ok(match s.detach() {
                S::Include(a) => (vec![a.to_string()], false),
                S::Exclude(a) => (vec![format!("^{a}")], false),
                S::Range { from, to } => (vec![to.to_string(), format!("^{from}")], false),
                // `git rev-parse a...b` prints b, then a, then the merge bases negated
                S::Merge { theirs, ours } => (vec![ours.to_string(), theirs.to_string()], true),
                S::IncludeOnlyParents(a) => (parents_of(&a), false),
                S::ExcludeParents(a) => {
                    let mut v = vec![a.to_string()];
                    v.extend(parents_of(&a).into_iter().map(|p| format!("^{p}")));
                    (v, false)
                }
            })
        }
    }
}

/// the id in `line` with annotated tags followed to their target (keeping a leading `^`)
fn peeled(repo: &gix::Repository, line: &str) -> String {
    let neg = if line.starts_with('^') { "^" } else { "" };
    let hexid = line.trim_start_matches('^');
    match gix_hash::ObjectId::from_hex(hexid.as_bytes()) {
        Err(_) => line.to_string(),
        Ok(id) => match repo.find_object(id).ok().and_then(|o| o.peel_tags_to_end().ok()) {
            Some(o) => format!("{neg}{}", o.id),
            None => line.to_string(),
        },
    }
}

fn is_commitish(repo: &gix::Repository, line: &str) -> bool {
    let hexid = line.trim_start_matches('^');
    match gix_hash::ObjectId::from_hex(hexid.as_bytes()) {
        Err(_) => false,
        Ok(id) => match repo.find_object(id) {
            Err(_) => false,
            Ok(o) => match o.peel_tags_to_end() {
                Ok(o) => o.kind == gix_object::Kind::Commit,
                Err(_) => false,
            },
        },
    }
}

pub fn check_spec(rep: &mut Report, repo: &gix::Repository, info: &RepoInfo, batch: &mut Batch, spec: &Spec) {
    let op = format!("rev {} {}", info.seed, hex(spec.text.as_bytes()));
    if spec.text.starts_with('-') || spec.text.contains('\n') || spec.text.is_empty() {
        return;
    }
    rep.oracle_only(&format!("rev {} {}", info.seed, spec.text), true);
    let mut git_res: Option<Result<Vec<String>, String>> = None;
    if spec.single {
        match batch.ask(&spec.text) {
            Some(Ok(oid)) => git_res = Some(Ok(vec![oid])),
            Some(Err(e)) => git_res = Some(Err(e)),
            None => *batch = Batch::new(&info.dir),
        }
    }
    let git_res = git_res.unwrap_or_else(|| {
        let g = git(&info.dir, &["rev-parse", &spec.text, "--"], None);
        if g.ok {
            let mut lines: Vec<String> = String::from_utf8_lossy(&g.stdout).lines().map(str::to_string).collect();
            if lines.last().map(String::as_str) == Some("--") {
                lines.pop();
            }
            Ok(lines)
        } else {
            Err(String::from_utf8_lossy(&g.stderr).lines().last().unwrap_or("").to_string())
        }
    });
    rep.git_checked(1);
    let text = spec.text.clone();
    let gix_res = catch(|| gix_lines(repo, info, &text));
    rep.oracle_checked();
    let shape = |l: &[String]| -> String {
        l.iter().map(|x| if x.starts_with('^') { "^id" } else { "id" }).collect::<Vec<_>>().join(",")
    };
    let (agree, gix_desc) = match (&gix_res, &git_res) {
        (Err(_), _) => (false, "PANIC".to_string()),
        (Ok(Err(_)), Err(_)) => (true, "err".into()),
        (Ok(Ok((lines, merge))), Ok(gl)) => {
            let same = if *merge {
                gl.len() >= 2 && gl[..2] == lines[..] && gl[2..].iter().all(|l| l.starts_with('^'))
            } else {
                gl == lines
            };
            (same, format!("ok[{}]", shape(lines)))
        }
        (Ok(Ok((lines, _))), Err(_)) => (false, format!("ok[{}]", shape(lines))),
        (Ok(Err(_)), Ok(_)) => (false, "err".into()),
    };
    rep.bucket(match (&git_res, agree) {
        (Ok(_), true) => "rev:agree-ok",
        (Err(_), true) => "rev:agree-err",
        (_, false) => "rev:differ",
    });
    if agree {
        return;
    }
    // `:/<regex>` and `^{/<regex>}` name the YOUNGEST matching commit; when the two answers are commits
    // with the same committer time, which one is "youngest" depends on the order in which references
    // (git) or equal-time queue entries (gitoxide) are visited — not specified by gitrevisions(7)
    if spec.text.starts_with(":/") || spec.text.contains("^{/") {
        if let (Ok(Ok((a, _))), Ok(b)) = (&gix_res, &git_res) {
            let time_of = |hexid: &str| -> Option<i64> {
                let id = gix_hash::ObjectId::from_hex(hexid.trim_start_matches('^').as_bytes()).ok()?;
                Some(repo.find_commit(id).ok()?.time().ok()?.seconds)
            };
            if a.len() == b.len()
                && !a.is_empty()
                && a.iter().zip(b.iter()).all(|(x, y)| x == y || (time_of(x).is_some() && time_of(x) == time_of(y)))
            {
                rep.outside_domain(&format!(
                    "commit-message search with a tie in committer time: spec {:?} in repo seed {}: gix {:?} vs git {:?}",
                    spec.text, info.seed, a, b
                ));
                return;
            }
        }
    }
    let git_desc = match &git_res {
        Ok(l) => format!("ok[{}]", shape(l)),
        Err(_) => "err".into(),
    };
    // recorded classes of differences (each condition is checked on the actual outcomes)
    let gix_err = match &gix_res {
        Ok(Err(e)) => e.clone(),
        _ => String::new(),
    };
    let t = &spec.text;
    // gitoxide resolved the anchor and failed in a later navigation step
    let nav_failed = ["is out of range", "while trying to peel", "but needed it to be", "Could not find path", "None of ", "Expected object of kind"]
        .iter()
        .any(|m| gix_err.contains(m));
    let class: Option<&str> = if git_res.is_ok()
        && (gix_err.starts_with("This feature will be implemented") || gix_err.starts_with("Could not parse time"))
        && t.contains("@{")
    {
        Some("<rev>@{<date>}: reflog lookup by date is not implemented in gitoxide")
    } else if git_res.is_ok() && gix_err.contains("does not have a") && gix_err.contains("tracking branch configured") && (t.contains("HEAD@{") ) {
        Some("HEAD@{upstream} / HEAD@{push}: gitoxide looks for the tracking branch of 'HEAD' instead of the current branch")
    } else if git_res.is_ok() && !gix_err.is_empty() && (t.contains(":./") || t.contains(":../") || t.contains(":0:./") || t.contains(":1:./")) {
        Some("<rev>:./<path>: paths relative to the current directory are not resolved by gitoxide")
    } else if t.contains("^-")
        && matches!((&gix_res, &git_res), (Ok(Ok((a, _))), Ok(b)) if a.len() == 2 && b.len() == 2 && a[1] == b[1] && a[0] != b[0])
        && spec.has_navs
    {
        Some("<anchor><navigation>^-<n>: gitoxide uses the anchor, not the navigated revision, as the included side")
    } else if t.contains("^-") && spec.nameless_anchor && git_res.is_ok() && gix_err.starts_with("A portion of the input could not be parsed") {
        Some("@{…}^-<n> without a ref name: not supported by gitoxide")
    } else if spec.label.starts_with("<describe name, hex part ambiguous with a blob>") && git_res.is_ok() && gix_err.starts_with("Short id") {
        Some("<describe name> whose hex part is unique only among commits: gitoxide's delegate ignores the commit hint of disambiguate_prefix and reports an ambiguous id, git resolves it")
    } else if spec.label.contains("<hex>-dirty") && git_res.is_err() && matches!(&gix_res, Ok(Ok(_))) {
        Some("<hex>-dirty: gitoxide takes the hex part as object prefix, git refuses")
    } else if t.contains("~0") && git_res.is_err() && matches!(&gix_res, Ok(Ok((l, _))) if l.iter().any(|l| !is_commitish(repo, l))) {
        Some("<rev>~0 on an object that is not a commit: a no-op for gitoxide, git refuses")
    } else if t.contains("~0")
        && matches!((&gix_res, &git_res), (Ok(Ok((a, _))), Ok(b)) if a.len() <= b.len() && a.iter().zip(b.iter()).all(|(x, y)| peeled(repo, x) == *y || x == y))
    {
        Some("<tag>~0: a no-op for gitoxide which keeps the tag object, git peels to the commit")
    } else if t.contains("~0") && spec.ambiguous_anchor && git_res.is_ok() && gix_err.starts_with("Short id") {
        Some("<ambiguous prefix>~0: a no-op for gitoxide, for git it selects the commit among the candidates")
    } else if (t == ".." || t == "...") && git_res.is_err() && matches!(&gix_res, Ok(Ok(_))) {
        Some("'..' and '...' alone: gitoxide reads HEAD..HEAD, git refuses")
    } else if spec.ambiguous_anchor && git_res.is_err() && matches!(&gix_res, Ok(Ok(_))) {
        Some("<ambiguous prefix>…: gitoxide disambiguates by what the rest of the spec can be applied to, git gives up")
    } else if !spec.single
        && git_res.is_err()
        && matches!(&gix_res, Ok(Ok((lines, _))) if lines.iter().any(|l| !is_commitish(repo, l)) || (lines.is_empty() && t.ends_with("^@")))
    {
        Some("ranges and ^@ ^! ^- over objects that are not commits: gitoxide does not check, git refuses")
    } else if git_res.is_ok() && nav_failed && t.contains("@{") {
        Some("<ref>@{…}<navigation that fails>: git falls back to reading everything between the braces as an approximate date (which never fails); gitoxide reports the error")
    } else {
        None
    };
    let key = match class {
        Some(c) => c.to_string(),
        None => {
            let same_shape = gix_desc == git_desc;
            format!(
                "{} => gix {}, git {}{}",
                spec.label,
                gix_desc,
                git_desc,
                if same_shape { " (different objects)" } else { "" }
            )
        }
    };
    let detail = format!(
        "spec {:?} in repo seed {}: gix {:?} vs git {:?}",
        spec.text, info.seed, gix_res, git_res
    );
    rep.oracle_failure(&key, &detail, &op);
}

pub fn open(info: &RepoInfo) -> gix::Repository {
    gix::open_opts(&info.dir, gix::open::Options::isolated()).expect("open repo")
}
