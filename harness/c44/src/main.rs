//! C44 — `gix_diff::tree()` (no rename tracking) with the `Recorder` delegate vs
//! `git diff-tree -r -t --no-renames --raw -z A B` on pairs of related trees made by git.
//!
//! one op line = one diff:
//!   d <k> (<id> <n> (<mode> <name> <oid>)*n)*k  <idA> <idB>
//! (the k stored trees, then the ids of the two roots; both roots are among the stored trees)
//! observation: err:find | changes in the order the real code reports them, joined by `,`:
//!   A:<hexpath>:<octmode>:<oid>:<rel> | D:… | M:<hexpath>:<octmode>:<oid>:<octmode>:<oid>
//!   rel = - | P<n> | C<n>   (Relation::Parent / ChildOfParent)
use std::collections::{BTreeMap, BTreeSet, HashMap};

use gix_diff::tree::recorder::Change;
use gix_diff::tree::visit::Relation;
use gix_hash::ObjectId;
use gix_object::bstr::ByteSlice;
use hcommon::*;

type Path = Vec<Vec<u8>>;
type Leaves = BTreeMap<Path, (u16, Vec<u8>)>;

#[derive(Clone, Debug)]
struct E {
    mode: u16,
    name: Vec<u8>,
    oid: Vec<u8>,
}

fn is_tree_mode(m: u16) -> bool {
    m & 0o170000 == 0o040000
}

fn is_prefix(a: &Path, b: &Path) -> bool {
    a.len() <= b.len() && a[..] == b[..a.len()]
}

struct Store(HashMap<ObjectId, Vec<u8>>, Option<ObjectId>);

impl gix_object::Find for Store {
    fn try_find<'a>(&self, id: &gix_hash::oid, buffer: &'a mut Vec<u8>) -> Result<Option<gix_object::Data<'a>>, gix_object::find::Error> {
        if self.1.as_deref() == Some(id) {
            return Ok(None);
        }
        match self.0.get(id) {
            None => Ok(None),
            Some(bytes) => {
                buffer.clear();
                buffer.extend_from_slice(bytes);
                Ok(Some(gix_object::Data { kind: gix_object::Kind::Tree, data: &*buffer }))
            }
        }
    }
}

fn raw_tree(es: &[E]) -> Vec<u8> {
    let mut v = Vec::new();
    for e in es {
        v.extend_from_slice(format!("{:o} ", e.mode).as_bytes());
        v.extend_from_slice(&e.name);
        v.push(0);
        v.extend_from_slice(&e.oid);
    }
    v
}

fn tree_id(bytes: &[u8]) -> Vec<u8> {
    gix_object::compute_hash(gix_hash::Kind::Sha1, gix_object::Kind::Tree, bytes).as_bytes().to_vec()
}

/// canonical nested trees for a leaf set; every tree (id, entries) is recorded in `out`
fn build(leaves: &Leaves, prefix: &Path, out: &mut BTreeMap<Vec<u8>, Vec<E>>) -> Vec<u8> {
    let mut direct: Vec<E> = Vec::new();
    let mut dirs: BTreeSet<Vec<u8>> = BTreeSet::new();
    for (q, (m, id)) in leaves.iter().filter(|(q, _)| is_prefix(prefix, q) && q.len() > prefix.len()) {
        if q.len() == prefix.len() + 1 {
            direct.push(E { mode: *m, name: q[prefix.len()].clone(), oid: id.clone() });
        } else {
            dirs.insert(q[prefix.len()].clone());
        }
    }
    for d in dirs {
        let mut p = prefix.clone();
        p.push(d.clone());
        let id = build(leaves, &p, out);
        direct.push(E { mode: 0o040000, name: d, oid: id });
    }
    direct.sort_by(|a, b| {
        let ka = [a.name.as_slice(), if is_tree_mode(a.mode) { b"/" } else { b"" }].concat();
        let kb = [b.name.as_slice(), if is_tree_mode(b.mode) { b"/" } else { b"" }].concat();
        ka.cmp(&kb)
    });
    let id = tree_id(&raw_tree(&direct));
    out.insert(id.clone(), direct);
    id
}

struct Case {
    trees: BTreeMap<Vec<u8>, Vec<E>>,
    a: Vec<u8>,
    b: Vec<u8>,
    /// drop this tree from the store handed to the real code (find error), if any
    missing: Option<Vec<u8>>,
}

fn op_line(c: &Case) -> String {
    let stored: Vec<(&Vec<u8>, &Vec<E>)> = c.trees.iter().filter(|(id, _)| Some(*id) != c.missing.as_ref()).collect();
    let mut t: Vec<String> = vec!["d".into(), stored.len().to_string()];
    for (id, es) in stored {
        t.push(hex(id));
        t.push(es.len().to_string());
        for e in es {
            t.push(e.mode.to_string());
            t.push(hex(&e.name));
            t.push(hex(&e.oid));
        }
    }
    t.push(hex(&c.a));
    t.push(hex(&c.b));
    t.join(" ")
}

fn parse_line(line: &str) -> Option<Case> {
    let t: Vec<&str> = line.split(' ').collect();
    if t.first() != Some(&"d") && t.first() != Some(&"e") {
        return None;
    }
    let k: usize = t.get(1)?.parse().ok()?;
    let mut i = 2;
    let mut trees = BTreeMap::new();
    for _ in 0..k {
        let id = unhex(t.get(i)?)?;
        let n: usize = t.get(i + 1)?.parse().ok()?;
        i += 2;
        let mut es = Vec::new();
        for _ in 0..n {
            es.push(E { mode: t.get(i)?.parse().ok()?, name: unhex(t.get(i + 1)?)?, oid: unhex(t.get(i + 2)?)? });
            i += 3;
        }
        trees.insert(id, es);
    }
    let a = unhex(t.get(i)?)?;
    let b = unhex(t.get(i + 1)?)?;
    Some(Case { trees, a, b, missing: None })
}

fn rel_str(r: &Option<Relation>) -> String {
    match r {
        None => "-".into(),
        Some(Relation::Parent(n)) => format!("P{n}"),
        Some(Relation::ChildOfParent(n)) => format!("C{n}"),
    }
}

/// (kind, path, old mode, old oid, new mode, new oid) with zeros where git prints zeros
type Rec = (char, Vec<u8>, u16, Vec<u8>, u16, Vec<u8>);

fn run_real(c: &Case) -> (String, Option<Vec<Rec>>) {
    let mut store = Store(HashMap::new(), None);
    for (id, es) in &c.trees {
        if Some(id) == c.missing.as_ref() {
            continue;
        }
        store.0.insert(ObjectId::from_bytes_or_panic(id), raw_tree(es));
    }
    let empty: Vec<u8> = Vec::new();
    let a = store.0.get(&ObjectId::from_bytes_or_panic(&c.a)).cloned();
    let b = store.0.get(&ObjectId::from_bytes_or_panic(&c.b)).cloned();
    let (Some(a), Some(b)) = (a, b) else {
        let _ = empty;
        return ("err:root".into(), None);
    };
    let res = catch(|| {
        let mut rec = gix_diff::tree::Recorder::default();
        let r = gix_diff::tree(
            gix_object::TreeRefIter::from_bytes(&a),
            gix_object::TreeRefIter::from_bytes(&b),
            gix_diff::tree::State::default(),
            &store,
            &mut rec,
        );
        (r, rec.records)
    });
    match res {
        Err(_) => ("panic".into(), None),
        Ok((Err(gix_diff::tree::Error::Find(_)), _)) => ("err:find".into(), None),
        Ok((Err(_), _)) => ("err:other".into(), None),
        Ok((Ok(()), records)) => {
            let mut obs = Vec::new();
            let mut recs = Vec::new();
            let zero = vec![0u8; 20];
            for r in &records {
                match r {
                    Change::Addition { entry_mode, oid, path, relation } => {
                        obs.push(format!("A:{}:{:o}:{}:{}", hex(path), entry_mode.0, hex(oid.as_bytes()), rel_str(relation)));
                        recs.push(('A', path.to_vec(), 0, zero.clone(), entry_mode.0, oid.as_bytes().to_vec()));
                    }
                    Change::Deletion { entry_mode, oid, path, relation } => {
                        obs.push(format!("D:{}:{:o}:{}:{}", hex(path), entry_mode.0, hex(oid.as_bytes()), rel_str(relation)));
                        recs.push(('D', path.to_vec(), entry_mode.0, oid.as_bytes().to_vec(), 0, zero.clone()));
                    }
                    Change::Modification { previous_entry_mode, previous_oid, entry_mode, oid, path } => {
                        obs.push(format!(
                            "M:{}:{:o}:{}:{:o}:{}",
                            hex(path),
                            previous_entry_mode.0,
                            hex(previous_oid.as_bytes()),
                            entry_mode.0,
                            hex(oid.as_bytes())
                        ));
                        recs.push(('M', path.to_vec(), previous_entry_mode.0, previous_oid.as_bytes().to_vec(), entry_mode.0, oid.as_bytes().to_vec()));
                    }
                }
            }
            (if obs.is_empty() { "none".into() } else { obs.join(",") }, Some(recs))
        }
    }
}


fn convert(records: &[Change]) -> (String, Vec<Rec>) {
    let mut obs = Vec::new();
    let mut recs = Vec::new();
    let zero = vec![0u8; 20];
    for r in records {
        match r {
            Change::Addition { entry_mode, oid, path, relation } => {
                obs.push(format!("A:{}:{:o}:{}:{}", hex(path), entry_mode.0, hex(oid.as_bytes()), rel_str(relation)));
                recs.push(('A', path.to_vec(), 0, zero.clone(), entry_mode.0, oid.as_bytes().to_vec()));
            }
            Change::Deletion { entry_mode, oid, path, relation } => {
                obs.push(format!("D:{}:{:o}:{}:{}", hex(path), entry_mode.0, hex(oid.as_bytes()), rel_str(relation)));
                recs.push(('D', path.to_vec(), entry_mode.0, oid.as_bytes().to_vec(), 0, zero.clone()));
            }
            Change::Modification { previous_entry_mode, previous_oid, entry_mode, oid, path } => {
                obs.push(format!("M:{}:{:o}:{}:{:o}:{}", hex(path), previous_entry_mode.0, hex(previous_oid.as_bytes()), entry_mode.0, hex(oid.as_bytes())));
                recs.push(('M', path.to_vec(), previous_entry_mode.0, previous_oid.as_bytes().to_vec(), entry_mode.0, oid.as_bytes().to_vec()));
            }
        }
    }
    (if obs.is_empty() { "none".into() } else { obs.join(",") }, recs)
}

/// a `Recorder` that also logs every delegate call (the change WITHOUT its path: the path is what the
/// `Recorder` makes of the calls)
struct Logging {
    inner: gix_diff::tree::Recorder,
    log: Vec<String>,
}

impl gix_diff::tree::Visit for Logging {
    fn pop_front_tracked_path_and_set_current(&mut self) {
        self.log.push("F".into());
        self.inner.pop_front_tracked_path_and_set_current()
    }
    fn push_back_tracked_path_component(&mut self, component: &gix_object::bstr::BStr) {
        self.log.push(format!("B:{}", hex(component)));
        self.inner.push_back_tracked_path_component(component)
    }
    fn push_path_component(&mut self, component: &gix_object::bstr::BStr) {
        self.log.push(format!("P:{}", hex(component)));
        self.inner.push_path_component(component)
    }
    fn pop_path_component(&mut self) {
        self.log.push("O".into());
        self.inner.pop_path_component()
    }
    fn visit(&mut self, change: gix_diff::tree::visit::Change) -> gix_diff::tree::visit::Action {
        use gix_diff::tree::visit::Change as V;
        self.log.push(match &change {
            V::Addition { entry_mode, oid, relation } => format!("VA:{:o}:{}:{}", entry_mode.0, hex(oid.as_bytes()), rel_str(relation)),
            V::Deletion { entry_mode, oid, relation } => format!("VD:{:o}:{}:{}", entry_mode.0, hex(oid.as_bytes()), rel_str(relation)),
            V::Modification { previous_entry_mode, previous_oid, entry_mode, oid } => {
                format!("VM:{:o}:{}:{:o}:{}", previous_entry_mode.0, hex(previous_oid.as_bytes()), entry_mode.0, hex(oid.as_bytes()))
            }
        });
        self.inner.visit(change)
    }
}

/// the delegate calls of one diff, in order (`!err` appended when the walk returned an error)
fn run_events(c: &Case) -> String {
    let mut store = Store(HashMap::new(), None);
    for (id, es) in &c.trees {
        if Some(id) == c.missing.as_ref() {
            continue;
        }
        store.0.insert(ObjectId::from_bytes_or_panic(id), raw_tree(es));
    }
    let a = store.0.get(&ObjectId::from_bytes_or_panic(&c.a)).cloned();
    let b = store.0.get(&ObjectId::from_bytes_or_panic(&c.b)).cloned();
    let (Some(a), Some(b)) = (a, b) else {
        return "err:root".into();
    };
    let res = catch(|| {
        let mut d = Logging { inner: gix_diff::tree::Recorder::default(), log: Vec::new() };
        let r = gix_diff::tree(
            gix_object::TreeRefIter::from_bytes(&a),
            gix_object::TreeRefIter::from_bytes(&b),
            gix_diff::tree::State::default(),
            &store,
            &mut d,
        );
        (r.is_ok(), d.log)
    });
    match res {
        Err(_) => "panic".into(),
        Ok((ok, mut log)) => {
            if !ok {
                log.push("!err".into());
            }
            if log.is_empty() { "none".into() } else { log.join(",") }
        }
    }
}

/// how one diff of a sequence on ONE re-used `State` is run
#[derive(Clone, Debug, PartialEq)]
enum Flag {
    Plain,
    /// the delegate answers `Action::Cancel` at its j-th change (0-based)
    CancelAt(usize),
    /// this tree is missing from the object database during this diff
    Hide(Vec<u8>),
}

struct Seq {
    trees: BTreeMap<Vec<u8>, Vec<E>>,
    steps: Vec<(Vec<u8>, Vec<u8>, Flag)>,
}

/// a `Recorder` that cancels at its n-th change
struct Cancelling {
    inner: gix_diff::tree::Recorder,
    seen: usize,
    cancel_at: Option<usize>,
}

impl gix_diff::tree::Visit for Cancelling {
    fn pop_front_tracked_path_and_set_current(&mut self) {
        self.inner.pop_front_tracked_path_and_set_current()
    }
    fn push_back_tracked_path_component(&mut self, component: &gix_object::bstr::BStr) {
        self.inner.push_back_tracked_path_component(component)
    }
    fn push_path_component(&mut self, component: &gix_object::bstr::BStr) {
        self.inner.push_path_component(component)
    }
    fn pop_path_component(&mut self) {
        self.inner.pop_path_component()
    }
    fn visit(&mut self, change: gix_diff::tree::visit::Change) -> gix_diff::tree::visit::Action {
        self.inner.visit(change);
        let n = self.seen;
        self.seen += 1;
        if Some(n) == self.cancel_at {
            gix_diff::tree::visit::Action::Cancel
        } else {
            gix_diff::tree::visit::Action::Continue
        }
    }
}

fn seq_line(q: &Seq) -> String {
    let mut t: Vec<String> = vec!["s".into(), q.trees.len().to_string()];
    for (id, es) in &q.trees {
        t.push(hex(id));
        t.push(es.len().to_string());
        for e in es {
            t.push(e.mode.to_string());
            t.push(hex(&e.name));
            t.push(hex(&e.oid));
        }
    }
    for (a, b, f) in &q.steps {
        t.push(hex(a));
        t.push(hex(b));
        t.push(match f {
            Flag::Plain => "n".into(),
            Flag::CancelAt(j) => format!("c{j}"),
            Flag::Hide(id) => format!("h{}", hex(id)),
        });
    }
    t.join(" ")
}

fn parse_seq(line: &str) -> Option<Seq> {
    let t: Vec<&str> = line.split(' ').collect();
    if t.first() != Some(&"s") {
        return None;
    }
    let k: usize = t.get(1)?.parse().ok()?;
    let mut i = 2;
    let mut trees = BTreeMap::new();
    for _ in 0..k {
        let id = unhex(t.get(i)?)?;
        let n: usize = t.get(i + 1)?.parse().ok()?;
        i += 2;
        let mut es = Vec::new();
        for _ in 0..n {
            es.push(E { mode: t.get(i)?.parse().ok()?, name: unhex(t.get(i + 1)?)?, oid: unhex(t.get(i + 2)?)? });
            i += 3;
        }
        trees.insert(id, es);
    }
    let mut steps = Vec::new();
    while i < t.len() {
        let a = unhex(t.get(i)?)?;
        let b = unhex(t.get(i + 1)?)?;
        let f = t.get(i + 2)?;
        let flag = if *f == "n" {
            Flag::Plain
        } else if let Some(j) = f.strip_prefix('c') {
            Flag::CancelAt(j.parse().ok()?)
        } else if let Some(h) = f.strip_prefix('h') {
            Flag::Hide(unhex(h)?)
        } else {
            return None;
        };
        steps.push((a, b, flag));
        i += 3;
    }
    Some(Seq { trees, steps })
}

/// run all diffs of the sequence on one `State`; per step: observation and (for completed diffs) the records
fn run_seq(q: &Seq) -> Vec<(String, Option<Vec<Rec>>)> {
    let mut store = Store(HashMap::new(), None);
    for (id, es) in &q.trees {
        store.0.insert(ObjectId::from_bytes_or_panic(id), raw_tree(es));
    }
    let mut state = gix_diff::tree::State::default();
    let mut out = Vec::new();
    for (a, b, flag) in &q.steps {
        store.1 = match flag {
            Flag::Hide(id) => Some(ObjectId::from_bytes_or_panic(id)),
            _ => None,
        };
        let ta = if store.1.as_ref().map(|h| h.as_bytes()) == Some(&a[..]) { None } else { store.0.get(&ObjectId::from_bytes_or_panic(a)).cloned() };
        let tb = if store.1.as_ref().map(|h| h.as_bytes()) == Some(&b[..]) { None } else { store.0.get(&ObjectId::from_bytes_or_panic(b)).cloned() };
        let (Some(ta), Some(tb)) = (ta, tb) else {
            out.push(("err:root".to_string(), None));
            continue;
        };
        let cancel_at = if let Flag::CancelAt(j) = flag { Some(*j) } else { None };
        let res = catch(|| {
            let mut rec = Cancelling { inner: gix_diff::tree::Recorder::default(), seen: 0, cancel_at };
            let r = gix_diff::tree(
                gix_object::TreeRefIter::from_bytes(&ta),
                gix_object::TreeRefIter::from_bytes(&tb),
                &mut state,
                &store,
                &mut rec,
            );
            (r, rec.inner.records)
        });
        out.push(match res {
            Err(_) => {
                // a panic may leave anything behind: continue with a fresh state, the damage is recorded
                state = gix_diff::tree::State::default();
                ("panic".to_string(), None)
            }
            Ok((Err(gix_diff::tree::Error::Find(_)), _)) => ("err:find".to_string(), None),
            Ok((Err(gix_diff::tree::Error::Cancelled), records)) => (format!("cancel:{}", convert(&records).0), None),
            Ok((Err(_), _)) => ("err:other".to_string(), None),
            Ok((Ok(()), records)) => {
                let (o, r) = convert(&records);
                (o, Some(r))
            }
        });
    }
    out
}

fn do_seq(rep: &mut Report, git: &mut GitOracle, q: &Seq, with_git: bool) {
    let line = seq_line(q);
    let res = run_seq(q);
    let obs: Vec<&str> = res.iter().map(|r| r.0.as_str()).collect();
    rep.case(&line, &obs.join("|"), true);
    rep.bucket(&format!("seq:len{}", q.steps.len().min(6)));
    for (i, ((a, b, flag), (o, recs))) in q.steps.iter().zip(&res).enumerate() {
        let kind = match flag {
            Flag::Plain => "plain",
            Flag::CancelAt(_) => "cancel",
            Flag::Hide(_) => "hide",
        };
        let outcome = if o.starts_with("cancel:") { "cancelled" } else if o.starts_with("err") || o == "panic" { o.as_str() } else { "completed" };
        rep.bucket(&format!("seq-step:{kind}:{outcome}"));
        let prev_aborted = i > 0 && (res[i - 1].0.starts_with("cancel:") || res[i - 1].0.starts_with("err:find"));
        if prev_aborted {
            rep.bucket(&format!("seq-step:after-abort:{outcome}"));
        }
        let c = Case { trees: q.trees.clone(), a: a.clone(), b: b.clone(), missing: None };
        let key_ctx = format!("step {i} of a sequence on one State ({}) {}", if prev_aborted { "previous diff aborted" } else { "previous diff completed" }, short_key(&c));
        if o == "panic" {
            rep.oracle_failure(&format!("seq-panic {key_ctx}"), "gix_diff::tree panicked on a re-used State", &line);
            continue;
        }
        match flag {
            Flag::Hide(_) => {}
            _ => {
                // whatever happened before on this State, a diff that completes must be the diff of its two trees
                if o.starts_with("err") {
                    rep.oracle_failure(&format!("seq-failed {key_ctx}"), &format!("diff failed with {o} although every tree is available"), &line);
                }
            }
        }
        if let Some(recs) = recs {
            judge(rep, git, &c, recs, &line, with_git && *flag == Flag::Plain, &format!("seq {key_ctx}"));
        }
    }
}

/// every node (files and directories) of the tree `id`, by path
fn nodes(trees: &BTreeMap<Vec<u8>, Vec<E>>, id: &[u8], prefix: &mut Vec<u8>, out: &mut BTreeMap<Vec<u8>, (u16, Vec<u8>)>) {
    let Some(es) = trees.get(id) else { return };
    for e in es {
        let plen = prefix.len();
        if !prefix.is_empty() {
            prefix.push(b'/');
        }
        prefix.extend_from_slice(&e.name);
        out.insert(prefix.clone(), (e.mode, e.oid.clone()));
        if is_tree_mode(e.mode) {
            nodes(trees, &e.oid, prefix, out);
        }
        prefix.truncate(plen);
    }
}

/// "Applying them to the first tree yields the second": apply the reported changes to the node map of A
fn apply(a: &BTreeMap<Vec<u8>, (u16, Vec<u8>)>, recs: &[Rec]) -> Result<BTreeMap<Vec<u8>, (u16, Vec<u8>)>, String> {
    let mut m = a.clone();
    // deletions first (a type change is reported as deletion + addition of the same path)
    for (k, path, om, oo, _, _) in recs {
        if *k == 'D' {
            match m.remove(path) {
                Some((mm, oid)) if mm == *om && oid == *oo => {}
                other => return Err(format!("deletion of {:?} does not match what is there: {:?}", path.as_bstr(), other.map(|x| x.0))),
            }
        }
    }
    for (k, path, om, oo, nm, no) in recs {
        match k {
            'A' => {
                if m.insert(path.clone(), (*nm, no.clone())).is_some() {
                    return Err(format!("addition of {:?} over an existing node", path.as_bstr()));
                }
            }
            'M' => match m.insert(path.clone(), (*nm, no.clone())) {
                Some((mm, oid)) if mm == *om && oid == *oo => {}
                other => return Err(format!("modification of {:?} does not match what is there: {:?}", path.as_bstr(), other.map(|x| x.0))),
            },
            _ => {}
        }
    }
    Ok(m)
}

struct GitOracle {
    scratch: Scratch,
    /// trees already written to the scratch repository
    known: BTreeSet<Vec<u8>>,
    pending: Vec<(String, String, Case, Vec<Rec>)>,
}

impl GitOracle {
    fn new() -> Self {
        let scratch = Scratch::new("c44");
        git_ok(&scratch.path, &["init", "-q", "."], None);
        GitOracle { scratch, known: BTreeSet::new(), pending: Vec::new() }
    }
    fn depth(trees: &BTreeMap<Vec<u8>, Vec<E>>, id: &[u8]) -> usize {
        match trees.get(id) {
            None => 0,
            Some(es) => 1 + es.iter().filter(|e| is_tree_mode(e.mode)).map(|e| Self::depth(trees, &e.oid)).max().unwrap_or(0),
        }
    }
    fn run(&mut self, rep: &mut Report) {
        if self.pending.is_empty() {
            return;
        }
        // 1. let git make every tree (children before parents): `git mktree --batch`, one process per height
        let mut all: BTreeMap<Vec<u8>, (usize, Vec<E>)> = BTreeMap::new();
        for (_, _, c, _) in &self.pending {
            for (id, es) in &c.trees {
                if !self.known.contains(id) && !all.contains_key(id) {
                    all.insert(id.clone(), (Self::depth(&c.trees, id), es.clone()));
                }
            }
        }
        let maxh = all.values().map(|x| x.0).max().unwrap_or(0);
        for h in 1..=maxh {
            let mut input = Vec::new();
            let mut order = Vec::new();
            for (id, (hh, es)) in &all {
                if *hh != h {
                    continue;
                }
                for e in es {
                    let ty = if is_tree_mode(e.mode) { "tree" } else if e.mode == 0o160000 { "commit" } else { "blob" };
                    input.extend_from_slice(format!("{:o} {} {}\t", e.mode, ty, hex(&e.oid)).as_bytes());
                    input.extend_from_slice(&e.name);
                    input.push(0);
                }
                input.push(0);
                order.push(id.clone());
            }
            if order.is_empty() {
                continue;
            }
            let out = git(&self.scratch.path, &["mktree", "-z", "--missing", "--batch"], Some(&input));
            assert!(out.ok, "git mktree failed: {}", String::from_utf8_lossy(&out.stderr));
            let text = String::from_utf8_lossy(&out.stdout).to_string();
            let got: Vec<&str> = text.lines().collect();
            assert_eq!(got.len(), order.len(), "git mktree answered every tree");
            for (id, g) in order.iter().zip(got) {
                assert_eq!(hex(id), g, "harness self-check: git makes the same tree object as the local builder");
                self.known.insert(id.clone());
            }
        }
        // 2. one `git diff-tree --stdin` for all pairs
        let mut input = String::new();
        for (_, _, c, _) in &self.pending {
            input.push_str(&format!("{} {}\n", hex(&c.a), hex(&c.b)));
        }
        let out = git(&self.scratch.path, &["diff-tree", "--stdin", "-r", "-t", "--no-renames", "--raw", "-z", "--no-abbrev"], Some(input.as_bytes()));
        assert!(out.ok, "git diff-tree failed: {}", String::from_utf8_lossy(&out.stderr));
        // parse: header lines `<a> <b>\n`, records `:<m1> <m2> <o1> <o2> <S>\0<path>\0`
        let data = out.stdout;
        let mut per_pair: Vec<Vec<Rec>> = Vec::new();
        let mut i = 0;
        while i < data.len() {
            if data[i] == b':' {
                let end = i + data[i..].iter().position(|b| *b == 0).expect("meta terminated");
                let meta = String::from_utf8_lossy(&data[i + 1..end]).to_string();
                let f: Vec<&str> = meta.split(' ').collect();
                let pend = end + 1 + data[end + 1..].iter().position(|b| *b == 0).expect("path terminated");
                let path = data[end + 1..pend].to_vec();
                let m1 = u16::from_str_radix(f[0], 8).unwrap();
                let m2 = u16::from_str_radix(f[1], 8).unwrap();
                let kind = match f[4].chars().next().unwrap() {
                    'A' => 'A',
                    'D' => 'D',
                    // git's T (type change among file/symlink/submodule) is a modification with differing modes
                    'M' | 'T' => 'M',
                    other => panic!("unexpected status {other}"),
                };
                per_pair.last_mut().expect("header first").push((kind, path, m1, unhex(f[2]).unwrap(), m2, unhex(f[3]).unwrap()));
                i = pend + 1;
            } else {
                let end = i + data[i..].iter().position(|b| *b == b'\n').expect("header line");
                per_pair.push(Vec::new());
                i = end + 1;
            }
        }
        // git prints one header line per pair (also for identical trees)
        assert_eq!(per_pair.len(), self.pending.len(), "git diff-tree answered every pair");
        for (k, (key, op, _c, real)) in self.pending.iter().enumerate() {
            let git_recs: Vec<Rec> = per_pair[k].clone();
            rep.git_checked(1);
            let mut x: Vec<Rec> = real.clone();
            let mut y = git_recs;
            x.sort();
            y.sort();
            if x != y {
                let only_real: Vec<String> = x.iter().filter(|r| !y.contains(r)).map(show).collect();
                let only_git: Vec<String> = y.iter().filter(|r| !x.contains(r)).map(show).collect();
                rep.oracle_failure(key, &format!("gix_diff::tree reports {only_real:?} which git does not; git diff-tree -r -t reports {only_git:?} which gix does not"), op);
            }
        }
        self.pending.clear();
    }
}

fn show(r: &Rec) -> String {
    format!("{} {:?} {:o}->{:o}", r.0, r.1.as_bstr(), r.2, r.4)
}

fn short_key(c: &Case) -> String {
    let mut na = BTreeMap::new();
    let mut nb = BTreeMap::new();
    nodes(&c.trees, &c.a, &mut Vec::new(), &mut na);
    nodes(&c.trees, &c.b, &mut Vec::new(), &mut nb);
    let f = |m: &BTreeMap<Vec<u8>, (u16, Vec<u8>)>| {
        m.iter().filter(|(_, v)| !is_tree_mode(v.0)).map(|(p, v)| format!("{}:{:o}:{}", String::from_utf8_lossy(p), v.0, &hex(&v.1)[..2])).collect::<Vec<_>>().join(" ")
    };
    format!("A=[{}] B=[{}]", f(&na), f(&nb))
}

fn do_case(rep: &mut Report, git: &mut GitOracle, c: &Case, with_git: bool, class: &str) {
    let line = op_line(c);
    let (obs, recs) = run_real(c);
    rep.case(&line, &obs, true);
    // the same input once more: the delegate calls themselves, against the model's `diffEv`
    let eline = format!("e{}", &line[1..]);
    rep.case(&eline, &run_events(c), true);
    rep.bucket(&format!("case:{class}:{}", match &recs { None => obs.clone(), Some(r) if r.is_empty() => "no-change".into(), Some(_) => "changes".into() }));
    let Some(recs) = recs else {
        if c.missing.is_none() {
            rep.oracle_failure(&format!("diff-failed {}", short_key(c)), &format!("gix_diff::tree failed with {obs} although every tree is available"), &line);
        }
        return;
    };
    for r in &recs {
        let cls = match (r.0, is_tree_mode(r.2), is_tree_mode(r.4)) {
            ('A', _, t) => format!("A:{}", if t { "dir" } else { "file" }),
            ('D', t, _) => format!("D:{}", if t { "dir" } else { "file" }),
            (_, true, _) => "M:dir".into(),
            (_, _, _) if r.2 != r.4 && r.3 == r.5 => "M:mode-only".into(),
            (_, _, _) if r.2 != r.4 => "M:mode+content".into(),
            _ => "M:content".into(),
        };
        rep.bucket(&format!("change:{cls}"));
    }
    judge(rep, git, c, &recs, &line, with_git, "");
}

/// the property on one completed diff: applying the changes to A gives B, nothing twice, A vs A empty, and git agrees
fn judge(rep: &mut Report, git: &mut GitOracle, c: &Case, recs: &[Rec], line: &str, with_git: bool, ctx: &str) {
    let recs: Vec<Rec> = recs.to_vec();
    let line = line.to_string();
    // the property, part 2: applying the changes to A yields B; no duplicates
    rep.oracle_checked();
    let mut na = BTreeMap::new();
    let mut nb = BTreeMap::new();
    nodes(&c.trees, &c.a, &mut Vec::new(), &mut na);
    nodes(&c.trees, &c.b, &mut Vec::new(), &mut nb);
    let mut sorted = recs.clone();
    sorted.sort();
    if sorted.windows(2).any(|w| w[0] == w[1]) {
        rep.oracle_failure(&format!("duplicate-change {ctx}{}", short_key(c)), "the same change is reported twice", &line);
    }
    match apply(&na, &recs) {
        Err(e) => rep.oracle_failure(&format!("apply {ctx}{}", short_key(c)), &e, &line),
        Ok(m) => {
            if m != nb {
                let diff: Vec<String> = nb.iter().filter(|(p, v)| m.get(*p) != Some(v)).map(|(p, v)| format!("{}:{:o}", String::from_utf8_lossy(p), v.0)).collect();
                rep.oracle_failure(&format!("apply {ctx}{}", short_key(c)), &format!("applying the reported changes to A does not give B; B differs at {diff:?}"), &line);
            }
        }
    }
    if c.a == c.b && !recs.is_empty() {
        rep.oracle_failure(&format!("self-diff {ctx}{}", short_key(c)), "diff of a tree with itself is not empty", &line);
    }
    if with_git {
        git.pending.push((format!("vs-git {ctx}{}", short_key(c)), line, Case { trees: c.trees.clone(), a: c.a.clone(), b: c.b.clone(), missing: None }, recs));
    }
}

// ------------------------------------------------------------------------------------------------

const NAMES: [&[u8]; 8] = [b"a", b"b", b"a-b", b"a.b", b"a0", b"c", b"a b", b"\xc3\xa9"];
const LEAF_MODES: [u16; 4] = [0o100644, 0o100755, 0o120000, 0o160000];

fn gen_name(r: &mut Rng) -> Vec<u8> {
    if r.chance(1, 2) {
        NAMES[r.usize(3)].to_vec()
    } else {
        r.pick(&NAMES).to_vec()
    }
}

fn gen_path(r: &mut Rng) -> Path {
    let d = match r.below(10) {
        0..=3 => 1,
        4..=7 => 2,
        _ => 3,
    };
    (0..d).map(|_| gen_name(r)).collect()
}

fn gen_id(r: &mut Rng) -> Vec<u8> {
    vec![1 + r.below(6) as u8; 20]
}

fn insert_leaf(l: &mut Leaves, p: Path, v: (u16, Vec<u8>)) {
    // keep it a path set: a new leaf replaces what is below or above it
    l.retain(|q, _| !(is_prefix(&p, q) || is_prefix(q, &p)));
    l.insert(p, v);
}

fn gen_leaves(r: &mut Rng) -> Leaves {
    let mut l = Leaves::new();
    let n = r.usize(9);
    for _ in 0..n {
        let p = gen_path(r);
        let v = (*r.pick(&LEAF_MODES), gen_id(r));
        insert_leaf(&mut l, p, v);
    }
    l
}

fn mutate(r: &mut Rng, a: &Leaves) -> Leaves {
    let mut b = a.clone();
    let n = match r.below(8) {
        0 => 0,
        1..=4 => 1,
        _ => 2 + r.usize(4),
    };
    for _ in 0..n {
        let keys: Vec<Path> = b.keys().cloned().collect();
        let pick = |r: &mut Rng| -> Option<Path> { if keys.is_empty() { None } else { Some(keys[r.usize(keys.len())].clone()) } };
        match r.below(12) {
            0 | 1 => {
                // content change
                if let Some(p) = pick(r) {
                    let m = b[&p].0;
                    b.insert(p, (m, gen_id(r)));
                }
            }
            2 | 3 => {
                // mode flip, same content: 644 <-> 755 <-> 120000 <-> 160000
                if let Some(p) = pick(r) {
                    let (m, id) = b[&p].clone();
                    let mut nm = *r.pick(&LEAF_MODES);
                    if nm == m {
                        nm = if m == 0o100644 { 0o100755 } else { 0o100644 };
                    }
                    b.insert(p, (nm, id));
                }
            }
            4 => {
                // mode and content
                if let Some(p) = pick(r) {
                    b.insert(p, (*r.pick(&LEAF_MODES), gen_id(r)));
                }
            }
            5 | 6 => {
                if let Some(p) = pick(r) {
                    b.remove(&p);
                }
            }
            7 => {
                // file -> directory
                if let Some(mut p) = pick(r) {
                    p.push(gen_name(r));
                    let v = (*r.pick(&LEAF_MODES), gen_id(r));
                    insert_leaf(&mut b, p, v);
                }
            }
            8 => {
                // directory -> file
                if let Some(p) = pick(r) {
                    if p.len() > 1 {
                        let k = 1 + r.usize(p.len() - 1);
                        let v = (*r.pick(&LEAF_MODES), gen_id(r));
                        insert_leaf(&mut b, p[..k].to_vec(), v);
                    }
                }
            }
            9 => {
                // remove a whole directory
                if let Some(p) = pick(r) {
                    if p.len() > 1 {
                        let d = p[..1].to_vec();
                        b.retain(|q, _| !is_prefix(&d, q));
                    }
                }
            }
            _ => {
                let p = gen_path(r);
                let v = (*r.pick(&LEAF_MODES), gen_id(r));
                insert_leaf(&mut b, p, v);
            }
        }
    }
    b
}

/// a sequence of diffs over a chain of related trees on ONE `State`: aborted diffs (cancelled by the
/// delegate at a random change, or failing on a missing sub-tree) each followed by ordinary ones
fn gen_seq(r: &mut Rng) -> Seq {
    let mut trees = BTreeMap::new();
    let mut versions: Vec<(Leaves, Vec<u8>)> = Vec::new();
    let mut cur = gen_leaves(r);
    // make sure there is something to recurse into
    if r.chance(3, 4) {
        let mut p = gen_path(r);
        p.push(gen_name(r));
        insert_leaf(&mut cur, p, (0o100644, gen_id(r)));
    }
    let n = 2 + r.usize(3);
    for _ in 0..n {
        let id = build(&cur, &Vec::new(), &mut trees);
        versions.push((cur.clone(), id));
        cur = mutate(r, &cur);
        if r.chance(1, 2) {
            let mut p = gen_path(r);
            p.push(gen_name(r));
            insert_leaf(&mut cur, p, (*r.pick(&LEAF_MODES), gen_id(r)));
        }
    }
    let pick_pair = |r: &mut Rng| -> (Vec<u8>, Vec<u8>) {
        let i = r.usize(versions.len());
        let mut j = r.usize(versions.len());
        if i == j && r.chance(9, 10) {
            j = (j + 1) % versions.len();
        }
        (versions[i].1.clone(), versions[j].1.clone())
    };
    let mut steps = Vec::new();
    let k = 2 + r.usize(5);
    for _ in 0..k {
        let (a, b) = pick_pair(r);
        let flag = match r.below(10) {
            0..=3 => Flag::CancelAt(r.usize(6)),
            4..=5 => {
                // hide a sub-tree reachable from one of the two roots (not a root itself)
                let mut reach = BTreeSet::new();
                fn walk(trees: &BTreeMap<Vec<u8>, Vec<E>>, id: &[u8], out: &mut BTreeSet<Vec<u8>>) {
                    if let Some(es) = trees.get(id) {
                        for e in es.iter().filter(|e| is_tree_mode(e.mode)) {
                            if out.insert(e.oid.clone()) {
                                walk(trees, &e.oid, out);
                            }
                        }
                    }
                }
                walk(&trees, &a, &mut reach);
                walk(&trees, &b, &mut reach);
                reach.remove(&a);
                reach.remove(&b);
                let v: Vec<Vec<u8>> = reach.into_iter().collect();
                if v.is_empty() {
                    Flag::CancelAt(0)
                } else {
                    Flag::Hide(v[r.usize(v.len())].clone())
                }
            }
            _ => Flag::Plain,
        };
        let aborting = flag != Flag::Plain;
        steps.push((a, b, flag));
        if aborting {
            // what matters: the next diff on the same State
            let (a, b) = pick_pair(r);
            steps.push((a, b, Flag::Plain));
        }
    }
    Seq { trees, steps }
}

fn make_case(a: &Leaves, b: &Leaves) -> Case {
    let mut trees = BTreeMap::new();
    let ia = build(a, &Vec::new(), &mut trees);
    let ib = build(b, &Vec::new(), &mut trees);
    Case { trees, a: ia, b: ib, missing: None }
}

fn leaves_of(spec: &[(&str, u16, u8)]) -> Leaves {
    spec.iter().map(|(p, m, i)| (p.split('/').map(|c| c.as_bytes().to_vec()).collect(), (*m, vec![*i; 20]))).collect()
}

fn main() {
    let args = Args::parse();
    let mut rep = Report::new("C44", &args);
    let mut r = Rng::new(args.seed);
    let mut git = GitOracle::new();
    if let Some(lines) = replay_ops(&args) {
        for l in lines {
            if let Some(q) = parse_seq(&l) {
                do_seq(&mut rep, &mut git, &q, true);
                continue;
            }
            match parse_line(&l) {
                Some(c) => do_case(&mut rep, &mut git, &c, true, "replay"),
                None => rep.note(&format!("replay: unparsable line {}", &l[..l.len().min(60)])),
            }
        }
        git.run(&mut rep);
        rep.finish();
        return;
    }
    // corpus: every single-leaf transition among {absent, 644, 755, link, submodule, directory} x same/other content,
    // next to siblings that sort around the implicit '/' of directories
    let states: Vec<Option<Vec<(&str, u16, u8)>>> = vec![
        None,
        Some(vec![("a", 0o100644, 1)]),
        Some(vec![("a", 0o100644, 2)]),
        Some(vec![("a", 0o100755, 1)]),
        Some(vec![("a", 0o120000, 1)]),
        Some(vec![("a", 0o160000, 1)]),
        Some(vec![("a/x", 0o100644, 1)]),
        Some(vec![("a/x", 0o100644, 2), ("a/y/z", 0o100755, 1)]),
    ];
    for sa in &states {
        for sb in &states {
            let sib = [("a-b", 0o100644u16, 3u8), ("a.b", 0o100644, 3), ("a0", 0o100644, 3)];
            let mut la: Vec<(&str, u16, u8)> = sib.to_vec();
            let mut lb: Vec<(&str, u16, u8)> = sib.to_vec();
            if let Some(x) = sa {
                la.extend(x.iter().cloned());
            }
            if let Some(x) = sb {
                lb.extend(x.iter().cloned());
            }
            do_case(&mut rep, &mut git, &make_case(&leaves_of(&la), &leaves_of(&lb)), true, "corpus");
        }
    }
    // sequences on one re-used State: first the textbook shape — a diff that queues sub-trees is aborted
    // (cancelled at its first change / a sub-tree is missing), then an unrelated diff runs on the same State
    {
        let a = leaves_of(&[("d/x", 0o100644, 1), ("e/y", 0o100644, 1), ("f", 0o100644, 1)]);
        let b = leaves_of(&[("d/x", 0o100644, 2), ("e/y", 0o100644, 2), ("f", 0o100644, 2)]);
        let c = leaves_of(&[("g", 0o100644, 3)]);
        let d = leaves_of(&[("g", 0o100755, 3), ("h/i", 0o100644, 4)]);
        let mut trees = BTreeMap::new();
        let ia = build(&a, &Vec::new(), &mut trees);
        let ib = build(&b, &Vec::new(), &mut trees);
        let ic = build(&c, &Vec::new(), &mut trees);
        let id = build(&d, &Vec::new(), &mut trees);
        let sub = trees[&ia].iter().find(|e| e.name == b"e").unwrap().oid.clone();
        for flag in [Flag::CancelAt(0), Flag::CancelAt(1), Flag::CancelAt(2), Flag::Hide(sub)] {
            let q = Seq {
                trees: trees.clone(),
                steps: vec![(ia.clone(), ib.clone(), flag), (ic.clone(), id.clone(), Flag::Plain), (ia.clone(), ib.clone(), Flag::Plain)],
            };
            do_seq(&mut rep, &mut git, &q, true);
        }
    }
    let nseq = args.budget(700, 20_000);
    let seq_git = args.budget(250, 3_000);
    for i in 0..nseq {
        let q = gen_seq(&mut r);
        do_seq(&mut rep, &mut git, &q, i < seq_git);
        if git.pending.len() >= 2_000 {
            git.run(&mut rep);
        }
    }
    let n = args.budget(2_500, 80_000);
    let with_git = args.budget(1_000, 10_000);
    for i in 0..n {
        let a = gen_leaves(&mut r);
        let b = if r.chance(1, 12) { gen_leaves(&mut r) } else { mutate(&mut r, &a) };
        let mut c = make_case(&a, &b);
        if r.chance(1, 60) {
            // a tree the object database does not have
            let ids: Vec<Vec<u8>> = c.trees.keys().filter(|k| **k != c.a && **k != c.b).cloned().collect();
            if !ids.is_empty() {
                c.missing = Some(ids[r.usize(ids.len())].clone());
            }
        }
        let g = i < with_git && c.missing.is_none();
        do_case(&mut rep, &mut git, &c, g, "random");
        if git.pending.len() >= 2_000 {
            git.run(&mut rep);
        }
    }
    git.run(&mut rep);
    rep.finish();
}
