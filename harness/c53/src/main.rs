//! C53 — mailmap: gix-mailmap (parse, Snapshot, resolve) vs the Lean model, and vs `git check-mailmap`.
//!
//! ops (correspondence, answered by the Lean driver):
//!   trim <hex>                     bstr trim / trim_start / trim_end (Unicode White_Space)
//!   utf8 <hex>                     str::from_utf8(..).is_ok()
//!   cmp <hexA> <hexB>              EncodedString::cmp_ref(A stored, B probe), observed through Snapshot order
//!   bsearch <L|E|G…>               <[T]>::binary_search_by of the installed std on an explicit comparator table
//!   parse <file>                   gix_mailmap::parse(file) item by item
//!   entries <file>                 Snapshot::from_bytes(file).entries()
//!   resolve <file> (<name> <email>)*   Snapshot::from_bytes(file).resolve(..) per identity
//!   git <file> (<name> <email>)*   observation = what the git binary printed; the driver answers with Spec.C53
//! oracle: gix resolve == git check-mailmap for every identity (the property itself).
use bstr::ByteSlice;
use hcommon::*;

type Id = (Vec<u8>, Vec<u8>);

fn sig<'a>(name: &'a [u8], email: &'a [u8]) -> gix_actor::SignatureRef<'a> {
    gix_actor::SignatureRef {
        name: name.as_bstr(),
        email: email.as_bstr(),
        time: gix_date::Time {
            seconds: 42,
            offset: 0,
            sign: gix_date::time::Sign::Plus,
        },
    }
}

fn opt_hex(o: Option<&bstr::BStr>) -> String {
    match o {
        None => "~".into(),
        Some(b) => hex(b),
    }
}

fn entry_str(e: &gix_mailmap::Entry<'_>) -> String {
    format!(
        "{}:{}:{}:{}",
        opt_hex(e.new_name()),
        opt_hex(e.new_email()),
        opt_hex(e.old_name()),
        hex(e.old_email())
    )
}

fn join(v: Vec<String>, sep: &str) -> String {
    if v.is_empty() {
        "-".into()
    } else {
        v.join(sep)
    }
}

fn ids_op(ids: &[Id]) -> String {
    ids.iter().map(|(n, e)| format!(" {} {}", hex(n), hex(e))).collect()
}

/// Is the mailmap something the git oracle can be asked about faithfully (C strings, fgets(1024))?
fn git_can_read(file: &[u8]) -> bool {
    !file.contains(&0) && file.split(|b| *b == b'\n').all(|l| l.len() < 1000)
}

/// Can `git check-mailmap --stdin` be given this identity and hand it to map_user unchanged?
fn git_can_take(id: &Id) -> bool {
    let (n, e) = id;
    let ws = |b: u8| b == b' ' || b == b'\t' || b == b'\n' || b == b'\r';
    !n.iter().any(|b| matches!(b, 0 | b'\n' | b'<'))
        && !e.iter().any(|b| matches!(b, 0 | b'\n' | b'<' | b'>'))
        && !n.last().map_or(false, |b| ws(*b))
        // a trailing CR of the whole line would be eaten by strbuf_getline: the line ends in '>', fine
}

/// Ask the git binary. Returns one (name, email) per identity.
fn git_check(scratch: &Scratch, file: &[u8], ids: &[Id]) -> Vec<Id> {
    let mm = scratch.join("mm");
    std::fs::write(&mm, file).expect("write mailmap");
    let mut input = Vec::new();
    for (n, e) in ids {
        if !n.is_empty() {
            input.extend_from_slice(n);
            input.push(b' ');
        }
        input.push(b'<');
        input.extend_from_slice(e);
        input.extend_from_slice(b">\n");
    }
    let cfg = format!("mailmap.file={}", mm.display());
    let o = git(&scratch.path, &["-c", &cfg, "-c", "mailmap.blob=", "check-mailmap", "--stdin"], Some(&input));
    if !o.ok {
        panic!("git check-mailmap failed: {}", String::from_utf8_lossy(&o.stderr));
    }
    let mut out = Vec::new();
    let body = if o.stdout.last() == Some(&b'\n') { &o.stdout[..o.stdout.len() - 1] } else { &o.stdout[..] };
    for line in body.split(|b| *b == b'\n') {
        // "<email>" or "name <email>": the name never contains '<'
        let lt = line.iter().position(|b| *b == b'<').expect("git output has a '<'");
        assert_eq!(line.last(), Some(&b'>'), "git output ends in '>': {:?}", line.as_bstr());
        let name = if lt == 0 { &line[..0] } else { &line[..lt - 1] };
        out.push((name.to_vec(), line[lt + 1..line.len() - 1].to_vec()));
    }
    assert_eq!(out.len(), ids.len(), "git answered every identity: {:?}", o.stdout.as_bstr());
    out
}

const EXOTIC: &[&[u8]] = &[
    b"\x0b", b"\x0c", b"\xc2\x85", b"\xc2\xa0", b"\xe1\x9a\x80", b"\xe2\x80\x80", b"\xe2\x80\x81", b"\xe2\x80\x82",
    b"\xe2\x80\x83", b"\xe2\x80\x84", b"\xe2\x80\x85", b"\xe2\x80\x86", b"\xe2\x80\x87", b"\xe2\x80\x88", b"\xe2\x80\x89",
    b"\xe2\x80\x8a", b"\xe2\x80\xa8", b"\xe2\x80\xa9", b"\xe2\x80\xaf", b"\xe2\x81\x9f", b"\xe3\x80\x80",
];

fn git_space(b: u8) -> bool {
    b == b' ' || b == b'\t' || b == b'\n' || b == b'\r'
}

fn blank(s: &[u8]) -> bool {
    s.iter().all(|b| git_space(*b))
}

fn trimmed(s: &[u8]) -> bool {
    !s.first().map_or(false, |b| git_space(*b)) && !s.last().map_or(false, |b| git_space(*b))
}

/// `<…>` scan the way both parsers do it: (before '<', between, after '>')
fn scan(s: &[u8]) -> Option<(&[u8], &[u8], &[u8])> {
    let l = s.iter().position(|b| *b == b'<')?;
    let r = s[l + 1..].iter().position(|b| *b == b'>')?;
    Some((&s[..l], &s[l + 1..l + 1 + r], &s[l + r + 2..]))
}

/// The documented deviation classes an input falls into (computed without the Lean model). The
/// theorems `parse_eq_git` / `file_eq_git` are stated on inputs with none of the first five.
fn deviation_classes(file: &[u8]) -> Vec<&'static str> {
    let mut c = Vec::new();
    let add = |c: &mut Vec<&'static str>, k: &'static str| {
        if !c.contains(&k) {
            c.push(k)
        }
    };
    for line in file.split(|b| *b == b'\n') {
        if line.first() == Some(&b'#') {
            continue;
        }
        if std::str::from_utf8(line).is_err() {
            add(&mut c, "non-utf8-key");
        }
        if EXOTIC.iter().any(|p| line.find(p).is_some()) {
            add(&mut c, "unicode-whitespace");
        }
        if let Some((_, e1, rest1)) = scan(line) {
            if !trimmed(e1) {
                add(&mut c, "email-surrounding-whitespace");
            }
            match scan(rest1) {
                None => {
                    if !blank(rest1) {
                        add(&mut c, "trailing-text");
                    }
                }
                Some((_, e2, rest2)) => {
                    if !trimmed(e2) {
                        add(&mut c, "email-surrounding-whitespace");
                    }
                    if e2.is_empty() {
                        add(&mut c, "empty-commit-email");
                    }
                    if !blank(rest2) {
                        add(&mut c, "trailing-text");
                    }
                }
            }
        }
    }
    c
}

fn short(b: &[u8]) -> String {
    let h = hex(b);
    if h.len() > 160 {
        let mut x: u64 = 0xcbf29ce484222325;
        for c in b {
            x ^= *c as u64;
            x = x.wrapping_mul(0x100000001b3);
        }
        format!("{}…(len={} fnv={:016x})", &h[..60], b.len(), x)
    } else {
        h
    }
}

struct Ctx {
    rep: Report,
    scratch: Scratch,
}

/// Everything for one mailmap and a batch of identities.
fn do_file(cx: &mut Ctx, file: &[u8], ids: &[Id], with_git: bool) {
    let rep = &mut cx.rep;
    let fh = hex(file);
    // parse
    let parsed: Vec<String> = gix_mailmap::parse(file)
        .map(|r| match r {
            Ok(e) => entry_str(&e),
            Err(_) => "err".into(),
        })
        .collect();
    let n_ok = parsed.iter().filter(|s| *s != "err").count();
    let n_err = parsed.len() - n_ok;
    rep.case(&format!("parse {fh}"), &join(parsed, "|"), n_ok > 0);
    rep.bucket(&format!("file:entries{}", n_ok.min(6)));
    rep.bucket(&format!("file:errors{}", n_err.min(3)));
    // snapshot + entries
    let snap = match catch(|| gix_mailmap::Snapshot::from_bytes(file)) {
        Ok(s) => s,
        Err(msg) => {
            rep.case(&format!("entries {fh}"), "panic", true);
            rep.oracle_failure(&format!("snapshot-panic file={}", short(file)), &msg, &format!("entries {fh}"));
            return;
        }
    };
    let ents: Vec<String> = snap.entries().iter().map(entry_str).collect();
    rep.case(&format!("entries {fh}"), &join(ents, "|"), n_ok > 1);
    if ids.is_empty() {
        return;
    }
    // resolve
    let gix: Vec<Id> = ids
        .iter()
        .map(|(n, e)| {
            let s = snap.resolve(sig(n, e));
            (s.name.to_vec(), s.email.to_vec())
        })
        .collect();
    let op = format!("resolve {fh}{}", ids_op(ids));
    rep.case(
        &op,
        &join(gix.iter().map(|(n, e)| format!("{} {}", hex(n), hex(e))).collect(), "|"),
        true,
    );
    for ((n, e), g) in ids.iter().zip(&gix) {
        rep.oracle_checked();
        let t = snap.try_resolve(sig(n, e));
        let changed = g.0 != *n || g.1 != *e;
        if t.is_none() && changed {
            rep.oracle_failure(
                &format!("try-resolve-inconsistent file={} id={}/{}", short(file), hex(n), hex(e)),
                "try_resolve() is None but resolve() changed the identity",
                &op,
            );
        }
        rep.bucket(if changed { "id:mapped" } else { "id:unmapped" });
    }
    if !with_git || !git_can_read(file) {
        rep.bucket("git:file-outside-oracle");
        return;
    }
    let gids: Vec<Id> = ids.iter().filter(|i| git_can_take(i)).cloned().collect();
    if gids.is_empty() {
        return;
    }
    let git_says = git_check(&cx.scratch, file, &gids);
    let gop = format!("git {fh}{}", ids_op(&gids));
    rep.case(
        &gop,
        &join(git_says.iter().map(|(n, e)| format!("{} {}", hex(n), hex(e))).collect(), "|"),
        true,
    );
    let classes = deviation_classes(file);
    for c in &classes {
        rep.bucket(&format!("deviation-class:{c}"));
    }
    if classes.is_empty() {
        rep.bucket("deviation-class:none");
    }
    for (id, git_id) in gids.iter().zip(&git_says) {
        let s = snap.resolve(sig(&id.0, &id.1));
        let gix_id = (s.name.to_vec(), s.email.to_vec());
        rep.git_checked(1);
        rep.oracle_checked();
        if gix_id == *git_id {
            continue;
        }
        let detail = format!(
            "mailmap {:?}: identity {:?} <{:?}> resolves to {:?} <{:?}> with gitoxide, git check-mailmap prints {:?} <{:?}>",
            file.as_bstr(),
            id.0.as_bstr(),
            id.1.as_bstr(),
            gix_id.0.as_bstr(),
            gix_id.1.as_bstr(),
            git_id.0.as_bstr(),
            git_id.1.as_bstr()
        );
        let one = format!("resolve {fh} {} {}", hex(&id.0), hex(&id.1));
        // the documented email-case normalisation: same name, git left the email alone, gitoxide
        // replaced it by another spelling of the same address
        let normalised = gix_id.0 == git_id.0 && git_id.1 == id.1 && gix_id.1.eq_ignore_ascii_case(&git_id.1);
        let key = if let Some(c) = classes.first() {
            format!("deviation:{c}")
        } else if normalised {
            "deviation:email-case-normalized".to_string()
        } else {
            format!("resolve-differs file={} id={}/{}", short(file), hex(&id.0), hex(&id.1))
        };
        rep.oracle_failure(&key, &detail, &one);
    }
}

// ---------------------------------------------------------------------------------------------
// generators

const NAMES: &[&[u8]] = &[
    b"A", b"a", b"Bob", b"bob", b"BOB", b"Bob B", b"bob  b", b"Joe R. Developer", b"joe", b"Jane", b"janE",
    b"\xc3\x89", b"\xc3\xa9", b"E\xcc\x81", b"N\xffm", b"n\xffm", b"Z\xff", b"z", b"#x", b"x>y", b"-", b"Z", b"[",
];

const EMAILS: &[&[u8]] = &[
    b"a@x", b"A@X", b"A@x", b"b@x", b"B@x", b"c@x", b"joe@example.com", b"Joe@Example.com", b"bugs@x", b"BUGS@x",
    b"\xc3\xa9@x", b"\xc3\x89@x", b"\xff@x", b"z\xff", b"Z\xff", b"a", b"B", b"Z", b"[", b"^", b"`", b"z", b"{", b"~",
    b"\x7f", b"\xc2\x80", b"\xdf\xbf", b"\xe0\xa0\x80", b"\xef\xbf\xbf", b"\xf0\x90\x80\x80", b"a b", b"(none)",
];

fn flip_case(r: &mut Rng, s: &[u8]) -> Vec<u8> {
    s.iter()
        .map(|b| {
            if b.is_ascii_alphabetic() && r.chance(1, 2) {
                b ^ 0x20
            } else {
                *b
            }
        })
        .collect()
}

thread_local! {
    /// whether the tokens of the file being generated may contain invalid UTF-8 (1 file in 6)
    static NON_UTF8: std::cell::Cell<bool> = const { std::cell::Cell::new(false) };
}

fn gen_token(r: &mut Rng, pool: &[&[u8]]) -> Vec<u8> {
    let allow = NON_UTF8.with(|c| c.get());
    let mut base = r.pick(pool).to_vec();
    while !allow && std::str::from_utf8(&base).is_err() {
        base = r.pick(pool).to_vec();
    }
    match r.below(8) {
        0 => flip_case(r, &base),
        1 => {
            // a small random token over a small alphabet (collisions wanted)
            let mut v = r.over(b"abAB.@\xc3\xa9", 4);
            // keep multi-byte characters intact most of the time
            if !allow || r.chance(3, 4) {
                v = String::from_utf8_lossy(&v).replace('\u{fffd}', "e").into_bytes();
            }
            if v.is_empty() {
                v.push(b'q');
            }
            v
        }
        _ => base,
    }
}

fn ws(r: &mut Rng) -> Vec<u8> {
    match r.below(6) {
        0 => vec![],
        1 => b"\t".to_vec(),
        2 => b"  ".to_vec(),
        3 => b" \t ".to_vec(),
        _ => b" ".to_vec(),
    }
}

fn exotic_ws(r: &mut Rng) -> Vec<u8> {
    r.pick(EXOTIC).to_vec()
}

fn gen_line(r: &mut Rng, deviate: bool) -> Vec<u8> {
    let mut l = Vec::new();
    let form = r.below(20);
    let br = |l: &mut Vec<u8>, e: &[u8]| {
        l.push(b'<');
        l.extend_from_slice(e);
        l.push(b'>');
    };
    match form {
        0 => {
            l.extend_from_slice(b"# ");
            l.extend_from_slice(&gen_token(r, NAMES));
            l.extend_from_slice(b" <a@x>");
        }
        1 => l.extend_from_slice(&ws(r)),
        2 => {
            // malformed in both: no email at all / unterminated / empty first email / email only
            match r.below(4) {
                0 => l.extend_from_slice(&gen_token(r, NAMES)),
                1 => {
                    l.extend_from_slice(&gen_token(r, NAMES));
                    l.extend_from_slice(b" <");
                    l.extend_from_slice(&gen_token(r, EMAILS));
                }
                2 => {
                    l.extend_from_slice(&gen_token(r, NAMES));
                    l.extend_from_slice(b" <>");
                }
                _ => br(&mut l, &gen_token(r, EMAILS)),
            }
        }
        3..=7 => {
            // Proper Name <commit@email>
            l.extend_from_slice(&ws(r));
            l.extend_from_slice(&gen_token(r, NAMES));
            l.extend_from_slice(&ws(r));
            br(&mut l, &gen_token(r, EMAILS));
        }
        8..=10 => {
            // <proper@email> <commit@email>
            l.extend_from_slice(&ws(r));
            br(&mut l, &gen_token(r, EMAILS));
            l.extend_from_slice(&ws(r));
            br(&mut l, &gen_token(r, EMAILS));
        }
        11..=13 => {
            // Proper Name <proper@email> <commit@email>
            l.extend_from_slice(&gen_token(r, NAMES));
            l.extend_from_slice(&ws(r));
            br(&mut l, &gen_token(r, EMAILS));
            l.extend_from_slice(&ws(r));
            br(&mut l, &gen_token(r, EMAILS));
        }
        14..=17 => {
            // Proper Name <proper@email> Commit Name <commit@email>
            l.extend_from_slice(&gen_token(r, NAMES));
            l.extend_from_slice(&ws(r));
            br(&mut l, &gen_token(r, EMAILS));
            l.extend_from_slice(&ws(r));
            l.extend_from_slice(&gen_token(r, NAMES));
            l.extend_from_slice(&ws(r));
            br(&mut l, &gen_token(r, EMAILS));
        }
        _ => {
            // <proper@email> Commit Name <commit@email>
            br(&mut l, &gen_token(r, EMAILS));
            l.extend_from_slice(&ws(r));
            l.extend_from_slice(&gen_token(r, NAMES));
            l.extend_from_slice(&ws(r));
            br(&mut l, &gen_token(r, EMAILS));
        }
    }
    if r.chance(1, 6) {
        l.extend_from_slice(&ws(r));
    }
    if deviate {
        match r.below(5) {
            0 => l.extend_from_slice(b" trailing"),
            1 => l.extend_from_slice(b" x <y> z <w>"),
            2 => {
                // whitespace inside the brackets
                if let Some(p) = l.iter().position(|b| *b == b'<') {
                    l.insert(p + 1, b' ');
                }
            }
            3 => l.extend_from_slice(b" <>"),
            _ => {
                let w = exotic_ws(r);
                let at = r.usize(l.len() + 1);
                for (i, b) in w.iter().enumerate() {
                    l.insert(at + i, *b);
                }
            }
        }
    }
    l
}

fn gen_file(r: &mut Rng) -> Vec<u8> {
    let n = match r.below(8) {
        0 => 0,
        1 => 1,
        2 | 3 => 2,
        4 | 5 => 1 + r.usize(5),
        _ => 1 + r.usize(14),
    };
    let deviating_file = r.chance(1, 8);
    let non_utf8 = r.chance(1, 6);
    NON_UTF8.with(|c| c.set(non_utf8));
    let mut f = Vec::new();
    for i in 0..n {
        let dev = deviating_file && r.chance(1, 3);
        let l = gen_line(r, dev);
        f.extend_from_slice(&l);
        let last = i + 1 == n;
        if last && r.chance(1, 4) {
            break;
        }
        f.extend_from_slice(if r.chance(1, 6) { b"\r\n" } else { b"\n" });
    }
    f
}

/// identities: mostly built from the tokens that occur in the file, with case variation
fn gen_ids(r: &mut Rng, file: &[u8], n: usize) -> Vec<Id> {
    let mut names: Vec<Vec<u8>> = vec![vec![]];
    let mut emails: Vec<Vec<u8>> = Vec::new();
    for line in file.split(|b| *b == b'\n') {
        let mut rest = line;
        while let Some((pre, e, after)) = scan(rest) {
            let nm = pre.trim().to_vec();
            if !nm.is_empty() {
                names.push(nm);
            }
            emails.push(e.to_vec());
            rest = after;
        }
    }
    (0..n)
        .map(|_| {
            let mut name = if r.chance(3, 4) { r.pick(&names).clone() } else { gen_token(r, NAMES) };
            let mut email = if !emails.is_empty() && r.chance(4, 5) { r.pick(&emails).clone() } else { gen_token(r, EMAILS) };
            if r.chance(1, 3) {
                name = flip_case(r, &name);
            }
            if r.chance(1, 4) {
                email = flip_case(r, &email);
            }
            (name, email)
        })
        .collect()
}

fn do_micro(cx: &mut Ctx, r: &mut Rng) {
    let rep = &mut cx.rep;
    match r.below(4) {
        0 => {
            // trim
            let mut v = Vec::new();
            for _ in 0..r.usize(7) {
                match r.below(5) {
                    0 | 1 => v.extend_from_slice(&exotic_ws(r)),
                    2 => v.extend_from_slice(&ws(r)),
                    3 => v.extend_from_slice(&r.over(b"a\xc2\xe2\x80\x81\x85\xa0\xe1\x9a\xe3\x9f\xa8 \r", 3)),
                    _ => v.push(b'x'),
                }
            }
            rep.case(
                &format!("trim {}", hex(&v)),
                &format!("{} {} {}", hex(v.trim()), hex(v.trim_start()), hex(v.trim_end())),
                true,
            );
            rep.bucket("micro:trim");
        }
        1 => {
            let mut v = gen_token(r, EMAILS);
            if r.chance(1, 2) {
                let n = r.usize(5);
                v = r.bytes(n);
                if r.chance(1, 2) {
                    for b in v.iter_mut() {
                        *b = *r.pick(&[0x7f, 0x80, 0xbf, 0xc0, 0xc1, 0xc2, 0xdf, 0xe0, 0xa0, 0x9f, 0xed, 0xef, 0xf0, 0x90, 0x8f, 0xf4, 0xf5, 0x41]);
                    }
                }
            }
            rep.case(&format!("utf8 {}", hex(&v)), if std::str::from_utf8(&v).is_ok() { "1" } else { "0" }, true);
            rep.bucket("micro:utf8");
        }
        2 => {
            let a = gen_token(r, EMAILS);
            let b = if r.chance(1, 4) { flip_case(r, &a) } else { gen_token(r, EMAILS) };
            do_cmp(rep, &a, &b);
        }
        _ => {
            let n = r.usize(12);
            let consistent = r.chance(2, 3);
            let tbl: Vec<u8> = if consistent {
                // sorted: L* E? G*
                let l = r.usize(n + 1);
                let e = if r.chance(1, 2) && l < n { 1 } else { 0 };
                (0..n).map(|i| if i < l { b'L' } else if i < l + e { b'E' } else { b'G' }).collect()
            } else {
                (0..n).map(|_| *r.pick(b"LEG")).collect()
            };
            do_bsearch(rep, &tbl);
        }
    }
}

fn do_cmp(rep: &mut Report, a: &[u8], b: &[u8]) {
    if a.is_empty() || b.is_empty() {
        return;
    }
    let ea = gix_mailmap::Entry::change_name_by_email("n", a.as_bstr());
    let eb = gix_mailmap::Entry::change_name_by_email("m", b.as_bstr());
    let snap = gix_mailmap::Snapshot::new([ea, eb]);
    let ents = snap.entries();
    // the second insertion asks cmp_ref(stored = a, probe = b)
    let obs = if ents.len() == 1 {
        "E"
    } else if ents[0].old_email() == a.as_bstr() {
        "L"
    } else {
        "G"
    };
    rep.case(&format!("cmp {} {}", hex(a), hex(b)), obs, true);
    rep.bucket(&format!("micro:cmp:{obs}"));
}

fn do_bsearch(rep: &mut Report, tbl: &[u8]) {
    let f = |c: &u8| match c {
        b'L' => std::cmp::Ordering::Less,
        b'E' => std::cmp::Ordering::Equal,
        _ => std::cmp::Ordering::Greater,
    };
    let obs = match tbl.binary_search_by(f) {
        Ok(i) => format!("ok:{i}"),
        Err(i) => format!("err:{i}"),
    };
    let t = if tbl.is_empty() { "-".to_string() } else { String::from_utf8_lossy(tbl).to_string() };
    rep.case(&format!("bsearch {t}"), &obs, true);
    rep.bucket("micro:bsearch");
}

fn id(n: &[u8], e: &[u8]) -> Id {
    (n.to_vec(), e.to_vec())
}

/// deterministic boundary cases first
fn corpus(cx: &mut Ctx) {
    // all four forms + the fifth, overrides, case variants
    let typical = b"# comment\nJoe R. Developer <joe@example.com>\nJoe R. Developer <joe@example.com> Joe <bugs@example.com>\nJane Doe <jane@example.com> <jane@laptop.(none)>\nJane Doe <jane@example.com> <jane@desktop.(none)>\nJane Doe <jane@example.com> Jane <bugs@example.com>\n<jane@example.com> Jane <Jane@ipad.(none)>\n";
    do_file(
        cx,
        typical,
        &[
            id(b"Foo", b"joe@example.com"),
            id(b"Joe", b"bugs@example.com"),
            id(b"Jane", b"jane@laptop.(none)"),
            id(b"janE", b"bugs@example.com"),
            id(b"janE", b"Jane@ipad.(none)"),
            id(b"Jean", b"bugs@example.com"),
            id(b"Jane", b"other@example.com"),
            id(b"", b"joe@example.com"),
        ],
        true,
    );
    // a simple entry given in two lines accumulates in git (name from one, email from the other)
    do_file(cx, b"Proper <c@x>\n<p@x> <c@x>\n", &[id(b"n", b"c@x")], true);
    do_file(cx, b"<p@x> <c@x>\nProper <c@x>\n", &[id(b"n", b"c@x")], true);
    do_file(cx, b"P <p@x> <c@x>\nQ <c@x>\n", &[id(b"n", b"c@x")], true);
    do_file(cx, b"P <p@x> <c@x>\n<q@x> <c@x>\n", &[id(b"n", b"c@x")], true);
    // a complex entry is replaced as a whole
    do_file(cx, b"P <p@x> Old <c@x>\n<q@x> Old <c@x>\n", &[id(b"Old", b"c@x"), id(b"old", b"C@x")], true);
    // email only / nothing: no mapping
    do_file(cx, b"<c@x>\nJust a name\nName <\nName <>\n", &[id(b"n", b"c@x")], true);
    // "# " after whitespace is a name
    do_file(cx, b" # nm <c@x>\n#P <c@x>\n", &[id(b"n", b"c@x")], true);
    // CRLF, no final newline
    do_file(cx, b"a <a@x>\r\n<b-new><b-old>\r\nc <c@x>", &[id(b"n", b"a@x"), id(b"n", b"b-old"), id(b"n", b"c@x")], true);
    // ordering boundaries of the sorted snapshot (UTF-8 sequences of every length, case folding vs byte order)
    let mut f = Vec::new();
    for e in EMAILS {
        if std::str::from_utf8(e).is_ok() {
            f.extend_from_slice(b"N <");
            f.extend_from_slice(e);
            f.extend_from_slice(b">\n");
        }
    }
    let ids: Vec<Id> = EMAILS.iter().map(|e| id(b"n", e)).collect();
    do_file(cx, &f, &ids, true);
    // the deviations recorded in known-findings.txt, one witness each (mirrored by Props.C53)
    do_file(cx, b"Proper <alex@x>\n", &[id(b"n", b"Alex@x")], true); // email-case-normalized
    do_file(cx, b"Proper <p@x> Old <c@x>\n", &[id(b"x", b"C@x")], true); // email-case-normalized (only complex)
    do_file(cx, b"Proper <c@x> trailing\n", &[id(b"n", b"c@x")], true); // trailing-text
    do_file(cx, b"Proper < c@x >\n", &[id(b"n", b"c@x")], true); // email-surrounding-whitespace
    do_file(cx, b"Proper <p@x> <>\n", &[id(b"n", b"")], true); // empty-commit-email
    do_file(cx, b"\x0bProper <c@x>\n", &[id(b"n", b"c@x")], true); // unicode-whitespace
    do_file(cx, b"Proper <c\xff@x>\n", &[id(b"n", b"C\xff@x")], true); // non-utf8-key
    // non-UTF-8 keys make the snapshot order inconsistent (a < B < Z\xff < a)
    do_file(
        cx,
        b"N1 <a>\nN2 <B>\nN3 <Z\xff>\nN4 <c>\nN5 <D>\n",
        &[id(b"n", b"a"), id(b"n", b"B"), id(b"n", b"Z\xff"), id(b"n", b"c"), id(b"n", b"D")],
        true,
    );
    for (a, b) in [
        (&b"a"[..], &b"B"[..]),
        (b"B", b"a"),
        (b"A", b"a"),
        (b"Z\xff", b"a"),
        (b"B", b"Z\xff"),
        (b"a", b"Z\xff"),
        (b"\x7f", b"\xc2\x80"),
        (b"\xdf\xbf", b"\xe0\xa0\x80"),
        (b"\xef\xbf\xbf", b"\xf0\x90\x80\x80"),
        (b"\xc3\x89", b"\xc3\xa9"),
        (b"ab", b"a"),
        (b"a", b"ab"),
    ] {
        do_cmp(&mut cx.rep, a, b);
    }
    for n in 0..8usize {
        // every consistent table of length n
        for l in 0..=n {
            for e in 0..=1usize {
                if l + e > n {
                    continue;
                }
                let tbl: Vec<u8> = (0..n).map(|i| if i < l { b'L' } else if i < l + e { b'E' } else { b'G' }).collect();
                do_bsearch(&mut cx.rep, &tbl);
            }
        }
    }
    // every table over {L,E,G} up to length 5 (inconsistent comparators included)
    for n in 0..=5u32 {
        for code in 0..3u32.pow(n) {
            let mut c = code;
            let tbl: Vec<u8> = (0..n)
                .map(|_| {
                    let d = c % 3;
                    c /= 3;
                    b"LEG"[d as usize]
                })
                .collect();
            do_bsearch(&mut cx.rep, &tbl);
        }
    }
}

fn parse_ids(a: &[&str]) -> Vec<Id> {
    a.chunks(2)
        .filter(|c| c.len() == 2)
        .filter_map(|c| Some((unhex(c[0])?, unhex(c[1])?)))
        .collect()
}

fn main() {
    let args = Args::parse();
    let mut cx = Ctx {
        rep: Report::new("C53", &args),
        scratch: Scratch::new("c53"),
    };
    let mut r = Rng::new(args.seed);
    if let Some(ops) = replay_ops(&args) {
        for op in ops {
            let a: Vec<&str> = op.split(' ').collect();
            match a[0] {
                "resolve" | "git" | "parse" | "entries" if a.len() >= 2 => {
                    if let Some(f) = unhex(a[1]) {
                        let ids = parse_ids(&a[2..]);
                        do_file(&mut cx, &f, &ids, true);
                    }
                }
                "cmp" if a.len() == 3 => {
                    if let (Some(x), Some(y)) = (unhex(a[1]), unhex(a[2])) {
                        do_cmp(&mut cx.rep, &x, &y)
                    }
                }
                "bsearch" if a.len() == 2 => do_bsearch(&mut cx.rep, if a[1] == "-" { b"" } else { a[1].as_bytes() }),
                _ => cx.rep.note(&format!("replay: op kind {} is re-generated by seed only", a[0])),
            }
        }
        cx.rep.finish();
        return;
    }
    corpus(&mut cx);
    let files = args.budget(260, 2000);
    for _ in 0..files {
        let f = gen_file(&mut r);
        let n = 6 + r.usize(20);
        let ids = gen_ids(&mut r, &f, n);
        do_file(&mut cx, &f, &ids, true);
        for _ in 0..6 {
            do_micro(&mut cx, &mut r);
        }
    }
    cx.rep.finish();
}
