//! C15 — reference names are validated like git; sanitizing always yields a valid name.
//!
//! Correspondence ops (real gix-validate vs the Lean model):
//!   tag H | name H | partial H      -> ok | err:<Kind> | panic
//!   sanitize H                      -> ok <hex> | panic
//!   git onelevel|full H             -> accept | refuse      (git BINARY vs the Lean transcription of refs.c)
//! Oracle (independent of the model): `git check-ref-format [--allow-onelevel]` on the name and on
//! the sanitizer's output; one-level rule of `refname_is_safe` ([A-Z_]+) evaluated natively.
use bstr::ByteSlice;
use hcommon::*;
use std::collections::HashMap;
use std::os::unix::ffi::OsStrExt as _;

fn tag_kind(e: &gix_validate::tag::name::Error) -> &'static str {
    use gix_validate::tag::name::Error::*;
    match e {
        InvalidByte { .. } => "InvalidByte",
        StartsWithSlash => "StartsWithSlash",
        RepeatedSlash => "RepeatedSlash",
        RepeatedDot => "RepeatedDot",
        LockFileSuffix => "LockFileSuffix",
        ReflogPortion => "ReflogPortion",
        Asterisk => "Asterisk",
        StartsWithDot => "StartsWithDot",
        EndsWithDot => "EndsWithDot",
        EndsWithSlash => "EndsWithSlash",
        Empty => "Empty",
    }
}

fn ref_kind(e: &gix_validate::reference::name::Error) -> &'static str {
    use gix_validate::reference::name::Error::*;
    match e {
        Tag(t) => tag_kind(t),
        SomeLowercase => "SomeLowercase",
    }
}

fn obs_tag(n: &[u8]) -> String {
    match catch(|| gix_validate::tag::name(n.as_bstr()).map(|_| ()).map_err(|e| tag_kind(&e))) {
        Ok(Ok(())) => "ok".into(),
        Ok(Err(k)) => format!("err:{k}"),
        Err(_) => "panic".into(),
    }
}

fn obs_ref(n: &[u8], partial: bool) -> String {
    let r = catch(|| {
        if partial {
            gix_validate::reference::name_partial(n.as_bstr()).map(|_| ()).map_err(|e| ref_kind(&e))
        } else {
            gix_validate::reference::name(n.as_bstr()).map(|_| ()).map_err(|e| ref_kind(&e))
        }
    });
    match r {
        Ok(Ok(())) => "ok".into(),
        Ok(Err(k)) => format!("err:{k}"),
        Err(_) => "panic".into(),
    }
}

fn sanitize(n: &[u8]) -> Option<Vec<u8>> {
    catch(|| gix_validate::reference::name_partial_or_sanitize(n.as_bstr()))
        .ok()
        .map(|b| b.to_vec())
}

/// The git binary as oracle.
/// * `batch`: ONE `git receive-pack` process judges thousands of names: a delete command for
///   `refs/<N>` is answered `ng … funny refname` exactly when `check_refname_format(N, 0)` fails
///   (builtin/receive-pack.c: update()). That is git's rule without REFNAME_ALLOW_ONELEVEL, exact for
///   every name that contains a '/'. A name without '/' is judged through `a/<N>` (same components
///   after a valid first one) — except that the lone-"@" rule cannot be seen that way, so:
/// * `direct`: `git check-ref-format --allow-onelevel <N>`, one process per name (≈150 ms each in this
///   sandbox), for a list of special one-level names including "@".
struct Git {
    scratch: Scratch,
    /// (onelevel, name) -> accepted;  onelevel=true only from direct calls
    cache: HashMap<(bool, Vec<u8>), bool>,
    calls: u64,
    batched: u64,
    repo_ready: bool,
}

impl Git {
    /// can this exact argument be handed to `git check-ref-format`? (no NUL; a leading '-' is parsed as an option)
    fn direct_ok(n: &[u8]) -> bool {
        !n.contains(&0) && n.first() != Some(&b'-')
    }
    fn direct(&mut self, names: &[Vec<u8>]) {
        for n in names {
            if !Self::direct_ok(n) || self.cache.contains_key(&(true, n.clone())) {
                continue;
            }
            let out = std::process::Command::new("git")
                .arg("check-ref-format")
                .arg("--allow-onelevel")
                .arg(std::ffi::OsStr::from_bytes(n))
                .current_dir(&self.scratch.path)
                .env_clear()
                .env("PATH", std::env::var("PATH").unwrap_or_else(|_| "/usr/bin:/bin".into()))
                .env("HOME", &self.scratch.path)
                .env("GIT_CONFIG_NOSYSTEM", "1")
                .env("GIT_CONFIG_GLOBAL", "/dev/null")
                .env("LC_ALL", "C")
                .stderr(std::process::Stdio::null())
                .output()
                .expect("run git");
            let acc = match out.status.code() {
                Some(0) => true,
                Some(1) => false,
                other => panic!("git check-ref-format exited with {other:?} for {}", hex(n)),
            };
            self.cache.insert((true, n.clone()), acc);
            self.calls += 1;
        }
    }
    /// `check_refname_format(N, 0)` for many names at once
    fn batch(&mut self, names: &[Vec<u8>]) {
        if !self.repo_ready {
            git_ok(&self.scratch.path, &["init", "-q", "rp"], None);
            self.repo_ready = true;
        }
        let mut todo: Vec<Vec<u8>> = names
            .iter()
            .filter(|n| !n.contains(&0) && n.len() < 60_000 && !self.cache.contains_key(&(false, n.to_vec())))
            .cloned()
            .collect();
        todo.sort();
        todo.dedup();
        let zero = "0".repeat(40);
        for chunk in todo.chunks(20_000) {
            let mut buf: Vec<u8> = Vec::new();
            for (i, n) in chunk.iter().enumerate() {
                let mut line: Vec<u8> = format!("{zero} {zero} refs/").into_bytes();
                line.extend_from_slice(n);
                if i == 0 {
                    line.extend_from_slice(b"\0report-status");
                }
                line.push(b'\n');
                buf.extend_from_slice(format!("{:04x}", line.len() + 4).as_bytes());
                buf.extend_from_slice(&line);
            }
            buf.extend_from_slice(b"0000");
            let o = git(&self.scratch.path, &["receive-pack", "rp"], Some(&buf));
            assert!(o.ok, "git receive-pack failed: {}", String::from_utf8_lossy(&o.stderr));
            // pkt-lines: advertisement, flush, "unpack ok", one status per command, flush
            let out = &o.stdout;
            let mut i = 0;
            let mut pkts: Vec<Option<&[u8]>> = Vec::new();
            while i + 4 <= out.len() {
                let l = usize::from_str_radix(std::str::from_utf8(&out[i..i + 4]).expect("pkt len"), 16).expect("pkt len");
                if l == 0 {
                    pkts.push(None);
                    i += 4;
                } else {
                    pkts.push(Some(&out[i + 4..i + l]));
                    i += l;
                }
            }
            let first_flush = pkts.iter().position(|p| p.is_none()).expect("advertisement flush");
            let rep: Vec<&[u8]> = pkts[first_flush + 1..].iter().take_while(|p| p.is_some()).map(|p| p.unwrap()).collect();
            assert_eq!(rep.first().copied(), Some(&b"unpack ok\n"[..]), "receive-pack: unpack status");
            assert_eq!(rep.len(), chunk.len() + 1, "receive-pack: one status per command expected");
            for (n, st) in chunk.iter().zip(&rep[1..]) {
                let acc = if st.starts_with(b"ok ") {
                    true
                } else {
                    assert!(st.starts_with(b"ng "), "receive-pack status {:?}", st.as_bstr());
                    !st.ends_with(b" funny refname\n")
                };
                self.cache.insert((false, n.clone()), acc);
                self.batched += 1;
            }
            self.calls += 1;
        }
    }
    fn via_prefix(n: &[u8]) -> Vec<u8> {
        let mut p = b"a/".to_vec();
        p.extend_from_slice(n);
        p
    }
    /// git's verdict under REFNAME_ALLOW_ONELEVEL and how it was obtained
    fn onelevel(&self, n: &[u8]) -> Option<(bool, &'static str)> {
        if n.contains(&0) {
            return Some((false, "git:nul-not-a-c-string"));
        }
        if let Some(a) = self.cache.get(&(true, n.to_vec())) {
            return Some((*a, "git:direct-check-ref-format"));
        }
        if n.contains(&b'/') {
            return self.cache.get(&(false, n.to_vec())).map(|a| (*a, "git:receive-pack"));
        }
        if n == b"@" {
            return None; // only a direct call can judge the lone "@"
        }
        self.cache.get(&(false, Self::via_prefix(n))).map(|a| (*a, "git:receive-pack-via-a/"))
    }
    fn noflag(&self, n: &[u8]) -> Option<bool> {
        self.cache.get(&(false, n.to_vec())).copied()
    }
}

const ALPHA: &[u8] = b"./@{*:~^?[\\ \x01\x7f\x80aA_-lock";
/// thorough tier: every string of length <= 5 over these ten symbols
const SUB: &[u8] = b"./@{*~Aa-\x7f";
const TOKENS: &[&[u8]] = &[
    b".lock", b"lock", b".", b"..", b"@", b"@{", b"{", b"a", b"A_B", b"HEAD", b"refs", b"heads", b"x.lock",
    b".lock.lock", b"-", b"*", b"a.", b".a", b"\x80\xff", b"~", b" ", b"main", b"v1.0", b"\x7f", b"\t", b"a@", b"@a",
    b"lock.", b".loc", b"k", b".lockx", b"FETCH_HEAD", b"-x",
];
const VALID: &[&[u8]] = &[
    b"refs/heads/main", b"HEAD", b"FETCH_HEAD", b"refs/tags/v1.0", b"a/b.c/d@e", b"refs/remotes/origin/feature/x",
    b"main", b"worktrees/id/HEAD", b"refs/heads/a.lockx", b"refs/heads/@", b"heads/\xe4\xbd\xa0\xe5\xa5\xbd", b"a./b",
    b"refs/heads/x.lock.y", b"A_B", b"refs/heads/{a}", b"-/-",
];

fn gen_name(r: &mut Rng) -> (Vec<u8>, &'static str) {
    match r.below(12) {
        0..=2 => (r.over(ALPHA, 10), "random-alpha"),
        3..=5 => {
            // components from tokens, glued with '/', '//' or nothing
            let k = 1 + r.usize(4);
            let mut v = Vec::new();
            if r.chance(1, 8) {
                v.push(b'/');
            }
            for i in 0..k {
                if i > 0 {
                    match r.below(8) {
                        0 => v.extend_from_slice(b"//"),
                        1 => {}
                        _ => v.push(b'/'),
                    }
                }
                { let t: &[u8] = *r.pick(TOKENS); v.extend_from_slice(t); }
            }
            if r.chance(1, 8) {
                v.push(b'/');
            }
            (v, "tokens")
        }
        6..=9 => {
            // a valid name with 0..2 edits
            let mut v = r.pick(VALID).to_vec();
            let edits = r.below(3);
            for _ in 0..edits {
                let pos = r.usize(v.len() + 1);
                match r.below(4) {
                    0 if !v.is_empty() => {
                        v.remove(pos.min(v.len() - 1));
                    }
                    1 => v.insert(pos, *r.pick(ALPHA)),
                    2 => {
                        let t: &[u8] = *r.pick(TOKENS);
                        for (i, b) in t.iter().enumerate() {
                            v.insert(pos + i, *b);
                        }
                    }
                    _ => {
                        if !v.is_empty() {
                            let p = pos.min(v.len() - 1);
                            v[p] = *r.pick(ALPHA);
                        }
                    }
                }
            }
            (v, if edits == 0 { "valid" } else { "valid-edited" })
        }
        10 => {
            let n = r.usize(4);
            (r.over(b"/.", n + 1), "separators-only")
        }
        _ => {
            let n = r.usize(9);
            (r.bytes(n), "random-bytes")
        }
    }
}

fn corpus() -> Vec<Vec<u8>> {
    let mut v: Vec<Vec<u8>> = Vec::new();
    for s in [
        &b""[..], b"/", b"//", b"///", b"@", b"@/", b"/@", b"//@//", b"@.lock", b"@.lock.lock/", b"..lock", b".lock.lock",
        b".lock", b"a.lock", b"x/.lock", b"/.lock", b".lock/", b".lock/b", b"...lock/..lock//lock", b"//....///....///",
        b".", b"..", b"./", b"/.", b"a/.", b"a/..", b"a./b", b"a/b.", b"@{", b"a@{b", b"@/{", b"a/@", b"@/a", b"a//b", b"a/", b"/a",
        b"-", b"-x", b"--allow-onelevel", b"a/-x", b"HEAD", b"head", b"A_B", b"A-B", b"a*", b"*", b"a b", b"a\x7fb", b"a\x80b",
        b"a\0b", b"\0", b"a.lock.lock/b", b"a.lock/b", b"ab.lock", b"lock", b"a.loc", b"a.lockk", b"a/.lock/b", b"a..lock",
        b"refs/heads/main", b"refs/heads/main.lock", b"refs/heads/.hidden", b"refs/../x", b"a\\b", b"a^", b"a:b", b"a?b",
        b"a[b", b"a~1", b"\xff\xfe", b"a/b/", b"x.lock/", b"x.lock//", b"/x.lock", b"a/b.lock/c.lock", b".a", b"a.",
    ] {
        v.push(s.to_vec());
    }
    // every single byte, and every byte after 'a' / before 'a'
    for b in 0..=255u8 {
        v.push(vec![b]);
        v.push(vec![b'a', b]);
        v.push(vec![b, b'a']);
    }
    // every pair over the special bytes
    let sp = b"./@{*-a\x01";
    for a in sp {
        for b in sp {
            v.push(vec![*a, *b]);
            v.push(vec![b'x', *a, *b, b'y']);
        }
    }
    v
}

fn is_upper_(n: &[u8]) -> bool {
    n.iter().all(|c| c.is_ascii_uppercase() || *c == b'_')
}

struct Item {
    name: Vec<u8>,
    partial: String,
    full: String,
    san: Option<Vec<u8>>,
    fresh: bool,
}

/// one-level names judged by a dedicated `git check-ref-format --allow-onelevel` process each
const DIRECT: &[&[u8]] = &[
    b"@", b"", b"a", b"HEAD", b"main", b".", b"..", b".lock", b"a.lock", b"@{", b"a@{b", b"*", b"a.", b".a", b"\x7f", b"a b",
    b"\x80", b"lock", b"{", b"@a", b"a@", b"A_B", b"A-B", b"a..b", b"a.lockk", b"\x01", b"~", b"^", b":", b"?", b"[", b"\\",
    b"a\tb", b"@@", b"x.lock.lock", b".lock.lock", b"..lock", b"FETCH_HEAD", b"a\nb", b"\xff\xfe",
];

fn main() {
    let args = Args::parse();
    let mut rep = Report::new("C15", &args);
    let mut r = Rng::new(args.seed);
    let mut git = Git {
        scratch: Scratch::new("c15"),
        cache: HashMap::new(),
        calls: 0,
        batched: 0,
        repo_ready: false,
    };
    let mut names: Vec<(Vec<u8>, &'static str)> = Vec::new();
    let replaying;
    if let Some(ops) = replay_ops(&args) {
        replaying = true;
        for op in &ops {
            let a: Vec<&str> = op.split(' ').collect();
            if let Some(h) = a.last().and_then(|h| unhex(h)) {
                names.push((h, "replay"));
            }
        }
    } else {
        replaying = false;
        for n in DIRECT {
            names.push((n.to_vec(), "corpus"));
        }
        for n in corpus() {
            names.push((n, "corpus"));
        }
        if args.thorough {
            // exhaustive: all strings of length <= 5 over SUB (111 110 names)
            let mut cur: Vec<Vec<u8>> = vec![vec![]];
            for _ in 0..5 {
                let mut next = Vec::with_capacity(cur.len() * SUB.len());
                for s in &cur {
                    for c in SUB {
                        let mut t = s.clone();
                        t.push(*c);
                        next.push(t);
                    }
                }
                for t in &next {
                    names.push((t.clone(), "exhaustive-len<=5"));
                }
                cur = next;
            }
            // exhaustive: up to 5 tokens from a small ".lock"-centred set
            let toks: &[&[u8]] = &[b".lock", b".", b"/", b"@", b"{", b"a", b"lock", b"-"];
            let mut cur: Vec<Vec<u8>> = vec![vec![]];
            for _ in 0..5 {
                let mut next = Vec::new();
                for s in &cur {
                    for c in toks {
                        let mut t = s.clone();
                        t.extend_from_slice(c);
                        next.push(t);
                    }
                }
                for t in &next {
                    names.push((t.clone(), "exhaustive-tokens<=5"));
                }
                cur = next;
            }
        }
        let n = args.budget(12_000, 150_000);
        for _ in 0..n {
            let (mut v, b) = gen_name(&mut r);
            if v.is_empty() && !r.chance(1, 50) {
                v.push(*r.pick(ALPHA)); // the empty name is in the corpus; do not waste the budget on it
            }
            names.push((v, b));
        }
    }

    // ---- the real code ----------------------------------------------------------------------
    let mut items: Vec<Item> = Vec::with_capacity(names.len());
    let mut seen = std::collections::HashSet::new();
    for (n, bucket) in names.iter() {
        let h = hex(n);
        let fresh = seen.insert(n.clone());
        rep.bucket(bucket);
        let t = obs_tag(n);
        let full = obs_ref(n, false);
        let partial = obs_ref(n, true);
        let san = sanitize(n);
        rep.bucket(&format!("partial:{}", partial));
        rep.case(&format!("tag {h}"), &t, fresh);
        rep.case(&format!("name {h}"), &full, fresh);
        rep.case(&format!("partial {h}"), &partial, fresh);
        let sobs = match &san {
            Some(o) => format!("ok {}", hex(o)),
            None => "panic".into(),
        };
        rep.case(&format!("sanitize {h}"), &sobs, fresh);
        if san.as_deref() != Some(&n[..]) {
            rep.bucket(if san.is_some() { "sanitize:changed" } else { "sanitize:panic" });
        } else {
            rep.bucket("sanitize:unchanged");
        }
        items.push(Item {
            name: n.clone(),
            partial,
            full,
            san,
            fresh,
        });
    }

    // ---- git: the names, then the sanitizer's outputs ----------------------------------------
    let mut direct: Vec<Vec<u8>> = DIRECT.iter().map(|n| n.to_vec()).collect();
    if replaying {
        direct.extend(items.iter().filter(|it| !it.name.contains(&b'/')).take(200).map(|it| it.name.clone()));
        direct.extend(items.iter().filter_map(|it| it.san.clone()).filter(|o| !o.contains(&b'/')).take(200));
    } else if args.thorough {
        // every one-level corpus name gets its own check-ref-format process in the thorough tier
        direct.extend(items.iter().filter(|it| !it.name.contains(&b'/')).take(1_000).map(|it| it.name.clone()));
    }
    git.direct(&direct);
    let mut q: Vec<Vec<u8>> = Vec::new();
    for it in items.iter().filter(|it| it.fresh) {
        for n in std::iter::once(&it.name).chain(it.san.iter()) {
            if n.contains(&b'/') {
                q.push(n.clone());
            } else {
                q.push(Git::via_prefix(n));
            }
        }
    }
    git.batch(&q);
    rep.git_checked(git.batched + direct.len() as u64);
    rep.note(&format!(
        "git processes: {} (check-ref-format --allow-onelevel per name: {}; receive-pack batches judging {} names)",
        git.calls,
        direct.len(),
        git.batched
    ));

    // tie of the Lean transcription of refs.c to the git binary
    let mut cached: Vec<(&(bool, Vec<u8>), &bool)> = git.cache.iter().collect();
    cached.sort();
    for ((one, n), acc) in cached {
        rep.case(
            &format!("git {} {}", if *one { "onelevel" } else { "full" }, hex(n)),
            if *acc { "accept" } else { "refuse" },
            false,
        );
    }

    // ---- the property itself on the real code ------------------------------------------------
    for it in items.iter().filter(|it| it.fresh) {
        let h = hex(&it.name);
        let gix_partial = it.partial == "ok";
        let gix_full = it.full == "ok";
        if it.partial == "panic" || it.full == "panic" {
            rep.oracle_failure(&format!("validate-panic:{h}"), "the validator panicked", &format!("partial {h}"));
        }
        // sanitizing: always succeeds, result passes validation, valid names are left alone
        rep.oracle_checked();
        match &it.san {
            None => rep.oracle_failure(
                &format!("sanitize-panic:{h}"),
                &format!("name_partial_or_sanitize({:?}) panicked", it.name.as_bstr()),
                &format!("sanitize {h}"),
            ),
            Some(o) => {
                if obs_ref(o, true) != "ok" {
                    rep.oracle_failure(
                        &format!("sanitize-invalid:{h}"),
                        &format!("name_partial_or_sanitize({:?}) = {:?} which name_partial() refuses", it.name.as_bstr(), o.as_bstr()),
                        &format!("sanitize {h}"),
                    );
                }
                if gix_partial && o != &it.name {
                    rep.oracle_failure(
                        &format!("sanitize-changes-valid:{h}"),
                        &format!("valid name {:?} is altered to {:?}", it.name.as_bstr(), o.as_bstr()),
                        &format!("sanitize {h}"),
                    );
                }
                if let Some((false, how)) = git.onelevel(o) {
                    // the validator accepts (checked above) what git refuses
                    rep.oracle_failure(
                        &format!("gix-accepts-git-refuses:{}", hex(o)),
                        &format!("sanitizer output {:?} (from {:?}) is refused by git ({how})", o.as_bstr(), it.name.as_bstr()),
                        &format!("partial {}", hex(o)),
                    );
                }
            }
        }
        // git's verdict for the name under --allow-onelevel
        let Some((git_one, how)) = git.onelevel(&it.name) else { continue };
        rep.bucket(how);
        rep.oracle_checked();
        rep.bucket(if git_one { "git:accept" } else { "git:refuse" });
        if gix_partial != git_one {
            let key = if gix_partial { "gix-accepts-git-refuses" } else { "gix-refuses-git-accepts" };
            rep.oracle_failure(
                &format!("{key}:{h}"),
                &format!(
                    "name_partial({:?}) = {} but git {} ({how})",
                    it.name.as_bstr(),
                    it.partial,
                    if git_one { "accepts" } else { "refuses" }
                ),
                &format!("partial {h}"),
            );
        }
        // complete names: one-level names by git's one-level rule (refname_is_safe: [A-Z_]+)
        let has_slash = it.name.contains(&b'/');
        let git_full = git_one && (has_slash || is_upper_(&it.name));
        if gix_full != git_full {
            rep.oracle_failure(
                &format!("full-name-mismatch:{h}"),
                &format!("name({:?}) = {} but git's rule says {}", it.name.as_bstr(), it.full, git_full),
                &format!("name {h}"),
            );
        }
        if has_slash {
            if let Some(g) = git.noflag(&it.name) {
                rep.oracle_checked();
                if g != gix_full {
                    rep.oracle_failure(
                        &format!("full-name-vs-git:{h}"),
                        &format!("name({:?}) = {} but check_refname_format(name, 0) {}", it.name.as_bstr(), it.full, if g { "accepts" } else { "refuses" }),
                        &format!("name {h}"),
                    );
                }
            }
        }
    }
    rep.finish();
}
