//! C11 — loose objects written by gitoxide are git objects and read back exactly; truncated files are errors.
//!
//! Correspondence ops (the same line goes to the Lean driver `drv_C11`, which runs the modelled
//! `hash::Write<deflate::Write>` / `find_inner` / `try_header` over a stored-block codec and a full SHA-1):
//!   write <kind> <data> <sizes>   `-`: `loose::Store::write_buf`; otherwise `write_stream` with a reader that hands
//!                                 out the data in pieces of the given sizes → id, path below the objects directory,
//!                                 `try_find`, `try_header`
//!   wtyped <kind> <data>          typed `loose::Store::write(&dyn WriteTo)` of the parsed object (model: `write`)
//!   find <zhex>                   a file with exactly these bytes (stored-block zlib stream of header+body made by
//!                                 flate2 level 0 or by `git -c core.looseCompression=0`, possibly cut, damaged, with a
//!                                 lying header) → `try_find`, `try_header`
//!   decode <hex>                  `gix_object::decode::loose_header`
//!
//! Oracle pass (property itself, on the real code, independent of the model): ids vs `git hash-object`; every file
//! gitoxide wrote is read by `git cat-file --batch` (type, size, bytes) and the repository passes `git fsck`; objects
//! written by git at compression levels 0/1/6/9 are read back by gitoxide; every strict prefix of small object files
//! and many cut points of large ones must make `try_find` fail.
use gix_object::WriteTo;
use gix_odb::Write as _;
use hcommon::*;
use std::io::Read;
use std::path::{Path, PathBuf};

fn gen_bytes(mode: u8, seed: u64, n: usize) -> Vec<u8> {
    let mut x = seed;
    let mut out = Vec::with_capacity(n);
    for i in 0..n {
        x = x.wrapping_mul(6364136223846793005).wrapping_add(1442695040888963407);
        let b = match mode {
            0 => (x >> 56) as u8,
            1 => {
                if i % 13 == 12 {
                    (x >> 56) as u8
                } else {
                    97 + (i % 7) as u8
                }
            }
            _ => 0,
        };
        out.push(b);
    }
    out
}

fn parse_data(tok: &str) -> Option<Vec<u8>> {
    let parts: Vec<&str> = tok.split(':').collect();
    match parts.as_slice() {
        [g, seed, len] if ["g0", "g1", "g2"].contains(g) => Some(gen_bytes(g.as_bytes()[1] - b'0', seed.parse().ok()?, len.parse().ok()?)),
        [h] => unhex(h),
        _ => None,
    }
}

fn parse_nats(tok: &str) -> Option<Vec<usize>> {
    if tok == "-" {
        return Some(vec![]);
    }
    tok.split(',').map(|s| s.parse().ok()).collect()
}

fn show_nats(v: &[usize]) -> String {
    if v.is_empty() {
        "-".into()
    } else {
        v.iter().map(|n| n.to_string()).collect::<Vec<_>>().join(",")
    }
}

fn parse_kind(s: &str) -> Option<gix_object::Kind> {
    gix_object::Kind::from_bytes(s.as_bytes()).ok()
}

fn sha1_hex(bs: &[u8]) -> String {
    let mut h = gix_features::hash::hasher(gix_hash::Kind::Sha1);
    h.update(bs);
    hex(&h.digest())
}

/// a reader that hands out at most `sizes[i % len]` (min 1) bytes per `read`
struct ShortReader<'a> {
    data: &'a [u8],
    sizes: Vec<usize>,
    i: usize,
}
impl Read for ShortReader<'_> {
    fn read(&mut self, buf: &mut [u8]) -> std::io::Result<usize> {
        let lim = if self.sizes.is_empty() { usize::MAX } else { self.sizes[self.i % self.sizes.len()].max(1) };
        self.i += 1;
        let n = lim.min(buf.len()).min(self.data.len());
        buf[..n].copy_from_slice(&self.data[..n]);
        self.data = &self.data[n..];
        Ok(n)
    }
}

fn zlib_level(data: &[u8], level: u32) -> Vec<u8> {
    let mut c = flate2::Compress::new(flate2::Compression::new(level), true);
    let mut out = vec![0u8; data.len() + data.len() / 1000 * 10 + 256];
    let st = c.compress(data, &mut out, flate2::FlushCompress::Finish).expect("compress");
    assert_eq!(st, flate2::Status::StreamEnd);
    out.truncate(c.total_out() as usize);
    out
}

struct Cx {
    rep: Report,
    scratch: Scratch,
    repo: PathBuf,
    objects: PathBuf,
    store: gix_odb::loose::Store,
    /// objects written by gitoxide into the git repository: (id, kind, data, op)
    written: Vec<(gix_hash::ObjectId, gix_object::Kind, Vec<u8>, String)>,
    /// non-blob objects are only fsck-clean when they were built from the templates
    fsck_ok: bool,
}

fn find_obs(store: &gix_odb::loose::Store, id: &gix_hash::oid) -> (String, Option<(gix_object::Kind, Vec<u8>)>) {
    let mut buf = Vec::new();
    let r = catch(|| store.try_find(id, &mut buf).map(|o| o.map(|d| (d.kind, d.data.to_vec()))));
    match r {
        Ok(Ok(Some((k, d)))) => (format!("ok:{}:{}:{}", k, d.len(), sha1_hex(&d)), Some((k, d))),
        Ok(Ok(None)) => ("missing".into(), None),
        Ok(Err(_)) => ("err".into(), None),
        Err(_) => ("panic".into(), None),
    }
}

fn header_obs(store: &gix_odb::loose::Store, id: &gix_hash::oid) -> String {
    match catch(|| store.try_header(id)) {
        Ok(Ok(Some((size, kind)))) => format!("ok:{size}:{kind}"),
        Ok(Ok(None)) => "missing".into(),
        Ok(Err(_)) => "err".into(),
        Err(_) => "panic".into(),
    }
}

fn make_writable(p: &Path) {
    use std::os::unix::fs::PermissionsExt;
    if let Ok(m) = std::fs::metadata(p) {
        let mut perms = m.permissions();
        perms.set_mode(0o644);
        let _ = std::fs::set_permissions(p, perms);
    }
}

/// put `bytes` where the loose store looks for `id`
fn place(cx: &Cx, id: &gix_hash::oid, bytes: &[u8]) -> PathBuf {
    let p = cx.store.object_path(id);
    std::fs::create_dir_all(p.parent().unwrap()).expect("mkdir");
    make_writable(&p);
    std::fs::write(&p, bytes).expect("write object file");
    p
}

fn scratch_id(n: u64) -> gix_hash::ObjectId {
    let mut b = [0xeeu8; 20];
    b[12..].copy_from_slice(&n.to_be_bytes());
    gix_hash::ObjectId::from_bytes_or_panic(&b)
}

fn do_write(cx: &mut Cx, op: &str, kind: gix_object::Kind, data: &[u8], how: &str, sizes: &[usize]) {
    let res = catch(|| match how {
        "buf" => cx.store.write_buf(kind, data).map_err(|e| e.to_string()),
        "stream" => {
            let mut rd = ShortReader { data, sizes: sizes.to_vec(), i: 0 };
            cx.store.write_stream(kind, data.len() as u64, &mut rd).map_err(|e| e.to_string())
        }
        _ => {
            // typed: parse and write through `WriteTo`
            let obj = gix_object::ObjectRef::from_bytes(kind, data).map_err(|e| e.to_string())?;
            let obj: gix_object::Object = obj.into();
            cx.store.write(&obj as &dyn WriteTo).map_err(|e| e.to_string())
        }
    });
    let id = match res {
        Ok(Ok(id)) => id,
        Ok(Err(e)) => {
            if how == "typed" && !e.contains("tempfile") {
                // not a parsable object: nothing to compare
                cx.rep.outside_domain(&format!("{op}: not a parsable object ({e})"));
                return;
            }
            cx.rep.case(op, "write-failed", true);
            cx.rep.oracle_failure(op, &format!("loose::Store::write_* failed: {e}"), op);
            return;
        }
        Err(_) => {
            cx.rep.case(op, "panic", true);
            cx.rep.oracle_failure(op, "loose::Store::write_* panicked", op);
            return;
        }
    };
    let path = cx.store.object_path(&id);
    let rel = path.strip_prefix(&cx.objects).map(|p| p.display().to_string()).unwrap_or_else(|_| "outside".into());
    let rel = if path.is_file() { rel } else { format!("MISSING:{rel}") };
    let (f_obs, found) = find_obs(&cx.store, &id);
    let h_obs = header_obs(&cx.store, &id);
    cx.rep.case(op, &format!("id={id} path={rel} find={f_obs} header={h_obs}"), true);
    cx.rep.bucket(&format!("write:{how}:{}", kind));
    cx.rep.bucket(&format!("write:len~2^{}", usize::BITS - data.len().leading_zeros()));
    // the property on the real code: read back exactly
    cx.rep.oracle_checked();
    match found {
        Some((k, d)) if k == kind && d == data => {}
        other => cx.rep.oracle_failure(
            op,
            &format!("wrote {} bytes of kind {kind} as {id}, try_find gives {:?}", data.len(), other.map(|(k, d)| (k, d.len()))),
            op,
        ),
    }
    // the `EarlyOutput` clause of Props.C11.header_only_complete on the real zlib: the first 192 bytes of the file
    // yield at least 28 bytes of content (given room)
    if let Ok(z) = std::fs::read(&path) {
        if z.len() > 192 {
            let mut inf = gix_features::zlib::Inflate::default();
            let mut out64 = [0u8; 64];
            let produced = inf.once(&z[..192], &mut out64).map(|(_, _, o)| o).unwrap_or(0);
            cx.rep.oracle_checked();
            cx.rep.bucket(if produced >= 28 { "early-output:first-192-bytes-yield>=28" } else { "early-output:VIOLATED" });
            if produced < 28 {
                cx.rep.note(&format!("CONTRACT EarlyOutput: the first 192 bytes of the file gitoxide wrote for {op} inflate to only {produced} bytes"));
            }
        }
    }
    if h_obs != format!("ok:{}:{}", data.len(), kind) {
        cx.rep.oracle_failure(&format!("header {op}"), &format!("try_header of the written object says {h_obs}"), op);
    }
    cx.written.push((id, kind, data.to_vec(), op.to_string()));
}

fn do_op(cx: &mut Cx, op: &str) {
    let args: Vec<&str> = op.split(' ').collect();
    match args.as_slice() {
        ["write", kind_tok, data_tok, sizes_tok] => {
            let (Some(kind), Some(data), Some(sizes)) = (parse_kind(kind_tok), parse_data(data_tok), parse_nats(sizes_tok)) else {
                cx.rep.case(op, "bad-op", false);
                return;
            };
            if kind != gix_object::Kind::Blob && !data.is_empty() {
                // arbitrary bytes labelled tree/commit/tag: git fsck would rightfully complain about the content
                cx.fsck_ok = false;
            }
            let how = if sizes.is_empty() { "buf" } else { "stream" };
            do_write(cx, op, kind, &data, how, &sizes);
        }
        ["wtyped", kind_tok, data_tok] => {
            let (Some(kind), Some(data)) = (parse_kind(kind_tok), parse_data(data_tok)) else {
                cx.rep.case(op, "bad-op", false);
                return;
            };
            do_write(cx, op, kind, &data, "typed", &[]);
        }
        ["find", z_tok] | ["findc", z_tok] => {
            // `findc`: a stream with a damaged checksum — `try_header` is not compared (the real inflater works ahead
            // of the output it hands out and may notice the damage before a lazy one gets there)
            let with_header = args[0] == "find";
            let Some(z) = parse_data(z_tok) else {
                cx.rep.case(op, "bad-op", false);
                return;
            };
            let id = scratch_id(cx.rep.evaluations);
            let p = place(cx, &id, &z);
            let (f_obs, _) = find_obs(&cx.store, &id);
            let h_obs = header_obs(&cx.store, &id);
            let _ = std::fs::remove_file(&p);
            cx.rep.oracle_checked();
            if f_obs == "panic" || h_obs == "panic" {
                // `find_never_panics`: whatever the file holds, the answer is Ok or Err
                cx.rep.oracle_failure(&op[..op.len().min(300)], &format!("a loose object file made try_find / try_header panic: find={f_obs} header={h_obs}"), op);
            }
            cx.rep.bucket(&format!("find:{}", f_obs.split(':').next().unwrap_or("")));
            if with_header {
                cx.rep.case(op, &format!("find={f_obs} header={h_obs}"), true);
            } else {
                cx.rep.case(op, &format!("find={f_obs}"), true);
            }
        }
        ["decode", h_tok] => {
            let Some(h) = parse_data(h_tok) else {
                cx.rep.case(op, "bad-op", false);
                return;
            };
            let obs = match catch(|| gix_object::decode::loose_header(&h)) {
                Ok(Ok((k, n, hs))) => format!("{k} {n} {hs}"),
                Ok(Err(_)) => "err".into(),
                Err(_) => "panic".into(),
            };
            cx.rep.bucket(&format!("decode:{}", if obs == "err" || obs == "panic" { &obs } else { "ok" }));
            cx.rep.case(op, &obs, true);
        }
        _ => cx.rep.case(op, "bad-op", false),
    }
}

const SIZES: [usize; 28] = [
    0, 1, 2, 27, 28, 36, 37, 55, 56, 57, 58, 63, 64, 65, 100, 191, 192, 193, 4095, 4096, 4097, 32767, 32768, 32769, 65535, 65536, 65537,
    131072,
];

fn gen_len(r: &mut Rng, max: usize) -> usize {
    (match r.below(10) {
        0..=4 => *r.pick(&SIZES),
        5..=6 => r.usize(200),
        7 => r.usize(5000),
        8 => r.usize(70_000),
        _ => r.usize(max + 1),
    })
    .min(max)
}

fn gen_data_tok(r: &mut Rng, max: usize) -> String {
    let n = gen_len(r, max);
    if n <= 40 && r.chance(1, 2) {
        return hex(&r.bytes(n));
    }
    format!("g{}:{}:{}", r.below(3), r.below(1_000_000), n)
}

fn gen_sizes(r: &mut Rng) -> Vec<usize> {
    if r.chance(1, 3) {
        return vec![];
    }
    let k = 1 + r.usize(6);
    (0..k).map(|_| *r.pick(&[1usize, 2, 7, 63, 64, 65, 1000, 4096, 8191, 8192, 8193, 100_000])).collect()
}

/// valid tree / commit / tag objects over ids that exist in the repository
fn gen_typed(cx: &Cx, r: &mut Rng) -> (gix_object::Kind, Vec<u8>) {
    let blobs: Vec<&gix_hash::ObjectId> = cx.written.iter().filter(|w| w.1 == gix_object::Kind::Blob).map(|w| &w.0).collect();
    let trees: Vec<&gix_hash::ObjectId> = cx.written.iter().filter(|w| w.1 == gix_object::Kind::Tree).map(|w| &w.0).collect();
    let commits: Vec<&gix_hash::ObjectId> = cx.written.iter().filter(|w| w.1 == gix_object::Kind::Commit).map(|w| &w.0).collect();
    let pad = "x".repeat(r.usize(80));
    match r.below(4) {
        0 if !blobs.is_empty() => {
            let n = 1 + r.usize(4.min(blobs.len()));
            let mut names: Vec<String> = (0..n).map(|i| format!("f{i}{}", &pad[..pad.len().min(i * 3)])).collect();
            names.sort();
            let mut out = Vec::new();
            for name in names {
                out.extend_from_slice(b"100644 ");
                out.extend_from_slice(name.as_bytes());
                out.push(0);
                out.extend_from_slice(blobs[r.usize(blobs.len())].as_bytes());
            }
            (gix_object::Kind::Tree, out)
        }
        1 if !trees.is_empty() => {
            let mut s = format!("tree {}\n", trees[r.usize(trees.len())]);
            if !commits.is_empty() && r.chance(1, 2) {
                s.push_str(&format!("parent {}\n", commits[r.usize(commits.len())]));
            }
            s.push_str(&format!("author A U Thor <a@example.com> {} +0000\ncommitter C O Mitter <c@example.com> 1700000000 +0100\n\nmessage {pad}\n", 1_600_000_000 + r.below(1000)));
            (gix_object::Kind::Commit, s.into_bytes())
        }
        2 if !commits.is_empty() => {
            let s = format!(
                "object {}\ntype commit\ntag v{}\ntagger T Agger <t@example.com> 1700000000 +0000\n\n{pad}\n",
                commits[r.usize(commits.len())],
                r.below(100)
            );
            (gix_object::Kind::Tag, s.into_bytes())
        }
        _ => (gix_object::Kind::Tree, Vec::new()),
    }
}

/// truncations of the file of an object `try_find` reads correctly: every cut must be an error
fn truncation_oracle(cx: &mut Cx, r: &mut Rng, id: &gix_hash::oid, who: &str, kind: gix_object::Kind, data_len: usize, op: &str) {
    let path = cx.store.object_path(id);
    let Ok(z) = std::fs::read(&path) else { return };
    let mut cuts: Vec<usize> = if z.len() <= 160 {
        (0..z.len()).collect()
    } else {
        let mut v: Vec<usize> = (0..40).map(|_| r.usize(z.len())).collect();
        v.extend((1..=12).map(|k| z.len() - k));
        v.extend([0usize, 1, 2, 10, 64, 191, 192, 193].iter().filter(|c| **c < z.len()));
        v
    };
    cuts.sort();
    cuts.dedup();
    make_writable(&path);
    for cut in cuts {
        std::fs::write(&path, &z[..cut]).expect("truncate");
        let (obs, _) = find_obs(&cx.store, id);
        cx.rep.oracle_checked();
        cx.rep.oracle_only(&format!("truncate {who} {kind} len={data_len} file={} keep={cut}", z.len()), true);
        cx.rep.bucket(&format!("truncate:{who}:{}", if z.len() - cut <= 8 { "tail" } else if cut <= 16 { "head" } else { "middle" }));
        if obs != "err" {
            cx.rep.oracle_failure(
                &format!("truncated {who} {kind} len={data_len} file={}b cut=-{}", z.len(), z.len() - cut),
                &format!("object file of {} bytes (object {kind}, {data_len} bytes, written by {who}) shortened to {cut} bytes: try_find = {obs} instead of an error", z.len()),
                op,
            );
        }
    }
    std::fs::write(&path, &z).expect("restore");
}

fn git_batch(repo: &Path, ids: &[String]) -> Vec<Option<(String, Vec<u8>)>> {
    let input = ids.join("\n") + "\n";
    let out = git(repo, &["cat-file", "--batch"], Some(input.as_bytes()));
    let mut res = Vec::new();
    let mut rest: &[u8] = &out.stdout;
    for _ in ids {
        let Some(nl) = rest.iter().position(|b| *b == b'\n') else {
            res.push(None);
            continue;
        };
        let line = String::from_utf8_lossy(&rest[..nl]).to_string();
        rest = &rest[nl + 1..];
        let parts: Vec<&str> = line.split(' ').collect();
        if parts.len() == 3 {
            let size: usize = parts[2].parse().unwrap_or(0);
            if rest.len() < size + 1 {
                res.push(None);
                rest = &[];
                continue;
            }
            res.push(Some((parts[1].to_string(), rest[..size].to_vec())));
            rest = &rest[size + 1..];
        } else {
            res.push(None);
        }
    }
    res
}

fn main() {
    let args = Args::parse();
    let scratch = Scratch::new("c11");
    let repo = scratch.join("repo");
    std::fs::create_dir_all(&repo).expect("mkdir");
    git_ok(&repo, &["init", "-q", "."], None);
    let objects = repo.join(".git").join("objects");
    let store = gix_odb::loose::Store::at(objects.clone(), gix_hash::Kind::Sha1);
    let mut cx = Cx { rep: Report::new("C11", &args), scratch, repo, objects, store, written: Vec::new(), fsck_ok: true };

    if let Some(ops) = replay_ops(&args) {
        for op in ops {
            if op.starts_with("truncated ") || op.starts_with("truncate ") {
                continue;
            }
            do_op(&mut cx, &op);
        }
        let mut r = Rng::new(args.seed);
        let w: Vec<_> = cx.written.clone();
        for (id, kind, data, op) in &w {
            truncation_oracle(&mut cx, &mut r, id, "gitoxide", *kind, data.len(), op);
        }
        cx.rep.finish();
        return;
    }
    let mut r = Rng::new(args.seed);

    // ---- corpus: every boundary size through write_buf and write_stream ------------------------------------
    for (i, n) in SIZES.iter().enumerate() {
        if *n > 70_000 && !args.thorough {
            continue;
        }
        do_op(&mut cx, &format!("write blob g{}:{}:{} -", i % 3, i, n));
        do_op(&mut cx, &format!("write blob g{}:{}:{} 1,8192,63", (i + 1) % 3, i + 100, n));
    }
    do_op(&mut cx, "write blob - -");
    do_op(&mut cx, "write tree - -");
    for op in ["decode 626c6f62203000", "decode 626c6f62202b3500", "decode 626c6f62202d3000", "decode 626c6f62202d3100",
        "decode 626c6f6220313834343637343430373337303935353136313500", "decode 626c6f6220313834343637343430373337303935353136313600",
        "decode 626c6f623500", "decode 626c6f6220", "decode 626c6f622000", "decode 626c6f6220350035", "decode 74616720303700", "decode 636f6d6d6974203132330078",
        "decode 626c6f6220203500", "decode 626c6f6220350a00", "decode -"] {
        do_op(&mut cx, op);
    }

    // ---- random writes (correspondence + read-back oracle) --------------------------------------------------
    let n_small = args.budget(220, 2200);
    let n_big = args.budget(3, 16);
    let big_max = if args.thorough { (1 << 20) + 1 } else { 300_000 };
    for i in 0..n_small + n_big {
        let max = if i < n_small { 70_000 } else { big_max };
        let op = match r.below(10) {
            0..=5 => format!("write blob {} {}", gen_data_tok(&mut r, max), show_nats(&gen_sizes(&mut r))),
            6..=8 => {
                let (kind, data) = gen_typed(&cx, &mut r);
                format!("wtyped {} {}", kind, hex(&data))
            }
            _ => {
                let n = if i >= n_small { big_max - r.usize(3) } else { gen_len(&mut r, max) };
                format!("write blob g{}:{}:{} {}", r.below(3), r.below(1_000_000), n, show_nats(&gen_sizes(&mut r)))
            }
        };
        do_op(&mut cx, &op);
    }

    // ---- raw files: stored-block streams, complete, cut, damaged, lying ------------------------------------
    let n_find = args.budget(250, 2500);
    for _ in 0..n_find {
        let n = match r.below(8) {
            0 => *r.pick(&[0usize, 1, 27, 28, 36, 37, 55, 56, 57, 58, 63, 64, 65]),
            1 => 31_700 + r.usize(100),
            2 => 33_000 + r.usize(100),
            _ => r.usize(300),
        };
        let body = gen_bytes(r.below(3) as u8, r.u64(), n);
        let kind = parse_kind(*r.pick(&["blob", "tree", "commit", "tag"])).unwrap();
        let variant = r.below(13);
        let honest = variant > 5 && variant != 12;
        let mut raw = match variant {
            // sizes that overflow `size + header_size`, the buffer length, or `isize::MAX` (nothing in between: a
            // header of a few GiB would really be allocated)
            12 => format!("{} {}\0", kind, r.pick(&["9223372036854775807", "9223372036854775808", "18446744073709551600", "18446744073709551615", "18446744073709551616"])).into_bytes(),
            0 => format!("{} {}\0", kind, n + 1 + r.usize(5)).into_bytes(), // header promises more
            1 if n > 0 => format!("{} {}\0", kind, r.usize(n)).into_bytes(), // header promises less
            2 => format!("{} +{}\0", kind, n).into_bytes(),
            3 => format!("{} 0{}\0", kind, n).into_bytes(),
            4 => format!("blub {}\0", n).into_bytes(),
            5 => format!("{} {}", kind, n).into_bytes(), // no NUL
            _ => gix_object::encode::loose_header(kind, n as u64).to_vec(),
        };
        raw.extend_from_slice(&body);
        let mut z = zlib_level(&raw, 0);
        let mut opname = "find";
        match r.below(10) {
            0..=2 => {
                let cut = if r.chance(2, 3) { 1 + r.usize(9.min(z.len())) } else { r.usize(z.len() + 1) };
                z.truncate(z.len() - cut.min(z.len()));
            }
            // (only with an honest header: a lying one may panic, and whether the damage or the lie is noticed first
            // depends on how far ahead of its output the inflater works)
            3 if honest => {
                let l = z.len();
                z[l - 1 - r.usize(4)] ^= 1 << r.below(8);
                opname = "findc";
            }
            4 => {
                let k = 1 + r.usize(5);
                z.extend_from_slice(&r.bytes(k));
            }
            _ => {}
        }
        do_op(&mut cx, &format!("{opname} {}", hex(&z)));
    }
    {
        // a VALID stream that spends its first 200 bytes on empty stored blocks: try_find works, try_header cannot
        let mut z = vec![0x78u8, 0x01];
        for _ in 0..40 {
            z.extend_from_slice(&[0, 0, 0, 0xff, 0xff]);
        }
        z.extend_from_slice(&[1, 10, 0, 245, 255, 98, 108, 111, 98, 32, 51, 0, 97, 98, 99, 17, 217, 3, 25]);
        do_op(&mut cx, &format!("find {}", hex(&z)));
        cx.rep.outside_domain("a valid zlib stream whose first 192 bytes hold no content (40 empty stored blocks): try_find reads it, try_header fails (see Props.C11.try_header_needs_early_output)");
        // headers that advertise less / more than is there, around the 64-byte header buffer
        for (claimed, actual) in [(3usize, 100usize), (0, 58), (56, 57), (57, 58), (10, 64), (100, 3), (58, 57), (1000, 100)] {
            let mut raw = format!("blob {claimed}\0").into_bytes();
            raw.extend(std::iter::repeat(b'x').take(actual));
            do_op(&mut cx, &format!("find {}", hex(&zlib_level(&raw, 0))));
        }
    }
    for op in ["find -", "find 78", "find 7801", "find 0000", "find 780101"] {
        do_op(&mut cx, op);
    }
    for op in ["write", "write blob zz -", "write blub 00 -", "find zz", "wtyped blob", "decode zz", "nonsense"] {
        do_op(&mut cx, op);
    }

    // ---- oracle: git reads what gitoxide wrote --------------------------------------------------------------
    {
        let ids: Vec<String> = cx.written.iter().map(|w| w.0.to_string()).collect();
        let got = git_batch(&cx.repo, &ids);
        for ((id, kind, data, op), g) in cx.written.clone().iter().zip(got) {
            cx.rep.git_checked(1);
            match g {
                Some((t, content)) if t == kind.to_string() && &content == data => {}
                other => cx.rep.oracle_failure(
                    &format!("git-reads {op}"),
                    &format!("git cat-file --batch on {id} (written by gitoxide as {kind}, {} bytes) gives {:?}", data.len(), other.map(|(t, c)| (t, c.len()))),
                    op,
                ),
            }
        }
        // ids are the ones git computes
        for kind in [gix_object::Kind::Blob, gix_object::Kind::Tree, gix_object::Kind::Commit, gix_object::Kind::Tag] {
            let mut paths = String::new();
            let mut expect = Vec::new();
            for (i, (id, k, data, op)) in cx.written.iter().enumerate() {
                if *k != kind {
                    continue;
                }
                let p = cx.scratch.join(format!("h{i}"));
                std::fs::write(&p, data).expect("write");
                paths.push_str(&format!("{}\n", p.display()));
                expect.push((id.to_string(), op.clone()));
            }
            if expect.is_empty() {
                continue;
            }
            let out = git_ok(&cx.scratch.path, &["hash-object", "--literally", "-t", &kind.to_string(), "--stdin-paths"], Some(paths.as_bytes()));
            for ((id, op), g) in expect.iter().zip(out.lines()) {
                cx.rep.git_checked(1);
                if id != g {
                    cx.rep.oracle_failure(&format!("git-id {op}"), &format!("gitoxide stored the object as {id}, git hash-object says {g}"), op);
                }
            }
        }
        if cx.fsck_ok {
            let o = git(&cx.repo, &["fsck", "--full", "--no-dangling", "--no-progress"], None);
            cx.rep.git_checked(1);
            let text = format!("{}{}", String::from_utf8_lossy(&o.stdout), String::from_utf8_lossy(&o.stderr));
            let bad: Vec<&str> = text.lines().filter(|l| !l.starts_with("notice:") && !l.trim().is_empty()).collect();
            if !o.ok || !bad.is_empty() {
                cx.rep.oracle_failure("git-fsck", &format!("git fsck on the objects gitoxide wrote: exit {} {:?}", o.code, &bad[..bad.len().min(4)]), "");
            } else {
                cx.rep.note(&format!("git fsck --full clean over {} objects written by gitoxide", cx.written.len()));
            }
        }
    }

    // ---- oracle: gitoxide reads what git wrote (compression levels 0, 1, 6, 9) ------------------------------
    let mut git_written: Vec<(gix_hash::ObjectId, usize, String)> = Vec::new();
    {
        let n_git = args.budget(36, 200) as usize;
        for i in 0..n_git {
            let n = if i < SIZES.len() { SIZES[i] } else { gen_len(&mut r, 150_000) };
            let data = gen_bytes(r.below(3) as u8, r.u64(), n);
            let level = *r.pick(&["0", "1", "6", "9"]);
            let p = cx.scratch.join("gitin");
            std::fs::write(&p, &data).expect("write");
            let idhex = git_ok(&cx.repo, &["-c", &format!("core.looseCompression={level}"), "hash-object", "-w", p.to_str().unwrap()], None);
            let id = gix_hash::ObjectId::from_hex(idhex.trim().as_bytes()).expect("git printed an id");
            let key = format!("git-written blob len={n} level={level}");
            cx.rep.oracle_only(&key, true);
            cx.rep.oracle_checked();
            cx.rep.git_checked(1);
            cx.rep.bucket(&format!("git-written:level{level}"));
            let (obs, found) = find_obs(&cx.store, &id);
            match found {
                Some((k, d)) if k == gix_object::Kind::Blob && d == data => {}
                _ => cx.rep.oracle_failure(&key, &format!("object {id} written by git (level {level}, {n} bytes): try_find = {obs}"), ""),
            }
            let h = header_obs(&cx.store, &id);
            if h != format!("ok:{n}:blob") {
                cx.rep.oracle_failure(&format!("header {key}"), &format!("object {id} written by git: try_header = {h}"), "");
            }
            if level == "0" && n <= 40_000 && (i % 3 == 0) {
                // stored-block streams made by real zlib: the Lean model can read these files too
                // (git does not rewrite an object that exists already: only take files that really are stored blocks)
                if let Some(z) = std::fs::read(cx.store.object_path(&id)).ok().filter(|z| z.len() > 3 && z[0] == 0x78 && z[2] & 6 == 0) {
                    do_op(&mut cx, &format!("find {}", hex(&z)));
                    if z.len() > 6 {
                        do_op(&mut cx, &format!("find {}", hex(&z[..z.len() - 1 - r.usize(5)])));
                    }
                }
            }
            git_written.push((id, n, level.to_string()));
        }
    }

    // ---- oracle: truncated files are errors ---------------------------------------------------------------------
    {
        let w: Vec<_> = cx.written.clone();
        let limit = args.budget(36, 400) as usize;
        let step = (w.len() / limit).max(1);
        for (id, kind, data, op) in w.iter().step_by(step) {
            truncation_oracle(&mut cx, &mut r, id, "gitoxide", *kind, data.len(), op);
        }
        let step = (git_written.len() / (limit / 2).max(1)).max(1);
        for (id, n, level) in git_written.iter().step_by(step) {
            truncation_oracle(&mut cx, &mut r, id, &format!("git-level{level}"), gix_object::Kind::Blob, *n, "");
        }
    }
    cx.rep.finish();
}
