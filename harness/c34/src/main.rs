//! C34 — no URL can inject arguments into spawned transport programs.
//!
//! Operations sent to the Lean driver (`Model/C34.lean`):
//!   ssh <kind> <version> <is_ssh> <user|~> <host|~> <port|~> <path>   ssh::connect + handshake: the argv a
//!                                     recorder program standing in for ssh REALLY received, or the error
//!   local <path>                      file::connect + handshake: the argv of the spawned `git-upload-pack`
//!                                     (a recorder first in PATH), or the error
//!   single <bytes>                    gix_quote::single
//!   forshell <path>                   gix_url::expand_path::for_shell
//!   pathsafe <path>                   Url::path_argument_safe
//! Oracles on the real code: (1) in every recorded argv only the program's own option tokens start with
//! `-`; dangerous users/hosts never reach a spawn; (2) `/bin/sh -c 'printf "%s\0" <quoted>'` prints exactly
//! one NUL-terminated word equal to the quoted bytes, also for the full remote command line as ssh would
//! hand it to the remote shell; (3) for_shell only drops the `/` in front of `~`.
use bstr::ByteSlice;
use gix_transport::client::ssh::ProgramKind;
use gix_transport::client::Transport;
use gix_transport::{Protocol, Service};
use gix_url::testing::TestUrlExtension;
use hcommon::*;
use std::os::unix::ffi::{OsStrExt, OsStringExt};
use std::path::PathBuf;

struct World {
    scratch: Scratch,
    rec: PathBuf,
    out: PathBuf,
}

impl World {
    fn new() -> World {
        let scratch = Scratch::new("c34");
        let out = scratch.join("argv.out");
        let script = format!(
            "#!/bin/sh\n: > '{o}.tmp'\nfor a in \"$@\"; do printf '%s\\0' \"$a\" >> '{o}.tmp'; done\nmv '{o}.tmp' '{o}'\nexit 1\n",
            o = out.display()
        );
        let rec = scratch.join("rec");
        let bin = scratch.join("bin");
        std::fs::create_dir_all(&bin).unwrap();
        for p in [rec.clone(), bin.join("git-upload-pack")] {
            std::fs::write(&p, &script).unwrap();
            use std::os::unix::fs::PermissionsExt;
            std::fs::set_permissions(&p, std::fs::Permissions::from_mode(0o755)).unwrap();
        }
        // the local transport spawns `git-upload-pack` by name: our recorder comes first in PATH
        let path = std::env::var("PATH").unwrap_or_else(|_| "/usr/bin:/bin".into());
        std::env::set_var("PATH", format!("{}:{}", bin.display(), path));
        World { scratch, rec, out }
    }

    fn take_argv(&self) -> Option<Vec<Vec<u8>>> {
        let data = std::fs::read(&self.out).ok()?;
        let _ = std::fs::remove_file(&self.out);
        let mut v: Vec<Vec<u8>> = data.split(|b| *b == 0).map(|s| s.to_vec()).collect();
        v.pop(); // the piece after the last NUL
        Some(v)
    }
}

#[derive(Clone, Debug)]
struct Case {
    kind: ProgramKind,
    version: Protocol,
    is_ssh: bool,
    user: Option<String>,
    host: Option<String>,
    port: Option<u16>,
    path: Vec<u8>,
    /// run the recorder through `/bin/sh -c '<rec> XARG "$@"' -- …` instead of spawning it directly
    via_shell: bool,
    disallow_shell: bool,
}

fn kind_str(k: ProgramKind) -> &'static str {
    match k {
        ProgramKind::Ssh => "ssh",
        ProgramKind::Plink => "plink",
        ProgramKind::Putty => "putty",
        ProgramKind::TortoisePlink => "tortoiseplink",
        ProgramKind::Simple => "simple",
    }
}

fn opt_hex(s: &Option<String>) -> String {
    match s {
        None => "~".into(),
        Some(s) => hex(s.as_bytes()),
    }
}

fn ssh_op(c: &Case) -> String {
    format!(
        "ssh {} {} {} {} {} {} {}",
        kind_str(c.kind),
        c.version as usize,
        c.is_ssh as u8,
        opt_hex(&c.user),
        opt_hex(&c.host),
        c.port.map(|p| p.to_string()).unwrap_or_else(|| "~".into()),
        hex(&c.path)
    )
}

fn show(b: &[u8]) -> String {
    b.iter()
        .map(|c| {
            if (0x21..0x7f).contains(c) && !b"\\[]".contains(c) {
                (*c as char).to_string()
            } else {
                format!("\\x{c:02x}")
            }
        })
        .collect()
}

fn fmt_argv(argv: &[Vec<u8>]) -> String {
    let mut s = format!("ok {}", argv.len());
    for a in argv {
        s.push(' ');
        s.push_str(&hex(a));
    }
    s
}

enum SshResult {
    Argv(Vec<Vec<u8>>),
    Err(&'static str),
    Panic(String),
    /// the recorder could not be spawned at all (an argument contains NUL, …)
    NoSpawn(String),
}

fn run_ssh(w: &World, c: &Case) -> SshResult {
    let _ = std::fs::remove_file(&w.out);
    let url = gix_url::Url::from_parts_unchecked(
        if c.is_ssh { gix_url::Scheme::Ssh } else { gix_url::Scheme::Git },
        c.user.clone(),
        None,
        c.host.clone(),
        c.port,
        c.path.clone().into(),
        false,
    );
    let command: std::ffi::OsString = if c.via_shell {
        let mut s = w.rec.clone().into_os_string();
        s.push(" XARG");
        s
    } else {
        w.rec.clone().into_os_string()
    };
    let opts = gix_transport::client::ssh::connect::Options {
        command: Some(command),
        disallow_shell: c.disallow_shell,
        kind: Some(c.kind),
    };
    let version = c.version;
    let r = catch(move || {
        let mut t = match gix_transport::client::ssh::connect(url, version, opts, false) {
            Ok(t) => t,
            Err(gix_transport::client::ssh::Error::UnsupportedScheme(_)) => return Err("err:UnsupportedScheme".to_string()),
            Err(gix_transport::client::ssh::Error::AmbiguousHostName { .. }) => return Err("err:AmbiguousHostName".to_string()),
        };
        let out = match t.handshake(Service::UploadPack, &[]) {
            Ok(_) => Err("unexpected-success".to_string()),
            Err(gix_transport::client::Error::SshInvocation(e)) => {
                use gix_transport::client::ssh::invocation::Error as E;
                Err(match e {
                    E::AmbiguousUserName { .. } => "err:AmbiguousUserName",
                    E::AmbiguousHostName { .. } => "err:AmbiguousHostName",
                    E::Unsupported { .. } => "err:Unsupported",
                }
                .to_string())
            }
            Err(gix_transport::client::Error::AmbiguousPath { .. }) => Err("err:AmbiguousPath".to_string()),
            Err(gix_transport::client::Error::InvokeProgram { source, .. }) => Err(format!("nospawn:{source}")),
            Err(_) => Ok(()), // spawned; the recorder exits without speaking the protocol
        };
        drop(t); // waits for the child
        out
    });
    match r {
        Err(msg) => SshResult::Panic(msg),
        Ok(Err(e)) if e.starts_with("nospawn:") => SshResult::NoSpawn(e),
        Ok(Err(e)) => SshResult::Err(match e.as_str() {
            "err:UnsupportedScheme" => "err:UnsupportedScheme",
            "err:AmbiguousHostName" => "err:AmbiguousHostName",
            "err:AmbiguousUserName" => "err:AmbiguousUserName",
            "err:Unsupported" => "err:Unsupported",
            "err:AmbiguousPath" => "err:AmbiguousPath",
            _ => "err:other",
        }),
        Ok(Ok(())) => match w.take_argv() {
            Some(mut argv) => {
                if c.via_shell {
                    if argv.first().map(|a| a.as_slice()) == Some(b"XARG") {
                        argv.remove(0);
                    } else {
                        return SshResult::NoSpawn("shell invocation lost the recorder's own argument".into());
                    }
                }
                SshResult::Argv(argv)
            }
            None => SshResult::NoSpawn("no argv recorded".into()),
        },
    }
}

/// the option tokens the program kind itself puts in front of the host
fn allowed_dash_tokens(c: &Case) -> Vec<Vec<u8>> {
    let mut v: Vec<Vec<u8>> = Vec::new();
    match c.kind {
        ProgramKind::Ssh => {
            if c.version != Protocol::V1 {
                v.push(b"-o".to_vec());
            }
            if let Some(p) = c.port {
                v.push(format!("-p{p}").into_bytes());
            }
        }
        ProgramKind::Plink | ProgramKind::Putty | ProgramKind::TortoisePlink => {
            if c.kind == ProgramKind::TortoisePlink {
                v.push(b"-batch".to_vec());
            }
            if c.port.is_some() {
                v.push(b"-P".to_vec());
            }
        }
        ProgramKind::Simple => {}
    }
    v
}

fn git_for_shell_rule(path: &[u8]) -> Vec<u8> {
    // git: `if (path[1] == '~') path++` for ssh and git:// URLs; gitoxide additionally makes sure a `/`
    // follows the `~user` part
    if path.starts_with(b"/~") {
        let mut r = path[1..].to_vec();
        if !r.contains(&b'/') {
            r.push(b'/');
        }
        r
    } else {
        path.to_vec()
    }
}

fn do_ssh(rep: &mut Report, w: &World, c: &Case) {
    let op = ssh_op(c);
    let res = run_ssh(w, c);
    let key = format!(
        "kind={} user={} host={} port={} path={}",
        kind_str(c.kind),
        c.user.as_ref().map(|s| show(s.as_bytes())).unwrap_or_else(|| "~".into()),
        c.host.as_ref().map(|s| show(s.as_bytes())).unwrap_or_else(|| "~".into()),
        c.port.map(|p| p.to_string()).unwrap_or_else(|| "~".into()),
        show(&c.path)
    );
    let obs = match &res {
        SshResult::Argv(a) => fmt_argv(a),
        SshResult::Err(e) => e.to_string(),
        SshResult::Panic(_) => "panic".to_string(),
        SshResult::NoSpawn(why) => {
            rep.bucket("ssh:nospawn");
            rep.outside_domain(&format!("recorder not spawned ({why}) for {key}"));
            return;
        }
    };
    rep.case(&op, &obs, true);
    rep.oracle_checked();
    rep.bucket(&format!(
        "ssh:{}:{}{}",
        kind_str(c.kind),
        obs.split(' ').next().unwrap_or(""),
        if c.via_shell { ":via-sh" } else { "" }
    ));
    let user_dash = c.user.as_ref().map_or(false, |u| u.starts_with('-'));
    let host_dash = c.host.as_ref().map_or(false, |h| h.starts_with('-'));
    match &res {
        SshResult::Panic(msg) => rep.oracle_failure(&format!("ssh-panic {key}"), msg, &op),
        SshResult::Argv(argv) => {
            // (1) nothing URL-derived may look like an option
            let allowed = allowed_dash_tokens(c);
            for a in argv {
                if a.first() == Some(&b'-') && !allowed.contains(a) {
                    rep.oracle_failure(
                        &format!("option-injected {key}"),
                        &format!("the ssh program received the argument {:?} (argv {:?})", show(a), argv.iter().map(|x| show(x)).collect::<Vec<_>>()),
                        &op,
                    );
                }
            }
            if user_dash || (host_dash && c.user.is_none()) {
                rep.oracle_failure(&format!("dangerous-not-rejected {key}"), "a user/host starting with '-' reached a spawned program", &op);
            }
            // (2) shape: …, host, service, quoted path
            let n = argv.len();
            let expected_path = gix_url::expand_path::for_shell(c.path.clone().into());
            // (3) a repository path that looks like an option must be refused before anything is spawned
            let dash_path = expected_path.trim().first() == Some(&b'-');
            if dash_path {
                rep.oracle_failure(
                    &format!("dash-path-not-refused {key}"),
                    &format!("the ssh program was spawned although the repository path {:?} starts with '-'", show(&expected_path)),
                    &op,
                );
            }
            // (4) what the REMOTE shell makes of the command ssh sends (its arguments after the host, joined by
            // blanks): exactly the service and the path, and no word after the service starts with '-'
            let sampled = c.path.iter().fold(0u32, |h, b| h.wrapping_mul(31).wrapping_add(*b as u32)) % 4 == 0;
            if n >= 2 && (dash_path || sampled || c.path.contains(&b'-')) {
                let mut line = argv[n - 2].clone();
                line.push(b' ');
                line.extend_from_slice(&argv[n - 1]);
                let words = sh_words(w, &line);
                rep.oracle_checked();
                rep.bucket("ssh:remote-command-resplit");
                if let Some(opt) = words.iter().skip(1).find(|x| x.first() == Some(&b'-')) {
                    rep.oracle_failure(
                        &format!("remote-option-injected {key}"),
                        &format!("the remote shell splits {:?} into {:?}: git-upload-pack is handed the option {:?}", show(&line), words.iter().map(|x| show(x)).collect::<Vec<_>>(), show(opt)),
                        &op,
                    );
                }
                if words.len() != 2 || words[0] != b"git-upload-pack" || words[1] != expected_path.to_vec() {
                    rep.oracle_failure(
                        &format!("remote-command-words {key}"),
                        &format!("the remote shell splits {:?} into {:?}, expected [git-upload-pack, {:?}]", show(&line), words.iter().map(|x| show(x)).collect::<Vec<_>>(), show(&expected_path)),
                        &op,
                    );
                }
            }
            if n < 3 || argv[n - 2] != b"git-upload-pack" || argv[n - 1] != gix_quote::single(expected_path.as_bstr()).to_vec() {
                rep.oracle_failure(&format!("argv-shape {key}"), &format!("unexpected argv tail {:?}", argv.iter().map(|x| show(x)).collect::<Vec<_>>()), &op);
            }
        }
        SshResult::Err(_) => {}
        SshResult::NoSpawn(_) => {}
    }
}

fn do_local(rep: &mut Report, w: &World, path: &[u8]) {
    let op = format!("local {}", hex(path));
    let _ = std::fs::remove_file(&w.out);
    let p = path.to_vec();
    let r = catch(move || {
        let mut t = gix_transport::client::file::connect(p, Protocol::V2, false).expect("infallible");
        let out = match t.handshake(Service::UploadPack, &[]) {
            Ok(_) => Err("unexpected-success".to_string()),
            Err(gix_transport::client::Error::AmbiguousPath { .. }) => Err("err:AmbiguousPath".to_string()),
            Err(gix_transport::client::Error::InvokeProgram { source, .. }) => Err(format!("nospawn:{source}")),
            Err(_) => Ok(()),
        };
        drop(t);
        out
    });
    let key = format!("local path={}", show(path));
    let obs = match r {
        Err(msg) => {
            // `file::connect` builds a file URL from the path and `expect`s it to be valid: the empty path
            // panics there. C34 is about what reaches spawned programs, so this is reported, not judged.
            rep.bucket("local:connect-panic");
            rep.outside_domain(&format!("file::connect panics before anything is spawned ({msg}) for {key}"));
            return;
        }
        Ok(Err(e)) if e.starts_with("nospawn:") => {
            rep.bucket("local:nospawn");
            rep.outside_domain(&format!("git-upload-pack recorder not spawned ({e}) for {key}"));
            return;
        }
        Ok(Err(e)) => e,
        Ok(Ok(())) => match w.take_argv() {
            None => {
                rep.outside_domain(&format!("no argv recorded for {key}"));
                return;
            }
            Some(argv) => {
                for a in &argv {
                    if a.first() == Some(&b'-') {
                        rep.oracle_failure(&format!("option-injected {key}"), &format!("git-upload-pack received {:?}", show(a)), &op);
                    }
                }
                if argv.len() != 1 || argv[0] != path {
                    rep.oracle_failure(&format!("argv-shape {key}"), &format!("git-upload-pack received {:?}", argv.iter().map(|x| show(x)).collect::<Vec<_>>()), &op);
                }
                fmt_argv(&argv)
            }
        },
    };
    rep.bucket(&format!("local:{}", obs.split(' ').next().unwrap_or("")));
    rep.case(&op, &obs, true);
    rep.oracle_checked();
}

fn do_single(rep: &mut Report, v: &[u8]) -> Vec<u8> {
    let q = gix_quote::single(v.as_bstr()).to_vec();
    rep.case(&format!("single {}", hex(v)), &hex(&q), true);
    rep.bucket("single");
    q
}

fn do_forshell(rep: &mut Report, p: &[u8]) {
    let op = format!("forshell {}", hex(p));
    let r = gix_url::expand_path::for_shell(p.to_vec().into()).to_vec();
    rep.case(&op, &hex(&r), true);
    rep.bucket(if r == p { "forshell:unchanged" } else { "forshell:tilde" });
    rep.oracle_checked();
    let want = git_for_shell_rule(p);
    if r != want {
        rep.oracle_failure(
            &format!("for-shell-changes-bytes path={}", show(p)),
            &format!("for_shell gives {:?}, dropping the slash in front of `~` gives {:?}", show(&r), show(&want)),
            &op,
        );
    }
}

fn do_pathsafe(rep: &mut Report, p: &[u8]) {
    let url = gix_url::Url::from_parts_unchecked(gix_url::Scheme::Ssh, None, None, Some("h".into()), None, p.to_vec().into(), false);
    let r = url.path_argument_safe().map(|b| b.to_vec());
    let obs = match &r {
        None => "none".to_string(),
        Some(b) => format!("some {}", hex(b)),
    };
    rep.case(&format!("pathsafe {}", hex(p)), &obs, true);
    rep.bucket("pathsafe");
    rep.oracle_checked();
    if let Some(b) = &r {
        if b.get(1) == Some(&b'-') {
            rep.oracle_failure(&format!("pathsafe path={}", show(p)), "path_argument_safe returned a path whose part after the slash starts with '-'", "");
        }
    }
}

/// the words `/bin/sh` splits `line` into (`printf '%s\0' <line>`)
fn sh_words(w: &World, line: &[u8]) -> Vec<Vec<u8>> {
    let mut script = b"printf '%s\\0' ".to_vec();
    script.extend_from_slice(line);
    let out = std::process::Command::new("/bin/sh")
        .arg("-c")
        .arg(std::ffi::OsString::from_vec(script))
        .current_dir(&w.scratch.path)
        .env_clear()
        .env("PATH", "/usr/bin:/bin")
        .output()
        .expect("run /bin/sh");
    let mut v: Vec<Vec<u8>> = out.stdout.split(|b| *b == 0).map(|s| s.to_vec()).collect();
    v.pop();
    v
}

/// `/bin/sh` evaluates `printf '%s\0' <word>` for each quoted word; every word must come back as exactly
/// one argument with the original bytes.
fn sh_check(rep: &mut Report, w: &World, batch: &[(Vec<u8>, Vec<u8>, String)]) {
    // (original bytes, shell text that must evaluate to exactly [original], what it is)
    let run = |items: &[(Vec<u8>, Vec<u8>, String)]| -> (Vec<u8>, Vec<u8>) {
        let mut script = Vec::new();
        let mut expect = Vec::new();
        for (orig, text, _) in items {
            script.extend_from_slice(b"printf '%s\\0' ");
            script.extend_from_slice(text);
            script.extend_from_slice(b"\nprintf '\\001'\n");
            expect.extend_from_slice(orig);
            expect.push(0);
            expect.push(1);
        }
        let out = std::process::Command::new("/bin/sh")
            .arg("-c")
            .arg(std::ffi::OsString::from_vec(script))
            .current_dir(&w.scratch.path)
            .env_clear()
            .env("PATH", "/usr/bin:/bin")
            .output()
            .expect("run /bin/sh");
        (out.stdout, expect)
    };
    let (got, expect) = run(batch);
    rep.git_checked(0);
    if got == expect {
        for _ in batch {
            rep.oracle_checked();
        }
        return;
    }
    for item in batch {
        let (got, expect) = run(std::slice::from_ref(item));
        rep.oracle_checked();
        if got != expect {
            rep.oracle_failure(
                &format!("sh-word-split {} bytes={}", item.2, show(&item.0)),
                &format!("/bin/sh evaluates {:?} to {:?}, expected the single word {:?}", show(&item.1), show(&got), show(&item.0)),
                &format!("single {}", hex(&item.0)),
            );
        }
    }
}

const HOSTILE: &[&str] = &[
    "-oProxyCommand=touch${IFS}pwned", "-", "--", "-G", "-F/dev/null", "host.xy", "example.com", "", "a", "ü-", "@", "a b",
    "$(x)", "`x`", "'", "!", "-p", "h;rm", "[::1]", "a@b", "-l root", "\u{2003}-x",
];

fn gen_component(r: &mut Rng) -> Option<String> {
    match r.below(10) {
        0 => None,
        1..=4 => Some(r.pick(HOSTILE).to_string()),
        5 => {
            let mut s = String::from("-");
            s.push_str(&String::from_utf8_lossy(&r.over(b"oPx=-a ", 5)));
            Some(s)
        }
        _ => Some(String::from_utf8_lossy(&r.over(b"abz.-_@ 1", 6)).to_string()),
    }
}

fn gen_path(r: &mut Rng) -> Vec<u8> {
    if r.chance(1, 10) {
        // scp-like paths that look like options (`host:--upload-pack=evil`), also behind `/~` and white space
        let mut p = r.pick(&["", "", "", "/~/", "/~u/", " ", "\t", "\u{a0}"]).as_bytes().to_vec();
        p.extend(r.pick(&["-", "--", "-x", "--upload-pack=evil", "-oProxyCommand=x", "--exec=sh", "-u", "--help", "---", "-'q'", "- x", "--a b"]).as_bytes());
        return p;
    }
    let mut p: Vec<u8> = match r.below(12) {
        0 => b"/~/".to_vec(),
        1 => b"/~user/".to_vec(),
        2 => b"/~".to_vec(),
        3 => b"/~-user/".to_vec(),
        4 => b"-".to_vec(),
        5 => r.pick(&[" ", "\t", "\n", "\u{a0}", "\u{2003}", "\u{3000}", "\u{85}", "\u{1680}", "\r\n ", "\u{200b}", "\u{feff}"]).as_bytes().to_vec(),
        6 => b"/".to_vec(),
        7 => vec![],
        8 => b"/~/ ".to_vec(),
        _ => b"/srv/".to_vec(),
    };
    let tail: Vec<u8> = match r.below(8) {
        0 => b"-oProxyCommand=x".to_vec(),
        1 => r.over(b"'!\\ \n$`\"*?;&|<>()#~-a/", 8),
        2 => {
            let n = r.usize(6);
            r.bytes(n).into_iter().filter(|b| *b != 0).collect()
        }
        3 => b"--upload-pack=evil".to_vec(),
        4 => vec![],
        5 => r.over(b"ab/", 6),
        _ => r.over(b"repo.git-'!x y", 8),
    };
    p.extend(tail);
    p
}

fn gen_case(r: &mut Rng) -> Case {
    let kind = *r.pick(&[ProgramKind::Ssh, ProgramKind::Plink, ProgramKind::Putty, ProgramKind::TortoisePlink, ProgramKind::Simple]);
    let via_shell = r.chance(1, 3);
    Case {
        kind,
        version: *r.pick(&[Protocol::V0, Protocol::V1, Protocol::V2]),
        is_ssh: !r.chance(1, 25),
        user: gen_component(r),
        host: if r.chance(1, 20) { None } else { gen_component(r).or(Some("host".into())) },
        port: if r.chance(1, 3) { Some(*r.pick(&[0u16, 1, 22, 2222, 65535, 9])) } else { None },
        path: gen_path(r),
        via_shell,
        disallow_shell: !via_shell && r.chance(1, 2),
    }
}

/// would this case make the real code spawn the recorder? (cheap cases do not)
fn spawns(c: &Case) -> bool {
    let dash = |s: &Option<String>| s.as_ref().map_or(false, |s| s.starts_with('-'));
    c.is_ssh && c.host.is_some() && !dash(&c.user) && !(dash(&c.host) && c.user.is_none()) && !(c.kind == ProgramKind::Simple && c.port.is_some())
}

fn main() {
    let args = Args::parse();
    let mut rep = Report::new("C34", &args);
    let mut r = Rng::new(args.seed);
    let w = World::new();

    if let Some(ops) = replay_ops(&args) {
        for op in ops {
            let a: Vec<&str> = op.split(' ').collect();
            let opt = |s: &str| if s == "~" { None } else { Some(String::from_utf8(unhex(s).unwrap()).unwrap()) };
            match a[0] {
                "ssh" if a.len() == 8 => {
                    let c = Case {
                        kind: match a[1] {
                            "ssh" => ProgramKind::Ssh,
                            "plink" => ProgramKind::Plink,
                            "putty" => ProgramKind::Putty,
                            "tortoiseplink" => ProgramKind::TortoisePlink,
                            _ => ProgramKind::Simple,
                        },
                        version: match a[2] {
                            "0" => Protocol::V0,
                            "1" => Protocol::V1,
                            _ => Protocol::V2,
                        },
                        is_ssh: a[3] == "1",
                        user: opt(a[4]),
                        host: opt(a[5]),
                        port: a[6].parse().ok(),
                        path: unhex(a[7]).unwrap(),
                        via_shell: false,
                        disallow_shell: false,
                    };
                    do_ssh(&mut rep, &w, &c);
                }
                "local" => do_local(&mut rep, &w, &unhex(a[1]).unwrap()),
                "single" => {
                    let v = unhex(a[1]).unwrap();
                    let q = do_single(&mut rep, &v);
                    if !v.contains(&0) {
                        sh_check(&mut rep, &w, &[(v, q, "single".into())]);
                    }
                }
                "forshell" => do_forshell(&mut rep, &unhex(a[1]).unwrap()),
                "pathsafe" => do_pathsafe(&mut rep, &unhex(a[1]).unwrap()),
                _ => rep.note(&format!("replay: unknown op {}", a[0])),
            }
        }
        rep.finish();
        return;
    }

    // ---- corpus ------------------------------------------------------------------------------------
    let base = Case {
        kind: ProgramKind::Ssh,
        version: Protocol::V2,
        is_ssh: true,
        user: None,
        host: Some("host.xy".into()),
        port: None,
        path: b"/repo".to_vec(),
        via_shell: false,
        disallow_shell: false,
    };
    let mut corpus = vec![base.clone()];
    for kind in [ProgramKind::Ssh, ProgramKind::Plink, ProgramKind::Putty, ProgramKind::TortoisePlink, ProgramKind::Simple] {
        for (user, host) in [
            (None, "-oProxyCommand=open$IFS-aCalculator"),
            (Some("-oProxyCommand=x"), "host"),
            (Some("user"), "-oProxyCommand=x"),
            (Some(""), "-oProxyCommand=x"),
            (Some("user"), "host"),
            (None, ""),
        ] {
            for port in [None, Some(2222u16)] {
                corpus.push(Case {
                    kind,
                    user: user.map(|s| s.to_string()),
                    host: Some(host.to_string()),
                    port,
                    ..base.clone()
                });
            }
        }
    }
    for path in ["--upload-pack=evil", "-", "--", "-u", "/~/--upload-pack=evil", "/~u/-x", "-oProxyCommand=x", " -x", "\u{2003}-x", "/~/-x", "/~user/repo", "/~", "/-x", "", "/~-u/x", "/it's/a!b", "/a\nb", "/$(touch x)"] {
        corpus.push(Case { path: path.as_bytes().to_vec(), ..base.clone() });
        corpus.push(Case { path: path.as_bytes().to_vec(), via_shell: true, ..base.clone() });
    }
    corpus.push(Case { host: None, ..base.clone() });
    corpus.push(Case { is_ssh: false, ..base.clone() });
    for c in &corpus {
        do_ssh(&mut rep, &w, c);
    }
    for p in ["", "-", "-x", " -x", "\t-x", "\u{a0}-x", "\u{2003}-x", "\u{3000}-x", "\u{200b}-x", "/srv/repo", "/-x", "repo'!", "\u{85}-", "\u{1680}-", "\u{2028}-", "\u{205f}-"] {
        do_local(&mut rep, &w, p.as_bytes());
        do_forshell(&mut rep, p.as_bytes());
    }
    for p in ["/~", "/~/", "/~/x", "/~u", "/~u/", "/~u/x/y", "/~u//x", "/x/~u", "~u/x", "/~\u{fc}/x", "//~u/x"] {
        do_forshell(&mut rep, p.as_bytes());
        do_pathsafe(&mut rep, p.as_bytes());
    }
    do_forshell(&mut rep, b"/~u/\xff\xfe/x");
    do_forshell(&mut rep, b"/~\xff/x");
    let mut batch: Vec<(Vec<u8>, Vec<u8>, String)> = Vec::new();
    for v in ["", "'", "!", "''", "'!'", "a b", "a\nb", "$HOME", "`id`", "\\", "\\'", "a'b!c", "-x", "*", "~", "#", ";", "\"", "a\\\nb", "'\\''"] {
        let q = do_single(&mut rep, v.as_bytes());
        batch.push((v.as_bytes().to_vec(), q, "single".into()));
    }
    sh_check(&mut rep, &w, &batch);

    // ---- random ------------------------------------------------------------------------------------
    let n = args.budget(5_000, 100_000);
    let mut spawn_budget = args.budget(400, 3_000);
    let mut sh_budget = args.budget(1_000, 15_000);
    let mut batch: Vec<(Vec<u8>, Vec<u8>, String)> = Vec::new();
    for _ in 0..n {
        match r.below(10) {
            0..=3 => {
                let mut c = gen_case(&mut r);
                if spawns(&c) {
                    if spawn_budget == 0 {
                        // keep the case cheap: turn it into one that is refused before anything is spawned
                        c.user = Some(format!("-{}", c.user.clone().unwrap_or_default()));
                    } else {
                        spawn_budget -= 1;
                        // the full remote command line as the remote shell will see it
                        if sh_budget > 0 && !c.path.contains(&0) {
                            let p = gix_url::expand_path::for_shell(c.path.clone().into()).to_vec();
                            if p.trim().first() != Some(&b'-') {
                                sh_budget -= 1;
                                batch.push((p.clone(), gix_quote::single(p.as_bstr()).to_vec(), "remote-path".into()));
                            }
                        }
                    }
                }
                do_ssh(&mut rep, &w, &c);
            }
            4 => {
                let p = gen_path(&mut r);
                if p.contains(&0) || (spawn_budget == 0 && p.trim().first() != Some(&b'-')) {
                    do_forshell(&mut rep, &p);
                } else {
                    spawn_budget = spawn_budget.saturating_sub(1);
                    do_local(&mut rep, &w, &p);
                }
            }
            5 | 6 => {
                let v = match r.below(4) {
                    0 => {
                        let n = r.usize(12);
                        r.bytes(n)
                    }
                    1 => r.over(b"'!", 6),
                    _ => r.over(b"'!\\ \n\t$`\"*?;&|<>()#~-ab", 10),
                };
                let q = do_single(&mut rep, &v);
                if sh_budget > 0 && !v.contains(&0) {
                    sh_budget -= 1;
                    batch.push((v, q, "single".into()));
                }
            }
            7 | 8 => {
                let p = gen_path(&mut r);
                do_forshell(&mut rep, &p);
            }
            _ => {
                let p = gen_path(&mut r);
                do_pathsafe(&mut rep, &p);
            }
        }
        if batch.len() >= 25 {
            sh_check(&mut rep, &w, &batch);
            batch.clear();
        }
    }
    sh_check(&mut rep, &w, &batch);
    let _ = OsStrExt::as_bytes(std::ffi::OsStr::new(""));
    rep.finish();
}
