//! Random commit DAGs, materialised in a scratch repository by the real git: `git commit-tree`
//! with explicit dates (one process per commit) or one `git fast-import` stream for many DAGs.
//! Shared by the C46 (merge-base) and C47 (commit walks) harnesses.
#![allow(dead_code)]
use hcommon::*;
use std::collections::HashMap;
use std::path::{Path, PathBuf};

/// Commits are numbered in creation order: every parent index is smaller than the child's.
#[derive(Clone, Debug)]
pub struct Dag {
    pub parents: Vec<Vec<usize>>,
    pub time: Vec<i64>,
}

pub const GEN_INF: u32 = 0xffff_ffff;

impl Dag {
    pub fn n(&self) -> usize {
        self.parents.len()
    }
    /// reflexive ancestor set of `x` as a bit vector
    pub fn anc(&self, x: usize) -> Vec<bool> {
        let mut seen = vec![false; self.n()];
        let mut stack = vec![x];
        seen[x] = true;
        while let Some(c) = stack.pop() {
            for &p in &self.parents[c] {
                if !seen[p] {
                    seen[p] = true;
                    stack.push(p);
                }
            }
        }
        seen
    }
    /// `time:gen:parents` tokens, one per commit
    pub fn tokens(&self, gens: &[u32]) -> String {
        let mut s = String::new();
        for i in 0..self.n() {
            if i > 0 {
                s.push(' ');
            }
            let ps = if self.parents[i].is_empty() {
                "-".to_string()
            } else {
                self.parents[i].iter().map(|p| p.to_string()).collect::<Vec<_>>().join(",")
            };
            s.push_str(&format!("{}:{}:{}", self.time[i], gens[i], ps));
        }
        s
    }
    /// inverse of `tokens` (generation numbers are returned separately)
    pub fn parse(tokens: &[&str]) -> Option<(Dag, Vec<u32>)> {
        let mut d = Dag { parents: vec![], time: vec![] };
        let mut gens = vec![];
        for (i, t) in tokens.iter().enumerate() {
            let mut it = t.split(':');
            let time: i64 = it.next()?.parse().ok()?;
            let gen: u32 = it.next()?.parse().ok()?;
            let ps = it.next()?;
            let parents: Vec<usize> = if ps == "-" {
                vec![]
            } else {
                ps.split(',').map(|p| p.parse().ok()).collect::<Option<Vec<_>>>()?
            };
            if parents.iter().any(|p| *p >= i) {
                return None;
            }
            d.parents.push(parents);
            d.time.push(time);
            gens.push(gen);
        }
        Some((d, gens))
    }
}

const BASE: i64 = 1_600_000_000;

/// Assign commit times according to a mode; returns the mode's name.
fn gen_times(r: &mut Rng, parents: &[Vec<usize>]) -> (Vec<i64>, &'static str) {
    let n = parents.len();
    match r.below(8) {
        0 => ((0..n).map(|i| BASE + 10 * i as i64).collect(), "t-monotone"),
        1 => (vec![BASE; n], "t-all-equal"),
        2 => ((0..n).map(|_| BASE + r.range(0, 2)).collect(), "t-colliding3"),
        3 => ((0..n).map(|i| BASE + (i as i64) / 3).collect(), "t-monotone-colliding"),
        4 => ((0..n).map(|i| BASE + 1000 - 10 * i as i64).collect(), "t-reversed"),
        5 => ((0..n).map(|_| r.range(0, 40)).collect(), "t-random-small"),
        6 => {
            // mostly monotone, a few wildly skewed commits (far future / far past)
            let mut t: Vec<i64> = (0..n).map(|i| BASE + 10 * i as i64).collect();
            for _ in 0..(1 + n / 6) {
                let i = r.usize(n);
                t[i] = if r.chance(1, 2) { BASE + 100_000 + r.range(0, 3) } else { r.range(0, 5) };
            }
            (t, "t-skewed")
        }
        _ => ((0..n).map(|_| BASE + r.range(0, (n as i64).max(1))).collect(), "t-random-colliding"),
    }
}

pub fn gen_dag(r: &mut Rng, max_n: usize) -> (Dag, String) {
    let shape = r.below(7);
    let mut parents: Vec<Vec<usize>> = Vec::new();
    let shape_name;
    match shape {
        0 => {
            // criss-cross ladder: two lines that merge each other at every rung, on a common root
            shape_name = "criss-cross";
            let rungs = 1 + r.usize((max_n / 2).max(2) - 1).min(8);
            let with_root = r.chance(3, 4);
            if with_root {
                parents.push(vec![]);
                parents.push(vec![0]);
                parents.push(vec![0]);
            } else {
                parents.push(vec![]);
                parents.push(vec![]);
                parents.push(vec![0, 1]);
                parents.push(vec![1, 0]);
            }
            for _ in 0..rungs {
                let n = parents.len();
                let (a, b) = (n - 2, n - 1);
                parents.push(vec![a, b]);
                parents.push(vec![b, a]);
                if r.chance(1, 3) {
                    // a plain commit on one side in between
                    let n = parents.len();
                    parents.push(vec![n - 2]);
                    parents.push(vec![n - 2]);
                }
            }
        }
        1 => {
            shape_name = "chain";
            let n = 1 + r.usize(max_n.min(12));
            for i in 0..n {
                parents.push(if i == 0 { vec![] } else { vec![i - 1] });
            }
        }
        _ => {
            let n = 2 + r.usize(max_n - 1);
            let (root_num, root_den) = match shape {
                2 => {
                    shape_name = "many-roots";
                    (1, 3)
                }
                3 => {
                    shape_name = "merge-heavy";
                    (1, 15)
                }
                _ => {
                    shape_name = "general";
                    (1, 10)
                }
            };
            let window = if r.chance(1, 2) { 4 } else { n };
            for i in 0..n {
                if i == 0 || r.chance(root_num, root_den) {
                    parents.push(vec![]);
                    continue;
                }
                let want = match r.below(20) {
                    0..=9 => {
                        if shape == 3 {
                            2
                        } else {
                            1
                        }
                    }
                    10..=17 => 2,
                    18 => 3,
                    _ => 4,
                };
                let mut ps: Vec<usize> = Vec::new();
                for _ in 0..want {
                    let lo = i.saturating_sub(window);
                    let p = lo + r.usize(i - lo);
                    if !ps.contains(&p) {
                        ps.push(p);
                    }
                }
                parents.push(ps);
            }
        }
    }
    let (time, tname) = gen_times(r, &parents);
    (Dag { parents, time }, format!("{shape_name}/{tname}"))
}

/// A scratch bare repository holding several DAGs (disjoint components; commit `(d, i)` is commit
/// `i` of DAG `d`).
pub struct Repo {
    pub dir: PathBuf,
    pub ids: HashMap<(usize, usize), gix_hash::ObjectId>,
    pub index_of: HashMap<gix_hash::ObjectId, (usize, usize)>,
    tree: String,
    batch: usize,
}

impl Repo {
    pub fn init(dir: &Path) -> Repo {
        let _ = std::fs::remove_dir_all(dir);
        std::fs::create_dir_all(dir).expect("mkdir repo");
        git_ok(dir, &["init", "-q", "--bare", "."], None);
        let tree = git_ok(dir, &["mktree"], Some(b""));
        Repo {
            dir: dir.to_path_buf(),
            ids: HashMap::new(),
            index_of: HashMap::new(),
            tree,
            batch: 0,
        }
    }
    pub fn objects_dir(&self) -> PathBuf {
        self.dir.join("objects")
    }
    pub fn id(&self, d: usize, i: usize) -> gix_hash::ObjectId {
        *self.ids.get(&(d, i)).expect("commit was created")
    }
    fn created(&self, d: usize) -> usize {
        (0..).find(|i| !self.ids.contains_key(&(d, *i))).unwrap()
    }
    /// Create the not yet existing commits `..upto` of DAG `d` with `git commit-tree` and explicit
    /// dates, plus one branch per commit.
    pub fn create_commits(&mut self, d: usize, dag: &Dag, upto: usize) {
        let start = self.created(d);
        for i in start..upto {
            let mut c = git_cmd(&self.dir);
            let date = format!("@{} +0000", dag.time[i]);
            c.env("GIT_AUTHOR_DATE", &date).env("GIT_COMMITTER_DATE", &date);
            c.arg("commit-tree").arg(&self.tree);
            for p in &dag.parents[i] {
                c.arg("-p").arg(self.id(d, *p).to_string());
            }
            c.arg("-m").arg(format!("d{d}c{i}"));
            let out = c.output().expect("spawn git commit-tree");
            assert!(out.status.success(), "git commit-tree failed: {}", String::from_utf8_lossy(&out.stderr));
            let hex = String::from_utf8_lossy(&out.stdout).trim().to_string();
            let id = gix_hash::ObjectId::from_hex(hex.as_bytes()).expect("commit-tree prints an id");
            self.index_of.insert(id, (d, i));
            self.ids.insert((d, i), id);
        }
        let mut input = String::new();
        for i in start..upto {
            input.push_str(&format!("create refs/heads/d{}c{} {}\n", d, i, self.id(d, i)));
        }
        if !input.is_empty() {
            git_ok(&self.dir, &["update-ref", "--stdin"], Some(input.as_bytes()));
        }
    }
    /// Create the not yet existing commits `..upto[d]` of every DAG with ONE `git fast-import` run
    /// (process spawns are expensive here), explicit committer dates, one branch per commit.
    pub fn fast_import(&mut self, dags: &[(usize, &Dag, usize)]) {
        let mut stream = String::new();
        let mut marks: Vec<(usize, usize)> = Vec::new();
        let mut mark_of: HashMap<(usize, usize), usize> = HashMap::new();
        for (d, dag, upto) in dags {
            let start = self.created(*d);
            for i in start..*upto {
                let mark = marks.len() + 1;
                marks.push((*d, i));
                mark_of.insert((*d, i), mark);
                let msg = format!("d{d}c{i}");
                stream.push_str(&format!("commit refs/heads/d{d}c{i}\nmark :{mark}\n"));
                stream.push_str(&format!("author A U Thor <author@example.com> {} +0000\n", dag.time[i]));
                stream.push_str(&format!("committer C O Mitter <committer@example.com> {} +0000\n", dag.time[i]));
                stream.push_str(&format!("data {}\n{}\n", msg.len(), msg));
                for (k, p) in dag.parents[i].iter().enumerate() {
                    let r = match mark_of.get(&(*d, *p)) {
                        Some(m) => format!(":{m}"),
                        None => self.id(*d, *p).to_string(),
                    };
                    stream.push_str(&format!("{} {}\n", if k == 0 { "from" } else { "merge" }, r));
                }
                if dag.parents[i].is_empty() {
                    // a root: make sure the tree is empty
                    stream.push_str("deleteall\n");
                }
                stream.push('\n');
            }
        }
        if marks.is_empty() {
            return;
        }
        self.batch += 1;
        let marks_file = self.dir.join(format!("marks{}", self.batch));
        let arg = format!("--export-marks={}", marks_file.display());
        git_ok(&self.dir, &["fast-import", "--quiet", "--date-format=raw", &arg], Some(stream.as_bytes()));
        let text = std::fs::read_to_string(&marks_file).expect("marks file");
        for line in text.lines() {
            let (m, hex) = line.split_once(' ').expect("mark line");
            let m: usize = m.trim_start_matches(':').parse().expect("mark number");
            let id = gix_hash::ObjectId::from_hex(hex.trim().as_bytes()).expect("id");
            let key = marks[m - 1];
            self.index_of.insert(id, key);
            self.ids.insert(key, id);
        }
        assert!(marks.iter().all(|k| self.ids.contains_key(k)), "every imported commit got an id");
    }
    pub fn write_commit_graph(&self) {
        git_ok(&self.dir, &["commit-graph", "write", "--reachable"], None);
    }
    pub fn remove_commit_graph(&self) {
        let _ = std::fs::remove_file(self.objects_dir().join("info").join("commit-graph"));
        let _ = std::fs::remove_dir_all(self.objects_dir().join("info").join("commit-graphs"));
    }
    pub fn commit_graph(&self) -> Option<gix_commitgraph::Graph> {
        let info = self.objects_dir().join("info");
        if !info.join("commit-graph").exists() {
            return None;
        }
        Some(gix_commitgraph::Graph::from_info_dir(&info).expect("commit-graph written by git is readable"))
    }
    /// generation numbers of DAG `d` as the traversal code sees them: from the commit-graph, else INFINITY
    pub fn gens(&self, d: usize, n: usize, cg: Option<&gix_commitgraph::Graph>) -> Vec<u32> {
        (0..n)
            .map(|i| cg.and_then(|g| g.commit_by_id(self.id(d, i))).map(|c| c.generation()).unwrap_or(GEN_INF))
            .collect()
    }
    /// local index of a commit that must belong to DAG `d`
    pub fn idx(&self, d: usize, id: &gix_hash::oid) -> usize {
        let (dd, i) = *self.index_of.get(id).expect("id belongs to the repository");
        assert_eq!(dd, d, "id belongs to the DAG that was queried");
        i
    }
    /// parse a list of hex ids printed by git, one per line
    pub fn parse_ids(&self, d: usize, out: &str) -> Vec<usize> {
        out.lines()
            .filter(|l| !l.trim().is_empty())
            .map(|l| {
                let id = gix_hash::ObjectId::from_hex(l.trim().trim_start_matches('-').as_bytes()).expect("git prints ids");
                self.idx(d, &id)
            })
            .collect()
    }
}

pub fn join_idx(v: &[usize]) -> String {
    if v.is_empty() {
        "-".into()
    } else {
        v.iter().map(|x| x.to_string()).collect::<Vec<_>>().join(",")
    }
}

pub fn parse_idx(s: &str) -> Option<Vec<usize>> {
    if s == "-" {
        return Some(vec![]);
    }
    s.split(',').map(|p| p.parse().ok()).collect()
}
