//! C46 — merge bases agree with git.
//!
//! Random commit DAGs are created with the real `git commit-tree` (explicit dates) in a scratch
//! repository. For random query tuples `(first, others…)` the REAL `gix_revision::merge_base()` is
//! run without a commit-graph, with a full commit-graph and with a partial one (fresh and re-used
//! `Graph`), and compared
//!   * with `git merge-base --all first others…` (the oracle the property names),
//!   * with a brute-force evaluation of the documented semantics (maximal common ancestors) — this
//!     validates the Lean `Spec` transcription against git as well,
//!   * with the Lean model (`cases.tsv`, fed the exported DAG incl. the generation numbers the
//!     code saw).
mod dag;
use dag::*;
use hcommon::*;

#[derive(Clone, Debug)]
struct Query {
    first: usize,
    others: Vec<usize>,
}

fn brute_merge_bases(d: &Dag, q: &Query) -> Vec<usize> {
    // git's special cases first (they are part of `merge-base --all`'s behaviour)
    if q.others.is_empty() || q.others.contains(&q.first) {
        return vec![q.first];
    }
    let a = d.anc(q.first);
    let mut b = vec![false; d.n()];
    for o in &q.others {
        for (i, x) in d.anc(*o).iter().enumerate() {
            b[i] |= *x;
        }
    }
    let common: Vec<usize> = (0..d.n()).filter(|i| a[*i] && b[*i]).collect();
    let mut out = Vec::new();
    for &x in &common {
        // x is maximal iff no other common ancestor has x as ancestor
        let dominated = common.iter().any(|&y| y != x && d.anc(y)[x]);
        if !dominated {
            out.push(x);
        }
    }
    out
}

fn obs_of(r: &Result<Result<Option<Vec<usize>>, String>, String>) -> String {
    match r {
        Err(_) => "panic".into(),
        Ok(Err(_)) => "err".into(),
        Ok(Ok(None)) => "bases:none".into(),
        Ok(Ok(Some(v))) => {
            let mut v = v.clone();
            v.sort();
            format!("bases:{}", join_idx(&v))
        }
    }
}

fn set_of(v: &[usize]) -> Vec<usize> {
    let mut v = v.to_vec();
    v.sort();
    v.dedup();
    v
}

/// One DAG with its queries. `partial = Some(k)`: the first `k` commits exist when the first
/// commit-graph is written (the others are added afterwards, so they have no generation number).
struct Job {
    dag: Dag,
    bucket: String,
    queries: Vec<Query>,
    partial: Option<usize>,
    /// create with `git commit-tree` (one process per commit) instead of one `git fast-import`
    commit_tree: bool,
    /// git's answers, asked once per query (process spawns are expensive in this sandbox)
    git_answers: Vec<Option<Vec<usize>>>,
}

struct Ctx {
    /// how many more `git merge-base` processes may be spawned; beyond that the brute-force
    /// evaluation of the documented semantics (validated against git on the others) is the oracle
    git_budget: u64,
}

struct Store {
    odb: gix_odb::Handle,
    cg: Option<gix_commitgraph::Graph>,
}

impl Store {
    fn open(repo: &Repo) -> Store {
        Store { odb: gix_odb::at(repo.objects_dir()).expect("open odb"), cg: repo.commit_graph() }
    }
}

/// An object store that fails ONCE, on the next lookup of a chosen object (a transient `Find`
/// error in the middle of a query).
struct FailingFind<'a> {
    inner: &'a gix_odb::Handle,
    fail_on: std::cell::Cell<Option<gix_hash::ObjectId>>,
    failed: std::cell::Cell<bool>,
}

impl gix_object::Find for FailingFind<'_> {
    fn try_find<'b>(
        &self,
        id: &gix_hash::oid,
        buffer: &'b mut Vec<u8>,
    ) -> Result<Option<gix_object::Data<'b>>, gix_object::find::Error> {
        if self.fail_on.get().as_deref() == Some(id) {
            self.fail_on.set(None);
            self.failed.set(true);
            return Err("injected transient failure".into());
        }
        self.inner.try_find(id, buffer)
    }
}

/// the commit whose lookup fails: a proper ancestor of the queried commits, in the middle of them
fn victim(d: &Dag, q: &Query) -> Option<usize> {
    let mut anc = d.anc(q.first);
    for o in &q.others {
        for (i, x) in d.anc(*o).iter().enumerate() {
            anc[i] |= *x;
        }
    }
    let cands: Vec<usize> = (0..d.n()).filter(|i| anc[*i] && *i != q.first && !q.others.contains(i)).collect();
    cands.get(cands.len() / 2).copied()
}

fn run_phase(rep: &mut Report, ctx: &mut Ctx, repo: &Repo, store: &Store, d: usize, job: &mut Job, name: &str, last_phase: bool) {
    let odb = &store.odb;
    let cg = &store.cg;
    assert_eq!(cg.is_some(), name != "none", "commit-graph presence matches the phase");
    let gens = repo.gens(d, job.dag.n(), cg.as_ref());
    let tokens = job.dag.tokens(&gens);
    let mut shared = gix_revision::Graph::new(odb, cg.as_ref());
    for (qi, q) in job.queries.iter().enumerate() {
        let op = format!(
            "mb {} {} {} {}{}",
            name,
            job.dag.n(),
            tokens,
            q.first,
            q.others.iter().map(|o| format!(" {o}")).collect::<String>()
        );
        let first = repo.id(d, q.first);
        let others: Vec<gix_hash::ObjectId> = q.others.iter().map(|o| repo.id(d, *o)).collect();
        let call = |graph: &mut gix_revision::Graph<'_, '_, gix_revwalk::graph::Commit<gix_revision::merge_base::Flags>>| {
            catch(|| {
                gix_revision::merge_base(first, &others, graph)
                    .map(|o| o.map(|v| v.iter().map(|id| repo.idx(d, id)).collect::<Vec<_>>()))
                    .map_err(|e| e.to_string())
            })
        };
        let fresh = {
            let mut graph = gix_revision::Graph::new(odb, cg.as_ref());
            call(&mut graph)
        };
        let reused = call(&mut shared);
        let nontrivial = !(q.others.is_empty() || q.others.contains(&q.first));
        rep.case(&op, &obs_of(&fresh), nontrivial);

        // ---- oracle: git merge-base --all ------------------------------------------------------
        let brute = set_of(&brute_merge_bases(&job.dag, q));
        // `git merge-base --all A` is a usage error: no CLI surface for an empty `others`
        let ask_now = !others.is_empty() && job.git_answers[qi].is_none() && (qi % 3 != 2 || last_phase) && ctx.git_budget > 0;
        if ask_now {
            ctx.git_budget -= 1;
            let mut args: Vec<String> = vec!["merge-base".into(), "--all".into(), first.to_string()];
            args.extend(others.iter().map(|o| o.to_string()));
            let argrefs: Vec<&str> = args.iter().map(|s| s.as_str()).collect();
            let g = git(&repo.dir, &argrefs, None);
            assert!(g.code == 0 || g.code == 1, "git merge-base failed: {}", String::from_utf8_lossy(&g.stderr));
            rep.git_checked(1);
            let git_set = set_of(&repo.parse_ids(d, &String::from_utf8_lossy(&g.stdout)));
            if brute != git_set {
                // the documented semantics transcribed in Spec.C46 would be wrong: our defect, not gitoxide's
                panic!("SPEC DEFECT: maximal common ancestors {brute:?} != git merge-base --all {git_set:?} for {op}");
            }
            job.git_answers[qi] = Some(git_set);
        }
        let (expected, by) = match &job.git_answers[qi] {
            Some(g) => (g.clone(), "git merge-base --all"),
            None => (brute, "maximal common ancestors (the semantics validated against git merge-base --all on the other queries)"),
        };
        rep.oracle_checked();
        rep.bucket(&job.bucket);
        rep.bucket(&format!(
            "cg:{} bases:{}",
            if name.starts_with("part") { "partial" } else { name },
            match expected.len() {
                0 => "0",
                1 => "1",
                2 => "2",
                _ => "3+",
            }
        ));
        rep.bucket(&format!("others:{}", q.others.len().min(3)));
        for (kind, res) in [("fresh", &fresh), ("reused", &reused)] {
            let key = format!("{kind} {op}");
            match res {
                Err(msg) => rep.oracle_failure(&key, &format!("merge_base() panicked: {msg}"), &op),
                Ok(Err(e)) => rep.oracle_failure(&key, &format!("merge_base() failed: {e}"), &op),
                Ok(Ok(got)) => {
                    let got_v = got.clone().unwrap_or_default();
                    let got_set = set_of(&got_v);
                    let dup = got_set.len() != got_v.len();
                    let empty_some = matches!(got, Some(v) if v.is_empty());
                    if got_set != expected || dup || empty_some {
                        rep.oracle_failure(
                            &key,
                            &format!("gix merge_base = {got:?} but {by} = {expected:?} (commit-graph: {name}, {kind} Graph)"),
                            &op,
                        );
                    }
                }
            }
        }
        // ---- a query that fails part-way, then ordinary queries on the SAME Graph -----------------
        // (the flags an aborted query leaves behind must not influence later answers)
        if nontrivial {
            if let Some(v) = victim(&job.dag, q) {
                let ff = FailingFind { inner: odb, fail_on: std::cell::Cell::new(None), failed: std::cell::Cell::new(false) };
                let mut graph = gix_revision::Graph::new(&ff, cg.as_ref());
                ff.fail_on.set(Some(repo.id(d, v)));
                let aborted = call(&mut graph);
                ff.fail_on.set(None);
                if ff.failed.get() {
                    rep.bucket(if matches!(aborted, Ok(Err(_))) { "fault: query aborted" } else { "fault: lookup failed but query finished" });
                    let retry = call(&mut graph);
                    let rop = op.replacen("mb ", "mbretry ", 1);
                    rep.case(&rop, &obs_of(&retry), true);
                    rep.oracle_checked();
                    let ok = matches!(&retry, Ok(Ok(got)) if set_of(&got.clone().unwrap_or_default()) == expected);
                    if !ok {
                        rep.oracle_failure(
                            &format!("retry-after-failed-query {op}"),
                            &format!(
                                "after a query that failed on the lookup of commit {v}, the same query on the same Graph gives {retry:?}, expected {expected:?} ({by})"
                            ),
                            &op,
                        );
                    }
                    // an ordinary, different query on the same Graph
                    if qi > 0 {
                        let q2 = &job.queries[qi - 1];
                        if !(q2.others.is_empty() || q2.others.contains(&q2.first)) {
                            // abort once more so that fresh leftovers exist
                            ff.failed.set(false);
                            let first2 = repo.id(d, q2.first);
                            let others2: Vec<gix_hash::ObjectId> = q2.others.iter().map(|o| repo.id(d, *o)).collect();
                            let next = catch(|| {
                                gix_revision::merge_base(first2, &others2, &mut graph)
                                    .map(|o| o.map(|v| v.iter().map(|id| repo.idx(d, id)).collect::<Vec<_>>()))
                                    .map_err(|e| e.to_string())
                            });
                            let want2 = set_of(&brute_merge_bases(&job.dag, q2));
                            rep.oracle_checked();
                            let ok2 = matches!(&next, Ok(Ok(got)) if set_of(&got.clone().unwrap_or_default()) == want2);
                            if !ok2 {
                                rep.oracle_failure(
                                    &format!("query-after-failed-query {op}"),
                                    &format!(
                                        "after a query that failed part-way, merge_base({}, {:?}) on the same Graph gives {next:?}, maximal common ancestors are {want2:?}",
                                        q2.first, q2.others
                                    ),
                                    &op,
                                );
                            }
                        }
                    }
                } else {
                    rep.bucket("fault: victim never looked up (commit-graph or early result)");
                }
            }
        }
    }
}

/// All jobs live in ONE repository as disjoint components (merge-base only looks at reachable
/// commits), so that commit creation and `git commit-graph write` cost a handful of processes.
fn run_jobs(rep: &mut Report, ctx: &mut Ctx, scratch: &Scratch, jobs: &mut [Job], phases: &[&str]) {
    let dir = scratch.join("repo");
    let t0 = std::time::Instant::now();
    let mut repo = Repo::init(&dir);
    let want = |name: &str| phases.is_empty() || phases.contains(&name);
    let any_partial = jobs.iter().any(|j| j.partial.is_some());
    for round in 0..2 {
        // round 0: the commits that exist before the first commit-graph is written
        let mut batch: Vec<(usize, &Dag, usize)> = Vec::new();
        for (d, job) in jobs.iter().enumerate() {
            let upto = if round == 0 { job.partial.map(|k| k.min(job.dag.n())).unwrap_or(0) } else { job.dag.n() };
            if job.commit_tree {
                repo.create_commits(d, &job.dag, upto);
            } else {
                batch.push((d, &job.dag, upto));
            }
        }
        repo.fast_import(&batch);
        if round == 0 && any_partial {
            repo.write_commit_graph();
        }
    }
    if std::env::var("C46_TIMING").is_ok() {
        eprintln!("repo built after {:?}", t0.elapsed());
    }
    if any_partial {
        let store = Store::open(&repo);
        for (d, job) in jobs.iter_mut().enumerate() {
            if let Some(k) = job.partial {
                let name = format!("part{k}");
                if want(&name) {
                    run_phase(rep, ctx, &repo, &store, d, job, &name, false);
                }
            }
        }
        repo.remove_commit_graph();
    }
    if want("none") {
        let store = Store::open(&repo);
        for (d, job) in jobs.iter_mut().enumerate() {
            run_phase(rep, ctx, &repo, &store, d, job, "none", false);
        }
    }
    if want("full") {
        repo.write_commit_graph();
        let store = Store::open(&repo);
        for (d, job) in jobs.iter_mut().enumerate() {
            run_phase(rep, ctx, &repo, &store, d, job, "full", true);
        }
    }
    if std::env::var("C46_TIMING").is_ok() {
        eprintln!("phases done after {:?}, git budget left {}", t0.elapsed(), ctx.git_budget);
    }
}

fn gen_queries(r: &mut Rng, n: usize, count: usize) -> Vec<Query> {
    (0..count)
        .map(|_| {
            // bias towards the newest commits (they have the most history)
            let pick = |r: &mut Rng| {
                if r.chance(2, 3) {
                    n - 1 - r.usize(n.min(6))
                } else {
                    r.usize(n)
                }
            };
            let first = pick(r);
            let k = match r.below(12) {
                0 => 0,
                1..=7 => 1,
                8..=9 => 2,
                10 => 3,
                _ => 4,
            };
            let others = (0..k).map(|_| pick(r)).collect();
            Query { first, others }
        })
        .collect()
}

const B: i64 = 1_600_000_000;

/// deterministic boundary cases
fn corpus() -> Vec<(Dag, Vec<Query>, &'static str)> {
    let q = |first: usize, others: &[usize]| Query { first, others: others.to_vec() };
    vec![
        // criss-cross: two merge bases
        (
            Dag { parents: vec![vec![], vec![0], vec![0], vec![1, 2], vec![2, 1]], time: vec![B, B + 1, B + 2, B + 3, B + 4] },
            vec![q(3, &[4]), q(4, &[3]), q(3, &[4, 0]), q(3, &[3]), q(3, &[]), q(1, &[2]), q(3, &[1])],
            "corpus/criss-cross",
        ),
        // skewed times: Y (1) is newer than everything below the tips but is an ancestor of X (4)
        // through the SECOND parent of M (3); paint_down_to_common reports both, remove_redundant
        // has to drop Y
        (
            Dag {
                parents: vec![vec![], vec![0], vec![0], vec![2, 1], vec![3], vec![4, 1], vec![4, 1]],
                time: vec![B, B + 100, B + 3, B + 4, B + 5, B + 200, B + 200],
            },
            vec![q(5, &[6]), q(6, &[5])],
            "corpus/skewed-second-parent",
        ),
        // same, but reaching Y through a first parent
        (
            Dag {
                parents: vec![vec![], vec![0], vec![0], vec![1, 2], vec![3], vec![4, 1], vec![4, 1]],
                time: vec![B, B + 100, B + 3, B + 4, B + 5, B + 200, B + 200],
            },
            vec![q(5, &[6])],
            "corpus/skewed-first-parent",
        ),
        // unrelated histories
        (
            Dag { parents: vec![vec![], vec![], vec![0], vec![1]], time: vec![B, B, B + 1, B + 1] },
            vec![q(2, &[3]), q(2, &[3, 0]), q(0, &[1])],
            "corpus/disjoint",
        ),
        // chain
        (
            Dag { parents: vec![vec![], vec![0], vec![1], vec![2]], time: vec![B, B, B, B] },
            vec![q(3, &[1]), q(1, &[3]), q(3, &[0, 2])],
            "corpus/chain",
        ),
        // octopus with three bases candidates
        (
            Dag {
                parents: vec![vec![], vec![0], vec![0], vec![0], vec![1, 2, 3], vec![3, 2, 1], vec![1, 3]],
                time: vec![B, B + 5, B + 5, B + 5, B + 6, B + 6, B + 1],
            },
            vec![q(4, &[5]), q(4, &[6]), q(6, &[4, 5]), q(4, &[5, 6])],
            "corpus/octopus",
        ),
    ]
}

/// Skewed histories in which a candidate that `paint_down_to_common` reports (`y`: newer than the
/// real bases, a direct parent of both tips) is redundant, and its redundancy is visible ONLY through
/// a 2nd-or-later parent of a merge below the real base(s), `depth` >= 1 plain commits further down
/// (so `remove_redundant` has to WALK the non-first parents of merges, marking them is not enough).
/// Shapes: plain, octopus (the path hangs off the 2nd/3rd/last parent), criss-cross (two real
/// bases), stacked (two such merges on top of each other, one redundant candidate behind each).
fn skew_family(depth: usize, pos: usize, sides_after: usize, above: usize, criss: bool, stacked: bool, tip_order: usize) -> (Dag, Vec<Query>) {
    let mut parents: Vec<Vec<usize>> = vec![vec![]];
    let mut time: Vec<i64> = vec![B];
    let mut candidates: Vec<usize> = Vec::new();
    let mut below = 0usize; // what the next level's side branches fork from
    let levels = if stacked { 2 } else { 1 };
    for level in 0..levels {
        // the redundant candidate with a commit time far in the future of everything but the tips
        let y = parents.len();
        parents.push(vec![below]);
        time.push(B + 100_000 + level as i64);
        candidates.push(y);
        let mut z = y;
        for _ in 0..depth {
            parents.push(vec![z]);
            time.push(B + parents.len() as i64);
            z = parents.len() - 1;
        }
        let mut ps = Vec::new();
        for _ in 0..pos {
            parents.push(vec![below]);
            time.push(B + parents.len() as i64);
            ps.push(parents.len() - 1);
        }
        ps.push(z);
        for _ in 0..sides_after {
            parents.push(vec![below]);
            time.push(B + parents.len() as i64);
            ps.push(parents.len() - 1);
        }
        parents.push(ps);
        time.push(B + parents.len() as i64);
        let mut top = parents.len() - 1;
        for _ in 0..above {
            parents.push(vec![top]);
            time.push(B + parents.len() as i64);
            top = parents.len() - 1;
        }
        below = top;
    }
    // the real base(s)
    let merge_top = below;
    let mut bases = vec![];
    parents.push(vec![merge_top]);
    time.push(B + parents.len() as i64);
    bases.push(parents.len() - 1);
    if criss {
        parents.push(vec![merge_top]);
        time.push(B + parents.len() as i64);
        bases.push(parents.len() - 1);
    }
    let mut tip_parents: Vec<usize> = bases.clone();
    tip_parents.extend(candidates.iter().copied());
    let mut t1 = tip_parents.clone();
    let mut t2 = tip_parents.clone();
    match tip_order {
        0 => {}
        1 => t1.reverse(),
        2 => t2.reverse(),
        _ => {
            t1.reverse();
            t2.rotate_left(1);
        }
    }
    parents.push(t1);
    time.push(B + 200_000);
    let a = parents.len() - 1;
    parents.push(t2);
    time.push(B + 200_000 + (tip_order as i64 % 2));
    let b = a + 1;
    let q = |first: usize, others: &[usize]| Query { first, others: others.to_vec() };
    let mut queries = vec![q(a, &[b]), q(b, &[a]), q(a, &[b, b]), q(b, &[a, candidates[0]])];
    if criss {
        queries.push(q(a, &[b, bases[0]]));
    }
    (Dag { parents, time }, queries)
}

fn skew_families(r: &mut Rng, thorough: bool) -> Vec<(Dag, Vec<Query>, String)> {
    let mut out = Vec::new();
    // a fixed grid (every run) ...
    for depth in 1..=2 {
        for pos in 1..=2 {
            for (criss, stacked) in [(false, false), (true, false), (false, true)] {
                let (d, q) = skew_family(depth, pos, (depth + pos) % 2, 1 + (pos % 2), criss, stacked, depth + pos);
                out.push((d, q, format!("family/skew-nonfirst d{depth} p{pos}{}{}", if criss { " criss" } else { "" }, if stacked { " stacked" } else { "" })));
            }
        }
    }
    // ... and random members
    for _ in 0..if thorough { 60 } else { 8 } {
        let depth = 1 + r.usize(4);
        let pos = 1 + r.usize(3);
        let (d, q) = skew_family(depth, pos, r.usize(3), r.usize(3), r.chance(1, 3), r.chance(1, 3), r.usize(4));
        out.push((d, q, "family/skew-nonfirst random".to_string()));
    }
    out
}

fn replay(rep: &mut Report, ctx: &mut Ctx, scratch: &Scratch, ops: &[String]) {
    for op in ops {
        let a: Vec<&str> = op.split(' ').collect();
        if a.len() < 4 || a[0] != "mb" {
            rep.note(&format!("replay: unknown op {op}"));
            continue;
        }
        let n: usize = a[2].parse().expect("n");
        let (dag, _gens) = Dag::parse(&a[3..3 + n]).expect("dag tokens");
        let first: usize = a[3 + n].parse().expect("first");
        let others: Vec<usize> = a[4 + n..].iter().map(|s| s.parse().expect("other")).collect();
        let partial = a[1].strip_prefix("part").map(|k| k.parse::<usize>().expect("k"));
        let mut jobs = vec![Job {
            dag,
            bucket: "replay".into(),
            queries: vec![Query { first, others }],
            partial,
            commit_tree: true,
            git_answers: vec![None],
        }];
        run_jobs(rep, ctx, scratch, &mut jobs, &[a[1]]);
    }
}

fn main() {
    let args = Args::parse();
    // harness bugs (and SPEC DEFECT assertions) must be visible: re-install a printing hook after
    // hcommon::catch installed its silent one
    let _ = catch(|| ());
    std::panic::set_hook(Box::new(|info| eprintln!("harness panic: {info}")));
    let mut rep = Report::new("C46", &args);
    let mut r = Rng::new(args.seed);
    let scratch = Scratch::new("c46");
    let mut ctx = Ctx { git_budget: args.budget(220, 2_400) };
    if let Some(ops) = replay_ops(&args) {
        replay(&mut rep, &mut ctx, &scratch, &ops);
        rep.finish();
        return;
    }
    let mut jobs: Vec<Job> = Vec::new();
    for (dag, queries, name) in corpus() {
        let partial = Some(dag.n() / 2 + 1);
        let nq = queries.len();
        // the two smallest corpus histories are made with `git commit-tree`, one process per commit
        let commit_tree = name == "corpus/criss-cross" || name == "corpus/skewed-second-parent";
        jobs.push(Job { dag, bucket: name.into(), queries, partial, commit_tree, git_answers: vec![None; nq] });
    }
    // no commit-graph for these (the phase "none" and "full" still run; "none" is where the
    // non-first parents must be walked); every query is judged by the brute-force semantics (and
    // by git while the budget lasts)
    for (dag, queries, name) in skew_families(&mut r, args.thorough) {
        let nq = queries.len();
        jobs.push(Job { dag, bucket: name, queries, partial: None, commit_tree: false, git_answers: vec![None; nq] });
    }
    let dags = args.budget(60, 700);
    for k in 0..dags {
        let max_n = if r.chance(1, 5) { 60 } else { 28 };
        let (dag, bucket) = gen_dag(&mut r, max_n);
        let queries = gen_queries(&mut r, dag.n(), 10);
        let partial = if r.chance(1, 2) { Some(1 + r.usize(dag.n())) } else { None };
        let nq = queries.len();
        // the thorough tier also creates a share of the random DAGs with `git commit-tree`
        let commit_tree = args.thorough && k % 40 == 0;
        jobs.push(Job { dag, bucket, queries, partial, commit_tree, git_answers: vec![None; nq] });
    }
    // repositories of at most 100 DAGs
    for chunk in jobs.chunks_mut(100) {
        run_jobs(&mut rep, &mut ctx, &scratch, chunk, &[]);
    }
    rep.finish();
}
