//! C28 — config edits change only what was edited.
//! Correspondence: edit histories applied to the real `gix_config::File`, status and `to_bstring`
//! after every call, against the Lean model. Oracle (no model): after every call the new text is
//! re-read by gitoxide and by `git config -f F --list -z` and compared with what the call was
//! MEANT to do to the previous text (a few lines of "intended semantics" below); comments and
//! section headers are compared textually.
#[path = "../../c26/src/gen.rs"]
mod gen;
use bstr::{BStr, BString, ByteSlice};
use gen::*;
use gix_config::parse::section::ValueName;
use hcommon::*;
use std::borrow::Cow;
use std::path::Path;

#[derive(Clone, Debug)]
enum Op {
    Set(Vec<u8>, Option<Vec<u8>>, Vec<u8>, Vec<u8>),
    SetExisting(Vec<u8>, Option<Vec<u8>>, Vec<u8>, Vec<u8>),
    Push(Vec<u8>, Option<Vec<u8>>, Vec<u8>, Option<Vec<u8>>),
    Remove(Vec<u8>, Option<Vec<u8>>, Vec<u8>),
    NewSection(Vec<u8>, Option<Vec<u8>>),
    RemoveSection(Vec<u8>, Option<Vec<u8>>),
    Rename(Vec<u8>, Option<Vec<u8>>, Vec<u8>, Option<Vec<u8>>),
    /// `raw_values_mut_by(sec, sub, key)?` and then `set_all(v)`
    MvSetAll(Vec<u8>, Option<Vec<u8>>, Vec<u8>, Vec<u8>),
    /// … `set_at(n % len, v)`
    MvSetAt(Vec<u8>, Option<Vec<u8>>, Vec<u8>, usize, Vec<u8>),
    /// … `delete(n % len)`
    MvDelete(Vec<u8>, Option<Vec<u8>>, Vec<u8>, usize),
    /// … `delete_all()`
    MvDeleteAll(Vec<u8>, Option<Vec<u8>>, Vec<u8>),
}

fn oh(b: &Option<Vec<u8>>) -> String {
    opt_hex(b.as_deref())
}

impl Op {
    fn encode(&self) -> String {
        match self {
            Op::Set(a, b, c, d) => format!("set:{}:{}:{}:{}", hex(a), oh(b), hex(c), hex(d)),
            Op::SetExisting(a, b, c, d) => format!("setx:{}:{}:{}:{}", hex(a), oh(b), hex(c), hex(d)),
            Op::Push(a, b, c, d) => format!("push:{}:{}:{}:{}", hex(a), oh(b), hex(c), oh(d)),
            Op::Remove(a, b, c) => format!("rm:{}:{}:{}", hex(a), oh(b), hex(c)),
            Op::NewSection(a, b) => format!("new:{}:{}", hex(a), oh(b)),
            Op::RemoveSection(a, b) => format!("rmsec:{}:{}", hex(a), oh(b)),
            Op::Rename(a, b, c, d) => format!("mv:{}:{}:{}:{}", hex(a), oh(b), hex(c), oh(d)),
            Op::MvSetAll(a, b, c, d) => format!("mvall:{}:{}:{}:{}", hex(a), oh(b), hex(c), hex(d)),
            Op::MvSetAt(a, b, c, n, d) => format!("mvat:{}:{}:{}:{}:{}", hex(a), oh(b), hex(c), n, hex(d)),
            Op::MvDelete(a, b, c, n) => format!("mvdel:{}:{}:{}:{}", hex(a), oh(b), hex(c), n),
            Op::MvDeleteAll(a, b, c) => format!("mvdelall:{}:{}:{}", hex(a), oh(b), hex(c)),
        }
    }
    fn decode(s: &str) -> Option<Op> {
        let p: Vec<&str> = s.split(':').collect();
        let ob = |x: &str| if x == "~" { Some(None) } else { unhex(x).map(Some) };
        Some(match p.as_slice() {
            ["set", a, b, c, d] => Op::Set(unhex(a)?, ob(b)?, unhex(c)?, unhex(d)?),
            ["setx", a, b, c, d] => Op::SetExisting(unhex(a)?, ob(b)?, unhex(c)?, unhex(d)?),
            ["push", a, b, c, d] => Op::Push(unhex(a)?, ob(b)?, unhex(c)?, ob(d)?),
            ["rm", a, b, c] => Op::Remove(unhex(a)?, ob(b)?, unhex(c)?),
            ["new", a, b] => Op::NewSection(unhex(a)?, ob(b)?),
            ["rmsec", a, b] => Op::RemoveSection(unhex(a)?, ob(b)?),
            ["mv", a, b, c, d] => Op::Rename(unhex(a)?, ob(b)?, unhex(c)?, ob(d)?),
            ["mvall", a, b, c, d] => Op::MvSetAll(unhex(a)?, ob(b)?, unhex(c)?, unhex(d)?),
            ["mvat", a, b, c, n, d] => Op::MvSetAt(unhex(a)?, ob(b)?, unhex(c)?, n.parse().ok()?, unhex(d)?),
            ["mvdel", a, b, c, n] => Op::MvDelete(unhex(a)?, ob(b)?, unhex(c)?, n.parse().ok()?),
            ["mvdelall", a, b, c] => Op::MvDeleteAll(unhex(a)?, ob(b)?, unhex(c)?),
            _ => return None,
        })
    }
}

fn lookup_kind(e: &gix_config::lookup::existing::Error) -> &'static str {
    use gix_config::lookup::existing::Error::*;
    match e {
        SectionMissing => "section",
        SubSectionMissing => "subsection",
        KeyMissing => "key",
    }
}

fn header_kind(e: &gix_config::parse::section::header::Error) -> &'static str {
    use gix_config::parse::section::header::Error::*;
    match e {
        InvalidName => "name",
        InvalidSubSection => "sub",
    }
}

fn s(b: &[u8]) -> String {
    String::from_utf8(b.to_vec()).expect("generated names are ASCII")
}

fn sub_ref(b: &Option<Vec<u8>>) -> Option<&BStr> {
    b.as_deref().map(|x| x.as_bstr())
}

fn sub_cow(b: &Option<Vec<u8>>) -> Option<Cow<'static, BStr>> {
    b.as_ref().map(|x| Cow::Owned(BString::from(x.clone())))
}

/// Apply one call to the real `File`: Ok(()) or the error kind.
fn apply(f: &mut gix_config::File<'static>, op: &Op) -> Result<(), &'static str> {
    match op {
        Op::Set(sec, sub, key, val) => {
            use gix_config::file::set_raw_value::Error::*;
            f.set_raw_value_by(s(sec), sub_ref(sub), s(key), val.as_bstr()).map(|_| ()).map_err(|e| match e {
                Header(h) => header_kind(&h),
                ValueName(_) => "valuename",
            })
        }
        Op::SetExisting(sec, sub, key, val) => f
            .set_existing_raw_value_by(s(sec), sub_ref(sub), s(key), val.as_bstr())
            .map_err(|e| lookup_kind(&e)),
        Op::Push(sec, sub, key, val) => {
            let mut sm = f.section_mut(s(sec), sub_ref(sub)).map_err(|e| lookup_kind(&e))?;
            let name = ValueName::try_from(s(key)).map_err(|_| "valuename")?;
            sm.push(name, val.as_deref().map(|v| v.as_bstr()));
            Ok(())
        }
        Op::Remove(sec, sub, key) => {
            let mut sm = f.section_mut(s(sec), sub_ref(sub)).map_err(|e| lookup_kind(&e))?;
            sm.remove(&s(key)).map(|_| ()).ok_or("key")
        }
        Op::NewSection(name, sub) => f.new_section(s(name), sub_cow(sub)).map(|_| ()).map_err(|e| header_kind(&e)),
        Op::RemoveSection(name, sub) => f.remove_section(s(name).as_str(), sub_ref(sub)).map(|_| ()).ok_or("key"),
        Op::Rename(name, sub, new_name, new_sub) => {
            use gix_config::file::rename_section::Error::*;
            f.rename_section(s(name).as_str(), sub_ref(sub), s(new_name), sub_cow(new_sub)).map_err(|e| match e {
                Lookup(l) => lookup_kind(&l),
                Section(h) => header_kind(&h),
            })
        }
        Op::MvSetAll(sec, sub, key, val) => {
            let key = s(key);
            let mut m = f.raw_values_mut_by(s(sec), sub_ref(sub), &key).map_err(|e| lookup_kind(&e))?;
            m.set_all(val.as_bstr());
            Ok(())
        }
        Op::MvSetAt(sec, sub, key, n, val) => {
            let key = s(key);
            let mut m = f.raw_values_mut_by(s(sec), sub_ref(sub), &key).map_err(|e| lookup_kind(&e))?;
            let len = m.len();
            m.set_at(n % len, val.as_bstr());
            Ok(())
        }
        Op::MvDelete(sec, sub, key, n) => {
            let key = s(key);
            let mut m = f.raw_values_mut_by(s(sec), sub_ref(sub), &key).map_err(|e| lookup_kind(&e))?;
            let len = m.len();
            m.delete(n % len);
            Ok(())
        }
        Op::MvDeleteAll(sec, sub, key) => {
            let key = s(key);
            let mut m = f.raw_values_mut_by(s(sec), sub_ref(sub), &key).map_err(|e| lookup_kind(&e))?;
            m.delete_all();
            Ok(())
        }
    }
}

// ------------------------------------------------------------------ what a text says

#[derive(Clone, Debug)]
struct SecView {
    name: Vec<u8>,
    sub: Option<Vec<u8>>,
    legacy: bool,
    entries: Vec<(Vec<u8>, Vec<u8>)>,
    /// per entry: was there a `=`
    explicit: Vec<bool>,
    comments: Vec<Vec<u8>>,
}

impl PartialEq for SecView {
    fn eq(&self, o: &Self) -> bool {
        self.name == o.name && self.sub == o.sub && self.entries == o.entries && self.comments == o.comments
    }
}

#[derive(Clone, Debug, PartialEq)]
struct View {
    front_comments: Vec<Vec<u8>>,
    secs: Vec<SecView>,
}

fn comments_of(evs: &[gix_config::parse::Event<'_>]) -> Vec<Vec<u8>> {
    evs.iter()
        .filter_map(|e| match e {
            gix_config::parse::Event::Comment(c) => {
                // a CR before the line's LF is part of the line ending, not of the comment
                let mut t = c.to_bstring().to_vec();
                while t.last() == Some(&b'\r') {
                    t.pop();
                }
                Some(t)
            }
            _ => None,
        })
        .collect()
}

/// gitoxide's reading of a text (a fresh parse, nothing of the edited `File` is involved)
fn view_of(text: &[u8]) -> Option<View> {
    let evs = gix_config::parse::Events::from_bytes(text, None).ok()?;
    let mut v = View { front_comments: comments_of(&evs.frontmatter), secs: Vec::new() };
    for sct in &evs.sections {
        let body = gix_config::parse::Section { header: sct.header.clone(), events: sct.events.clone() };
        let mut entries = Vec::new();
        // key/value pairs through the public File API on a one-section file would re-introduce the
        // code under test; assemble them from the events directly
        let mut key: Option<Vec<u8>> = None;
        let mut acc: Vec<u8> = Vec::new();
        let mut explicit = Vec::new();
        let mut saw_sep = false;
        for e in &body.events {
            use gix_config::parse::Event::*;
            match e {
                SectionValueName(k) => {
                    key = Some(k.as_ref().as_bytes().to_ascii_lowercase());
                    acc.clear();
                    saw_sep = false;
                }
                KeyValueSeparator => saw_sep = true,
                ValueNotDone(x) => acc.extend_from_slice(x),
                Value(x) | ValueDone(x) => {
                    acc.extend_from_slice(x);
                    if let Some(k) = key.take() {
                        entries.push((k, gix_config::value::normalize_bstr(acc.as_bstr()).to_vec()));
                        explicit.push(saw_sep);
                    }
                    acc.clear();
                }
                _ => {}
            }
        }
        v.secs.push(SecView {
            name: sct.header.name().to_vec().to_ascii_lowercase(),
            sub: sct.header.subsection_name().map(|x| x.to_vec()),
            legacy: sct.header.is_legacy(),
            entries,
            explicit,
            comments: comments_of(&sct.events),
        });
    }
    Some(v)
}

fn matches(sv: &SecView, sec: &[u8], sub: &Option<Vec<u8>>) -> bool {
    sv.name == sec.to_ascii_lowercase() && sv.sub == *sub
}

/// What the call is MEANT to do, applied to what the previous text says. `None`: the call is meant
/// to fail (nothing changes). For `set` two results are acceptable (replace the last occurrence
/// in the last matching section, or add to it).
fn intended(prev: &View, op: &Op) -> Option<Vec<View>> {
    let valid_key = |k: &[u8]| !k.is_empty() && k[0].is_ascii_alphabetic() && k.iter().all(|b| b.is_ascii_alphanumeric() || *b == b'-');
    let valid_name = |n: &[u8]| n.iter().all(|b| b.is_ascii_alphanumeric() || *b == b'-');
    let valid_sub = |s: &Option<Vec<u8>>| s.as_ref().map_or(true, |s| !s.contains(&b'\n') && !s.contains(&0));
    let last_match = |sec: &[u8], sub: &Option<Vec<u8>>| prev.secs.iter().rposition(|sv| matches(sv, sec, sub));
    let mut out = prev.clone();
    match op {
        Op::Set(sec, sub, key, val) => {
            if !valid_key(key) {
                return None;
            }
            if last_match(sec, sub).is_none() && (!valid_name(sec) || !valid_sub(sub)) {
                return None;
            }
            let k = key.to_ascii_lowercase();
            match last_match(sec, sub) {
                Some(i) => match out.secs[i].entries.iter().rposition(|(kk, _)| *kk == k) {
                    Some(j) => out.secs[i].entries[j].1 = val.clone(),
                    None => {
                        out.secs[i].entries.push((k, val.clone()));
                        out.secs[i].explicit.push(true);
                    }
                },
                None => out.secs.push(SecView {
                    name: sec.to_ascii_lowercase(),
                    sub: sub.clone(),
                    legacy: false,
                    entries: vec![(k, val.clone())],
                    explicit: vec![true],
                    comments: vec![],
                }),
            }
            Some(vec![out])
        }
        Op::SetExisting(sec, sub, key, val) => {
            let k = key.to_ascii_lowercase();
            // the last occurrence over all matching sections
            for i in (0..out.secs.len()).rev() {
                if matches(&out.secs[i], sec, sub) {
                    if let Some(j) = out.secs[i].entries.iter().rposition(|(kk, _)| *kk == k) {
                        out.secs[i].entries[j].1 = val.clone();
                        return Some(vec![out]);
                    }
                }
            }
            None
        }
        Op::Push(sec, sub, key, val) => {
            if !valid_key(key) {
                return None;
            }
            let i = last_match(sec, sub)?;
            out.secs[i].entries.push((key.to_ascii_lowercase(), val.clone().unwrap_or_default()));
            out.secs[i].explicit.push(val.is_some());
            Some(vec![out])
        }
        Op::Remove(sec, sub, key) => {
            let i = last_match(sec, sub)?;
            let k = key.to_ascii_lowercase();
            let j = out.secs[i].entries.iter().rposition(|(kk, _)| *kk == k)?;
            out.secs[i].entries.remove(j);
            out.secs[i].explicit.remove(j);
            Some(vec![out])
        }
        Op::NewSection(name, sub) => {
            if !valid_name(name) || !valid_sub(sub) {
                return None;
            }
            out.secs.push(SecView { name: name.to_ascii_lowercase(), sub: sub.clone(), legacy: false, entries: vec![], explicit: vec![], comments: vec![] });
            Some(vec![out])
        }
        Op::RemoveSection(name, sub) => {
            let i = last_match(name, sub)?;
            out.secs.remove(i);
            Some(vec![out])
        }
        Op::Rename(name, sub, new_name, new_sub) => {
            let i = last_match(name, sub)?;
            if !valid_name(new_name) || !valid_sub(new_sub) {
                return None;
            }
            out.secs[i].name = new_name.to_ascii_lowercase();
            out.secs[i].sub = new_sub.clone();
            out.secs[i].legacy = false;
            Some(vec![out])
        }
        Op::MvSetAll(sec, sub, key, _) | Op::MvSetAt(sec, sub, key, ..) | Op::MvDelete(sec, sub, key, _) | Op::MvDeleteAll(sec, sub, key) => {
            // every occurrence of the key over all matching sections, in file order
            let k = key.to_ascii_lowercase();
            let mut occ: Vec<(usize, usize)> = Vec::new();
            for (i, sv) in prev.secs.iter().enumerate() {
                if matches(sv, sec, sub) {
                    for (j, (kk, _)) in sv.entries.iter().enumerate() {
                        if *kk == k {
                            occ.push((i, j));
                        }
                    }
                }
            }
            if occ.is_empty() {
                return None;
            }
            match op {
                Op::MvSetAll(.., val) => {
                    for (i, j) in occ {
                        out.secs[i].entries[j].1 = val.clone();
                        out.secs[i].explicit[j] = true;
                    }
                }
                Op::MvSetAt(_, _, _, n, val) => {
                    let (i, j) = occ[n % occ.len()];
                    out.secs[i].entries[j].1 = val.clone();
                    out.secs[i].explicit[j] = true;
                }
                Op::MvDelete(_, _, _, n) => {
                    let (i, j) = occ[n % occ.len()];
                    out.secs[i].entries.remove(j);
                    out.secs[i].explicit.remove(j);
                }
                _ => {
                    for (i, j) in occ.into_iter().rev() {
                        out.secs[i].entries.remove(j);
                        out.secs[i].explicit.remove(j);
                    }
                }
            }
            Some(vec![out])
        }
    }
}

/// per-key value lists, the way `git config --list` presents a file
fn flat(v: &View) -> Vec<(Vec<u8>, Vec<u8>)> {
    let mut out = Vec::new();
    for sv in &v.secs {
        for (k, val) in &sv.entries {
            let mut key = sv.name.clone();
            if let Some(sub) = &sv.sub {
                key.push(b'.');
                if sv.legacy {
                    key.extend_from_slice(&sub.to_ascii_lowercase());
                } else {
                    key.extend_from_slice(sub);
                }
            }
            key.push(b'.');
            key.extend_from_slice(k);
            out.push((key, val.clone()));
        }
    }
    out
}

fn git_list(dir: &Path, file: &[u8]) -> Option<Vec<(Vec<u8>, Vec<u8>)>> {
    std::fs::write(dir.join("f"), file).expect("write");
    let o = git(dir, &["config", "-f", "f", "--list", "-z"], None);
    if !o.ok {
        return None;
    }
    let mut out = Vec::new();
    for rec in o.stdout.split(|b| *b == 0) {
        if rec.is_empty() {
            continue;
        }
        match rec.iter().position(|b| *b == b'\n') {
            Some(p) => out.push((rec[..p].to_vec(), rec[p + 1..].to_vec())),
            None => out.push((rec.to_vec(), Vec::new())),
        }
    }
    Some(out)
}

/// values on which git 2.39 and gitoxide are known to read differently (C27): skip git for them
fn git_comparable(v: &[u8]) -> bool {
    !v.iter().any(|b| matches!(b, b'\r' | 0x0c | 0x0b | 0 | 8))
}

fn do_history(rep: &mut Report, sc: &Scratch, file: &[u8], ops: &[Op], use_git: bool) {
    let op_line = format!("hist {} {}", hex(file), ops.iter().map(Op::encode).collect::<Vec<_>>().join(" "));
    let mut input = file.to_vec();
    let parsed = gix_config::File::from_bytes_owned(&mut input, gix_config::file::Metadata::api(), Default::default());
    let Ok(mut f) = parsed else {
        rep.case(&op_line, "parse-err", false);
        return;
    };
    let mut obs: Vec<String> = Vec::new();
    let mut prev_text = f.to_bstring().to_vec();
    // once a known defect made the in-memory file and its text disagree, later steps of this
    // history say nothing new: they are still compared with the model, but not judged
    let mut tainted = false;
    for (n, op) in ops.iter().enumerate() {
        let res = catch(std::panic::AssertUnwindSafe(|| apply(&mut f, op)));
        let res = match res {
            Err(_) => {
                obs.push("panic".into());
                rep.bucket("op:panic");
                rep.oracle_failure(
                    &format!("panic:{}", op.encode().split(':').next().unwrap_or("")),
                    &format!("call {} of the history panics: {:?} on {:?}", n + 1, op, short(&prev_text)),
                    &op_line,
                );
                break;
            }
            Ok(r) => r,
        };
        let text = match catch(|| f.to_bstring().to_vec()) {
            Ok(t) => t,
            Err(_) => {
                obs.push("write-panic".into());
                rep.oracle_failure("panic:write", &format!("to_bstring panics after {:?}", op), &op_line);
                break;
            }
        };
        obs.push(match res {
            Ok(()) => format!("ok:{}", hex(&text)),
            Err(k) => format!("err-{k}:{}", hex(&text)),
        });
        rep.bucket(&format!("op:{}:{}", op.encode().split(':').next().unwrap_or(""), if res.is_ok() { "ok" } else { "err" }));

        // ---- oracle: the property itself, step by step, on texts only
        if tainted {
            prev_text = text;
            continue;
        }
        rep.oracle_checked();
        let opname = op.encode().split(':').next().unwrap_or("").to_string();
        // is this step in the territory of one of the known defects? (used only to NAME a failure)
        let known_class: Option<&'static str> = {
            let mut class = None;
            if let Op::Set(sec, sub, key, _) = op {
                if let Some(prev) = view_of(&prev_text) {
                    let hit = prev.secs.iter().rposition(|sv| matches(sv, sec, sub)).and_then(|i| {
                        let k = key.to_ascii_lowercase();
                        prev.secs[i].entries.iter().rposition(|(kk, _)| *kk == k).map(|j| !prev.secs[i].explicit[j])
                    });
                    if hit == Some(true) {
                        class = Some("set-on-key-without-separator");
                    }
                }
            }
            if let Op::NewSection(name, _) | Op::Set(name, ..) | Op::Rename(_, _, name, _) = op {
                if class.is_none() && name.is_empty() {
                    class = Some("empty-section-name");
                }
            }
            if class.is_none() && matches!(op, Op::NewSection(..) | Op::Set(..) | Op::Push(..)) {
                // the previous text ends in a value that is continued onto a last, EMPTY line (`k = a\<LF>` at the
                // very end; a continuation with text on its last line is NOT in this class and is judged)
                let ends_in_continuation = gix_config::parse::Events::from_bytes(&prev_text, None).map_or(false, |evs| {
                    evs.sections.last().map_or(false, |sct| {
                        let mut it = sct.events.iter().rev().filter(|e| !matches!(e, gix_config::parse::Event::Whitespace(_)));
                        matches!(it.next(), Some(gix_config::parse::Event::ValueDone(v)) if v.is_empty())
                            && matches!(it.next(), Some(gix_config::parse::Event::Newline(_)))
                            && matches!(it.next(), Some(gix_config::parse::Event::ValueNotDone(_)))
                    })
                });
                if ends_in_continuation {
                    class = Some("append-after-trailing-continuation");
                }
            }
            class
        };
        let failures_before = rep.failures.len();
        let Some(prev) = view_of(&prev_text) else {
            // already reported when this text was produced
            prev_text = text;
            continue;
        };
        let Some(now) = view_of(&text) else {
            rep.oracle_failure(
                &known_class.map_or_else(|| format!("unreadable-after:{opname}"), |c| c.to_string()),
                &format!("after {:?} on {:?} the file is written as {:?}, which does not parse", op, short(&prev_text), short(&text)),
                &op_line,
            );
            if known_class.is_some() {
                tainted = true;
            }
            prev_text = text;
            continue;
        };
        let want = intended(&prev, op);
        let detail = |what: &str| format!("{what}: {:?} on {:?} gives {:?}", op, short(&prev_text), short(&text));
        match (&res, &want) {
            (Ok(()), Some(ws)) => {
                if !ws.iter().any(|w| *w == now) {
                    // say what differs
                    let w = &ws[0];
                    let what = if flat(w) != flat(&now) {
                        "values"
                    } else if w.secs.iter().map(|s| (&s.name, &s.sub)).collect::<Vec<_>>() != now.secs.iter().map(|s| (&s.name, &s.sub)).collect::<Vec<_>>() {
                        "sections"
                    } else {
                        "comments"
                    };
                    rep.oracle_failure(&format!("{what}-differ:{opname}"), &detail(&format!("{what} are not what the call means")), &op_line);
                }
            }
            (Ok(()), None) => {
                if now != prev {
                    rep.oracle_failure(&format!("should-fail:{opname}"), &detail("the call is not meant to succeed, yet it changed the file"), &op_line);
                } else {
                    rep.outside_domain(&format!("{opname} succeeds where the intended semantics says it cannot, without changing anything"));
                }
            }
            (Err(k), Some(_)) => {
                rep.oracle_failure(&format!("refused-{k}:{opname}"), &detail("the call is meant to succeed but fails"), &op_line);
            }
            (Err(_), None) => {
                if now != prev {
                    rep.oracle_failure(&format!("failed-call-changes-file:{opname}"), &detail("the call failed and yet changed the file"), &op_line);
                }
            }
        }
        // git reads the same values as a fresh gitoxide parse
        if use_git
            && flat(&now).iter().all(|(_, v)| git_comparable(v))
            && !now.secs.iter().any(|s| s.legacy || s.sub.as_ref().map_or(false, |x| x.contains(&0)))
        {
            rep.git_checked(1);
            match git_list(&sc.path, &text) {
                None => {
                    if git_list(&sc.path, &prev_text).is_some() {
                        rep.oracle_failure(&format!("git-rejects-after:{opname}"), &detail("git read the file before the call but not after"), &op_line);
                    }
                }
                Some(gl) => {
                    if gl != flat(&now) && git_list(&sc.path, &prev_text).map_or(false, |g| g == flat(&prev)) {
                        rep.oracle_failure(&format!("git-reads-differently:{opname}"), &detail("git and gitoxide read different values after the call"), &op_line);
                    }
                }
            }
        }
        // a failure in known territory is filed under the known defect, and the rest of the history,
        // whose in-memory state no longer matches its text, is not judged
        if rep.failures.len() > failures_before {
            if let Some(class) = known_class {
                let detail = rep.failures[failures_before].detail.clone();
                rep.failures.truncate(failures_before);
                rep.bucket(&format!("known:{class}"));
                rep.oracle_failure(class, &detail, &op_line);
                tainted = true;
            }
        }
        prev_text = text;
    }
    rep.case(&op_line, &obs.join(" "), true);
}

// ------------------------------------------------------------------ generation

fn pick_bytes(r: &mut Rng, xs: &[&str]) -> Vec<u8> {
    r.pick(xs).as_bytes().to_vec()
}

fn gen_value(r: &mut Rng) -> Vec<u8> {
    match r.below(14) {
        0 => vec![],
        1 => b"true".to_vec(),
        2 => b" lead".to_vec(),
        3 => b"trail ".to_vec(),
        4 => b"a;b".to_vec(),
        5 => b"x # y".to_vec(),
        6 => b"q\"uo\\te".to_vec(),
        7 => b"line1\nline2".to_vec(),
        8 => b"tab\there".to_vec(),
        9 => b"\\".to_vec(),
        10 => r.over(b"ab \";#\t\n=[]", 8),
        11 => "ünï".as_bytes().to_vec(),
        12 => pick_bytes(r, &["a\rb", "\"", "\"\"", " ", "\t", "a  b", "10k", "=", "[x]"]),
        _ => pick_bytes(r, &["v", "w", "1", "value", "a/b/c"]),
    }
}

/// names taken from what the file has, so that lookups hit
fn existing(file: &[u8]) -> (Vec<(Vec<u8>, Option<Vec<u8>>)>, Vec<Vec<u8>>) {
    let mut secs = Vec::new();
    let mut keys = Vec::new();
    if let Some(v) = view_of(file) {
        for sv in v.secs {
            secs.push((sv.name, sv.sub));
            for (k, _) in sv.entries {
                keys.push(k);
            }
        }
    }
    (secs, keys)
}

fn vary_case(r: &mut Rng, b: &[u8]) -> Vec<u8> {
    if r.chance(1, 4) {
        b.iter().map(|c| if r.chance(1, 2) { c.to_ascii_uppercase() } else { *c }).collect()
    } else {
        b.to_vec()
    }
}

fn gen_ops(r: &mut Rng, file: &[u8]) -> Vec<Op> {
    let (mut secs, mut keys) = existing(file);
    let n = 1 + r.usize(6);
    let mut ops = Vec::new();
    for _ in 0..n {
        let (sec, sub) = if !secs.is_empty() && r.chance(4, 5) {
            let (a, b) = r.pick(&secs).clone();
            (vary_case(r, &a), b)
        } else {
            let a = pick_bytes(r, SECTION_NAMES);
            let b = match r.below(3) {
                0 => None,
                _ => Some(pick_bytes(r, SUBS)),
            };
            (a, b)
        };
        // legacy headers with dots in the name cannot be addressed by name
        if sec.contains(&b'.') {
            continue;
        }
        let key = if !keys.is_empty() && r.chance(2, 3) {
            let k = r.pick(&keys).clone();
            vary_case(r, &k)
        } else {
            pick_bytes(r, KEYS)
        };
        let key = if r.chance(1, 25) { pick_bytes(r, &["", "1k", "a_b", "-x", "a b", "k="]) } else { key };
        let op = match r.below(25) {
            0..=5 => Op::Set(sec, sub, key, gen_value(r)),
            6 | 7 => Op::SetExisting(sec, sub, key, gen_value(r)),
            8..=10 => Op::Push(sec, sub, key, if r.chance(1, 6) { None } else { Some(gen_value(r)) }),
            11..=13 => Op::Remove(sec, sub, key),
            14 | 15 => {
                let name = if r.chance(1, 12) { pick_bytes(r, &["a.b", "a b", "", "ü"]) } else { pick_bytes(r, SECTION_NAMES) };
                let sub = match r.below(4) {
                    0 => None,
                    1 => Some(pick_bytes(r, &["q\"uote", "back\\slash", "new\nline", "nul\0", "x y", ""])),
                    _ => Some(pick_bytes(r, SUBS)),
                };
                Op::NewSection(name, sub)
            }
            16 | 17 => Op::RemoveSection(sec, sub),
            20 | 21 => Op::MvSetAll(sec, sub, key, gen_value(r)),
            22 => Op::MvSetAt(sec, sub, key, r.usize(5), gen_value(r)),
            23 => Op::MvDelete(sec, sub, key, r.usize(5)),
            24 => Op::MvDeleteAll(sec, sub, key),
            _ => {
                let new_name = if r.chance(1, 12) { b"in valid".to_vec() } else { pick_bytes(r, SECTION_NAMES) };
                let new_sub = match r.below(3) {
                    0 => None,
                    _ => Some(pick_bytes(r, SUBS)),
                };
                Op::Rename(sec, sub, new_name, new_sub)
            }
        };
        // keep the name pools in step with what the calls create
        match &op {
            Op::Set(a, b, c, _) => {
                secs.push((a.to_ascii_lowercase(), b.clone()));
                keys.push(c.to_ascii_lowercase());
            }
            Op::Push(_, _, c, _) => keys.push(c.to_ascii_lowercase()),
            Op::NewSection(a, b) => secs.push((a.to_ascii_lowercase(), b.clone())),
            Op::Rename(_, _, c, d) => secs.push((c.to_ascii_lowercase(), d.clone())),
            _ => {}
        }
        if std::str::from_utf8(match &op {
            Op::Set(a, ..) | Op::SetExisting(a, ..) | Op::Push(a, ..) | Op::Remove(a, ..) | Op::NewSection(a, _) | Op::RemoveSection(a, _) | Op::Rename(a, ..) => a,
            Op::MvSetAll(a, ..) | Op::MvSetAt(a, ..) | Op::MvDelete(a, ..) | Op::MvDeleteAll(a, ..) => a,
        })
        .is_ok()
        {
            ops.push(op);
        }
    }
    // names and keys go through `&str` parameters
    ops.retain(|op| match op {
        Op::Set(a, _, c, _) | Op::SetExisting(a, _, c, _) | Op::Push(a, _, c, _) | Op::Remove(a, _, c) => a.is_ascii() && c.is_ascii(),
        Op::MvSetAll(a, _, c, _) | Op::MvSetAt(a, _, c, ..) | Op::MvDelete(a, _, c, _) | Op::MvDeleteAll(a, _, c) => a.is_ascii() && c.is_ascii(),
        Op::NewSection(a, _) | Op::RemoveSection(a, _) => a.is_ascii(),
        Op::Rename(a, _, c, _) => a.is_ascii() && c.is_ascii(),
    });
    ops
}

/// the file with a last value that is continued over lines and no final newline
fn with_trailing_continuation(r: &mut Rng, file: &[u8]) -> Vec<u8> {
    let mut f = file.to_vec();
    while matches!(f.last(), Some(b'\n' | b'\r' | b' ' | b'\t')) {
        f.pop();
    }
    let has_section = view_of(&f).map_or(false, |v| !v.secs.is_empty());
    if !has_section {
        f = b"[s]".to_vec();
    }
    let crlf = f.windows(2).any(|w| w == b"\r\n");
    let nl: &[u8] = if crlf { b"\r\n" } else { b"\n" };
    f.extend_from_slice(nl);
    f.extend_from_slice(pick_bytes(r, &["\tcont = x\\", "cont=x y\\", "  cont = \"q\\"]).as_slice());
    f.extend_from_slice(nl);
    f.extend_from_slice(pick_bytes(r, &["  y z", "y", "\ty\\"]).as_slice());
    if f.ends_with(b"\\") {
        f.extend_from_slice(nl);
        f.extend_from_slice(b" last");
    }
    if f.windows(2).any(|w| w == b"\"q") && !f.ends_with(b"\"") {
        f.push(b'"');
    }
    if view_of(&f).is_some() {
        f
    } else {
        file.to_vec()
    }
}

fn corpus() -> Vec<(Vec<u8>, Vec<Op>)> {
    let b = |x: &str| x.as_bytes().to_vec();
    let sb = |x: &str| Some(x.as_bytes().to_vec());
    vec![
        (b("[a]\n\tk = v\n"), vec![Op::Set(b("a"), None, b("k"), b("w"))]),
        (b("[a]\n\tk = v\n"), vec![Op::Set(b("a"), None, b("j"), b("w"))]),
        (b("[a]\n\tk = v\n"), vec![Op::Set(b("b"), sb("s"), b("j"), b("w"))]),
        (b("[a]\n\tk\n"), vec![Op::Set(b("a"), None, b("k"), b("w"))]),
        (b("[a]\n\tk \n"), vec![Op::Set(b("a"), None, b("k"), b("w"))]),
        (b("[a]\n\tk\n"), vec![Op::SetExisting(b("a"), None, b("k"), b("w"))]),
        (b("[a]\nk=v"), vec![Op::Push(b("a"), None, b("j"), sb("w"))]),
        (b("[a]\nk=v\n# c"), vec![Op::Push(b("a"), None, b("j"), sb("w"))]),
        (b("[a]\nk=v\n#"), vec![Op::NewSection(b("b"), None), Op::Set(b("b"), None, b("j"), b("w"))]),
        (b("[a]\nk=v\n# c"), vec![Op::NewSection(b("b"), None)]),
        (b("[a]\nk=v # c\n"), vec![Op::Remove(b("a"), None, b("k"))]),
        (b("[a]\nk=v # c\nj=w\n"), vec![Op::Set(b("a"), None, b("k"), b("x"))]),
        (b("[a]\nk=a\\\n b\nj=w\n"), vec![Op::Set(b("a"), None, b("k"), b("x"))]),
        (b("[a]\nk=a\\\n b\nj=w\n"), vec![Op::Remove(b("a"), None, b("k"))]),
        (b("[a]\nk=1\n[a]\nj=2\n"), vec![Op::Set(b("a"), None, b("k"), b("x"))]),
        (b("[a]\nk=1\n[a]\nj=2\n"), vec![Op::SetExisting(b("a"), None, b("k"), b("x"))]),
        (b("[a]\nk=1\n[a]\nj=2\n"), vec![Op::Remove(b("a"), None, b("k"))]),
        (b("[a]\nk=1\n"), vec![Op::Rename(b("a"), None, b("b"), None), Op::Set(b("b"), None, b("j"), b("2"))]),
        (b("[a]\nk=1\n"), vec![Op::Rename(b("a"), None, b("b"), None), Op::Set(b("a"), None, b("j"), b("2"))]),
        (b("[a]\nk=1\n"), vec![Op::RemoveSection(b("a"), None), Op::Push(b("a"), None, b("j"), sb("2"))]),
        (b("[a]\nk=1\n"), vec![Op::RemoveSection(b("a"), None), Op::Rename(b("a"), None, b("b"), None)]),
        (b("[a]\nk=1\n"), vec![Op::RemoveSection(b("a"), None), Op::Set(b("a"), None, b("j"), b("2"))]),
        (b("[a]\nk=1\n"), vec![Op::Set(b("b"), None, b("1bad"), b("2"))]),
        (b("[a]\r\nk=1\r\n"), vec![Op::Set(b("a"), None, b("j"), b("2")), Op::NewSection(b("c"), sb("d"))]),
        (b(""), vec![Op::Set(b("a"), sb("s\"q\\"), b("k"), b(" v "))]),
        (b("[a \"x\"]\nk=1\n"), vec![Op::Set(b("A"), sb("x"), b("K"), b("2")), Op::Set(b("a"), sb("X"), b("k"), b("3"))]),
        (b("[a]\nk=1\nk=2\n"), vec![Op::Remove(b("a"), None, b("k")), Op::Remove(b("a"), None, b("k")), Op::Remove(b("a"), None, b("k"))]),
        (b("[a] k=1\n"), vec![Op::Set(b("a"), None, b("k"), b("2"))]),
        (b("[a]\nk = \"v\" ; c\n"), vec![Op::SetExisting(b("a"), None, b("k"), b("a;b"))]),
        (b("[a]\nk=1\n[b]\nk=5\n[a]\nk=2\nj=9\n\tk = 3 ; c\n"), vec![Op::MvSetAll(b("a"), None, b("K"), b("x y "))]),
        (b("[a]\nk=1\n[b]\nk=5\n[a]\nk=2\nj=9\n\tk = 3 ; c\n"), vec![Op::MvSetAt(b("a"), None, b("k"), 1, b("x")), Op::MvSetAt(b("a"), None, b("k"), 5, b("y"))]),
        (b("[a]\nk=1\n[b]\nk=5\n[a]\nk=2\nj=9\n\tk = 3 ; c\n"), vec![Op::MvDelete(b("a"), None, b("k"), 2), Op::MvDelete(b("a"), None, b("k"), 0), Op::MvDeleteAll(b("a"), None, b("k")), Op::MvDeleteAll(b("a"), None, b("k"))]),
        (b("[a]\nk\nk = a\\\n  b\nk=\n"), vec![Op::MvSetAll(b("a"), None, b("k"), b("z"))]),
        (b("[a]\nk\nk = a\\\n  b\nk=\n"), vec![Op::MvDeleteAll(b("a"), None, b("k"))]),
        (b("[a]\nk=1\n"), vec![Op::MvSetAll(b("a"), None, b("j"), b("z")), Op::MvSetAll(b("b"), None, b("k"), b("z")), Op::MvSetAll(b("a"), sb("s"), b("k"), b("z"))]),
        // the last value of the section is continued over lines and the file has no final newline
        (b("[a]\nk = a\\\n b"), vec![Op::Push(b("a"), None, b("j"), sb("w"))]),
        (b("[a]\nk = a\\\n b"), vec![Op::Set(b("a"), None, b("j"), b("w"))]),
        (b("[a]\nk = a\\\n b"), vec![Op::NewSection(b("c"), None), Op::Set(b("c"), None, b("j"), b("w"))]),
        (b("[a]\nk = a\\\n b"), vec![Op::Push(b("a"), None, b("j"), None), Op::Push(b("a"), None, b("i"), sb("x"))]),
        (b("[a]\r\nk = a\\\r\n b\\\r\n c"), vec![Op::Push(b("a"), None, b("j"), sb("w"))]),
        (b("[a]\n\tk = \"q\\\n r\"  "), vec![Op::Push(b("a"), None, b("j"), sb("w"))]),
        (b("[a]\nk = a\\\n b\n[b]\nx = 1\\\n 2"), vec![Op::Push(b("a"), None, b("j"), sb("w")), Op::Push(b("b"), None, b("j"), sb("w"))]),
    ]
}

fn main() {
    let args = Args::parse();
    let mut rep = Report::new("C28", &args);
    let mut r = Rng::new(args.seed);
    let sc = Scratch::new("c28");
    if let Some(lines) = replay_ops(&args) {
        for l in lines {
            let mut it = l.split(' ');
            let (Some("hist"), Some(fh)) = (it.next(), it.next()) else { continue };
            let Some(file) = unhex(fh) else { continue };
            let ops: Vec<Op> = it.filter_map(Op::decode).collect();
            do_history(&mut rep, &sc, &file, &ops, true);
        }
        rep.finish();
        return;
    }
    for (file, ops) in corpus() {
        do_history(&mut rep, &sc, &file, &ops, true);
    }
    let n = args.budget(900, 12_000);
    let git_every = if args.thorough { 30 } else { 14 };
    for i in 0..n {
        let st = Style { git_ok: i % 5 != 0, plain_ws: i % 2 == 0 };
        let mut file = gen_config(&mut r, st);
        // every 6th file: its last section ends in a value continued over lines, without a final newline,
        // and the history starts by adding to that section
        let trailing = i % 6 == 3;
        if trailing {
            file = with_trailing_continuation(&mut r, &file);
        }
        let mut ops = gen_ops(&mut r, &file);
        if trailing {
            let (secs, _) = existing(&file);
            if let Some((name, sub)) = secs.last() {
                if !name.contains(&b'.') && name.is_ascii() {
                    let key = pick_bytes(&mut r, &["j", "newkey", "cont"]);
                    let first = match r.below(4) {
                        0 => Op::Set(name.clone(), sub.clone(), key, gen_value(&mut r)),
                        1 => Op::Push(name.clone(), sub.clone(), key, None),
                        _ => Op::Push(name.clone(), sub.clone(), key, Some(gen_value(&mut r))),
                    };
                    ops.insert(0, first);
                }
            }
        }
        if ops.is_empty() {
            continue;
        }
        do_history(&mut rep, &sc, &file, &ops, i % git_every == 0);
    }
    rep.finish();
}
