//! C22 — lock files give exclusive, atomic updates for every resource path.
//!
//! Ops (one line each, replayed by the Lean driver `drv_C22`):
//!   lossy <hex>                         std `String::from_utf8_lossy` / `from_utf8` (ties the model's `lossy`/`validUtf8`)
//!   name <hexdir> <hexname> <c|d> <0|1> acquire the lock of <dir><name> in a fresh directory, observe `lock_path()`,
//!                                       `resource_path()`, the directory while held and after commit (c) / drop (d);
//!                                       the last flag says whether the resource existed before
//!   seq <tok> <tok> …                   a sequential scenario over a fresh tree (F/G env setup, A/K acquire, W write,
//!                                       X close, C commit, D drop), outcome per token + final tree listing
//!   race <n> <hexpath>*n <ev> …         the event log of a multi-thread + multi-process race, replayed against the
//!                                       transition system; observation `legal files=<final files>`
use gix_lock::acquire::Fail;
use hcommon::*;
use std::collections::{BTreeMap, BTreeSet};
use std::ffi::OsStr;
use std::io::{Read, Seek, Write};
use std::os::unix::ffi::OsStrExt;
use std::path::{Path, PathBuf};

const DOT_LOCK: &[u8] = b".lock";

fn p_of(root: &Path, rel: &[u8]) -> PathBuf {
    if rel.is_empty() {
        root.to_path_buf()
    } else {
        root.join(OsStr::from_bytes(rel))
    }
}

/// bytes of `p` below `root` (bytewise; anything else is reported verbatim with a marker)
fn rel_of(root: &Path, p: &Path) -> Vec<u8> {
    let r = root.as_os_str().as_bytes();
    let b = p.as_os_str().as_bytes();
    if b.starts_with(r) && b.len() > r.len() && b[r.len()] == b'/' {
        b[r.len() + 1..].to_vec()
    } else if b == r {
        vec![]
    } else {
        let mut v = b"!outside:".to_vec();
        v.extend_from_slice(b);
        v
    }
}

#[derive(Clone, PartialEq, Eq, Debug)]
enum Node {
    Dir,
    File(Vec<u8>),
}

/// every directory and file below `root`, keyed by relative path bytes
fn snapshot(root: &Path) -> BTreeMap<Vec<u8>, Node> {
    fn walk(root: &Path, dir: &Path, out: &mut BTreeMap<Vec<u8>, Node>) {
        let rd = match std::fs::read_dir(dir) {
            Ok(r) => r,
            Err(_) => return,
        };
        for e in rd.flatten() {
            let p = e.path();
            let rel = rel_of(root, &p);
            match e.file_type() {
                Ok(t) if t.is_dir() => {
                    out.insert(rel, Node::Dir);
                    walk(root, &p, out);
                }
                _ => {
                    out.insert(rel, Node::File(std::fs::read(&p).unwrap_or_default()));
                }
            }
        }
    }
    let mut out = BTreeMap::new();
    walk(root, root, &mut out);
    out
}

fn listing(s: &BTreeMap<Vec<u8>, Node>, files_only: bool) -> String {
    let mut v = Vec::new();
    for (k, n) in s {
        match n {
            Node::Dir => {
                if !files_only {
                    v.push(format!("{}/", hex(k)))
                }
            }
            Node::File(c) => v.push(format!("{}={}", hex(k), hex(c))),
        }
    }
    if v.is_empty() {
        "-".into()
    } else {
        v.join(",")
    }
}

// ------------------------------------------------------------------------------------------ lossy

fn do_lossy(rep: &mut Report, bs: &[u8]) {
    let op = format!("lossy {}", hex(bs));
    let l = String::from_utf8_lossy(bs);
    let valid = std::str::from_utf8(bs).is_ok();
    rep.case(&op, &format!("{} valid={}", hex(l.as_bytes()), valid as u8), !bs.is_empty());
    rep.bucket(if valid { "lossy:valid" } else { "lossy:invalid" });
}

// ------------------------------------------------------------------------------------------- name

fn parent_rel(p: &[u8]) -> Vec<u8> {
    match p.iter().rposition(|b| *b == b'/') {
        Some(i) => p[..i].to_vec(),
        None => vec![],
    }
}

fn name_class(name: &[u8]) -> String {
    let dot = name.iter().rposition(|b| *b == b'.');
    let (stem, ext): (&[u8], Option<&[u8]>) = match dot {
        Some(0) | None => (name, None),
        Some(i) => (&name[..i], Some(&name[i + 1..])),
    };
    let cls = |b: &[u8]| {
        if b.is_ascii() {
            "ascii"
        } else if std::str::from_utf8(b).is_ok() {
            "utf8"
        } else {
            "nonutf8"
        }
    };
    match ext {
        None => format!("name:noext:stem-{}", cls(stem)),
        Some(e) if e.is_empty() => format!("name:emptyext:stem-{}", cls(stem)),
        Some(e) => format!("name:stem-{}:ext-{}", cls(stem), cls(e)),
    }
}

fn do_name(rep: &mut Report, sc: &Scratch, k: &mut u64, dir: &[u8], name: &[u8], mode: char, pre: bool) {
    *k += 1;
    let op = format!("name {} {} {} {}", hex(dir), hex(name), mode, pre as u8);
    let root = sc.join(format!("n{k}"));
    let mut p = dir.to_vec();
    p.extend_from_slice(name);
    let abs = p_of(&root, &p);
    let absdir = abs.parent().expect("has parent").to_path_buf();
    std::fs::create_dir_all(&absdir).expect("mkdir -p");
    if pre {
        std::fs::write(&abs, b"old").expect("write pre-existing resource");
    }
    rep.bucket(&name_class(name));
    rep.bucket(if dir.is_empty() { "name:dir-none" } else if dir.contains(&b'.') { "name:dir-dotted" } else { "name:dir-plain" });
    let key = format!("lockname dir={} name={}", hex(dir), hex(name));
    let mut expect_lock = p.clone();
    expect_lock.extend_from_slice(DOT_LOCK);
    let names_in = |d: &Path| -> Vec<(Vec<u8>, Vec<u8>)> {
        let mut v: Vec<(Vec<u8>, Vec<u8>)> = std::fs::read_dir(d)
            .map(|rd| {
                rd.flatten()
                    .map(|e| (e.file_name().as_bytes().to_vec(), std::fs::read(e.path()).unwrap_or_default()))
                    .collect()
            })
            .unwrap_or_default();
        v.sort();
        v
    };
    let res = catch(|| -> Result<String, String> {
        let mut f = gix_lock::File::acquire_to_update_resource(&abs, Fail::Immediately, None).map_err(|e| format!("{e}"))?;
        let lock = rel_of(&root, f.lock_path());
        let resource = rel_of(&root, &f.resource_path());
        let held: Vec<String> = names_in(&absdir).into_iter().map(|(n, _)| hex(&n)).collect();
        f.with_mut(|o| o.write_all(b"new")).map_err(|e| format!("write: {e}"))?;
        let fin = if mode == 'c' {
            match f.commit() {
                Ok(_) => "ok",
                Err(_) => "commit-err",
            }
        } else {
            drop(f);
            "ok"
        };
        let after: Vec<String> = names_in(&absdir).into_iter().map(|(n, c)| format!("{}:{}", hex(&n), hex(&c))).collect();
        Ok(format!(
            "lock={} res={} held={} fin={} after={}",
            hex(&lock),
            hex(&resource),
            if held.is_empty() { "-".into() } else { held.join(",") },
            fin,
            if after.is_empty() { "-".into() } else { after.join(",") }
        ))
    });
    let obs = match &res {
        Ok(Ok(s)) => s.clone(),
        Ok(Err(_)) => "err".to_string(),
        Err(_) => "panic".to_string(),
    };
    rep.case(&op, &obs, true);
    // ---- the property itself, on what the real code did
    rep.oracle_checked();
    let mut want_held_sorted: Vec<Vec<u8>> = vec![[name, DOT_LOCK].concat()];
    if pre {
        want_held_sorted.push(name.to_vec());
    }
    want_held_sorted.sort();
    let want_held: Vec<String> = want_held_sorted.iter().map(|n| hex(n)).collect();
    let want_after = if mode == 'c' {
        format!("{}:{}", hex(name), hex(b"new"))
    } else if pre {
        format!("{}:{}", hex(name), hex(b"old"))
    } else {
        "-".to_string()
    };
    let want = format!(
        "lock={} res={} held={} fin=ok after={}",
        hex(&expect_lock),
        hex(&p),
        want_held.join(","),
        want_after
    );
    if obs != want {
        rep.oracle_failure(
            &key,
            &format!(
                "resource {:?}: expected lock file = resource + \".lock\", resource_path() = resource, only the lock file added while held, and {} afterwards; wanted [{}] got [{}]",
                String::from_utf8_lossy(&p),
                if mode == 'c' { "exactly the resource replaced" } else { "the directory as before" },
                want,
                obs
            ),
            &op,
        );
    }
    let _ = std::fs::remove_dir_all(&root);
}

fn gen_name(r: &mut Rng) -> Vec<u8> {
    const VALID: &[&[u8]] = &[b"\xc3\xa9", b"\xe6\xbc\xa2", b"\xf0\x9f\x98\x80", b"\xc2\x80", b"\xef\xbf\xbd"];
    const INVALID: &[&[u8]] = &[
        b"\xff", b"\xfe", b"\xff\xfe", b"\xc3", b"\xe6\xbc", b"\xed\xa0\x80", b"\xc0\x80", b"\xf5", b"\x80", b"\xf0\x9f\x98", b"\xe0\x80\x80",
    ];
    fn piece(r: &mut Rng) -> Vec<u8> {
        match r.below(10) {
            0..=4 => {
                let mut v = r.over(b"abxyz019-_ ~", 5);
                if v.is_empty() {
                    v.push(b'f');
                }
                v
            }
            5 => b"lock".to_vec(),
            6 => r.pick(VALID).to_vec(),
            7 | 8 => r.pick(INVALID).to_vec(),
            _ => {
                let mut v = r.over(b"ab", 2);
                v.extend_from_slice(*r.pick(INVALID));
                v.extend(r.over(b"c", 1));
                v
            }
        }
    }
    loop {
        let mut v = Vec::new();
        match r.below(12) {
            0 => v = piece(r),
            1 => {
                v.push(b'.');
                v.extend(piece(r));
            }
            2 => {
                v = piece(r);
                v.push(b'.');
            }
            3 => {
                let n = 3 + r.usize(3);
                v = vec![b'.'; n];
            }
            4 => {
                v = piece(r);
                v.extend_from_slice(b".lock");
            }
            5 => {
                v.push(b'.');
                v.extend(piece(r));
                v.push(b'.');
                v.extend(piece(r));
            }
            6 => {
                let n = 1 + r.usize(10);
                v = r.bytes(n).into_iter().filter(|b| *b != 0 && *b != b'/').collect();
            }
            _ => {
                let n = 2 + r.usize(3);
                for i in 0..n {
                    if i > 0 {
                        v.push(b'.');
                    }
                    if !r.chance(1, 8) {
                        v.extend(piece(r));
                    }
                }
            }
        }
        if !v.is_empty() && v != b"." && v != b".." && v.len() <= 48 {
            return v;
        }
    }
}

fn gen_dir(r: &mut Rng) -> Vec<u8> {
    const COMPS: &[&[u8]] = &[b"a", b"b.c", b".d", b"e.", b"x.\xff", b"dir.lock", b"\xc3\xa9"];
    let depth = match r.below(6) {
        0 | 1 => 0,
        2 | 3 => 1,
        4 => 2,
        _ => 3,
    };
    let mut v = Vec::new();
    for _ in 0..depth {
        v.extend_from_slice(*r.pick(COMPS));
        v.push(b'/');
    }
    v
}

// -------------------------------------------------------------------------------------------- seq

enum Held {
    F(gix_lock::File),
    M(gix_lock::Marker),
}

struct HeldInfo {
    held: Held,
    resource: Vec<u8>,
    boundary: Option<Vec<u8>>,
    before: BTreeMap<Vec<u8>, Node>,
    undisturbed: bool,
    written: Vec<u8>,
}

/// component-wise normal form of a relative path spelling (`a/`, `a//b`, `./a`, `a/.` → `a`, `a/b`, `a`, `a`)
fn norm_rel(p: &[u8]) -> Vec<u8> {
    let comps: Vec<&[u8]> = p.split(|b| *b == b'/').filter(|c| !c.is_empty() && *c != b".").collect();
    comps.join(&b'/')
}

fn is_ancestor_or_self(b: &[u8], t: &[u8]) -> bool {
    b.is_empty() || t == b || (t.len() > b.len() && t.starts_with(b) && t[b.len()] == b'/')
}

fn do_seq(rep: &mut Report, sc: &Scratch, k: &mut u64, toks: &[String]) {
    *k += 1;
    let op = format!("seq {}", toks.join(" "));
    let root = sc.join(format!("s{k}"));
    std::fs::create_dir_all(&root).expect("mkdir root");
    let mut held: BTreeMap<u64, HeldInfo> = BTreeMap::new();
    let mut outs: Vec<&'static str> = Vec::new();
    let key = format!("seq {}", fnv_key(&op));
    // does some resource of the scenario coincide with the lock file of another one? (then a commit of the first
    // legitimately replaces the second's lock file; what a holder wrote is only guaranteed to arrive otherwise)
    let resources: Vec<Vec<u8>> = toks
        .iter()
        .filter_map(|t| {
            let f: Vec<&str> = t.split(':').collect();
            if f[0] == "A" || f[0] == "K" {
                unhex(f[2])
            } else {
                None
            }
        })
        .collect();
    let lock_free = !resources.iter().any(|a| resources.iter().any(|b| *a == [&b[..], DOT_LOCK].concat()));
    let fail = |rep: &mut Report, what: String| rep.oracle_failure(&key, &what, &op);
    for (ti, tok) in toks.iter().enumerate() {
        let f: Vec<&str> = tok.split(':').collect();
        let hx = |i: usize| unhex(f.get(i).copied().unwrap_or("?")).expect("hex in token");
        let out: &'static str = match f[0] {
            "F" => {
                let p = p_of(&root, &hx(1));
                std::fs::create_dir_all(p.parent().unwrap()).and_then(|_| std::fs::write(&p, hx(2))).map(|_| "ok").unwrap_or("err")
            }
            "G" => std::fs::create_dir_all(p_of(&root, &hx(1))).map(|_| "ok").unwrap_or("err"),
            "A" | "K" => {
                let h: u64 = f[1].parse().expect("handle");
                let rel = hx(2);
                let boundary_raw = if f[3] == "n" { None } else { Some(hx(3)) };
                let boundary = boundary_raw.as_ref().map(|b| norm_rel(b));
                let before = snapshot(&root);
                for v in held.values_mut() {
                    v.undisturbed = false;
                }
                // the spelling is handed to the library as it is: `root/a/`, `root/a//b`, `root/./a`, `root/.`
                let babs = boundary_raw.as_ref().map(|b| {
                    if b.is_empty() {
                        root.clone()
                    } else {
                        let mut v = root.as_os_str().as_bytes().to_vec();
                        v.push(b'/');
                        v.extend_from_slice(b);
                        PathBuf::from(OsStr::from_bytes(&v))
                    }
                });
                let abs = p_of(&root, &rel);
                let r = catch(|| {
                    if f[0] == "A" {
                        gix_lock::File::acquire_to_update_resource(&abs, Fail::Immediately, babs).map(Held::F)
                    } else {
                        gix_lock::Marker::acquire_to_hold_resource(&abs, Fail::Immediately, babs).map(Held::M)
                    }
                });
                match r {
                    Err(_) => "panic",
                    Ok(Err(gix_lock::acquire::Error::PermanentlyLocked { .. })) => "locked",
                    Ok(Err(_)) => "err",
                    Ok(Ok(hd)) => {
                        rep.oracle_checked();
                        if let Some(other) = held.values().find(|v| v.resource == rel) {
                            let _ = other;
                            fail(rep, format!("token {ti}: second holder acquired the lock of resource {} while it was held", hex(&rel)));
                        }
                        let mut want = rel.clone();
                        want.extend_from_slice(DOT_LOCK);
                        let got = match &hd {
                            Held::F(x) => rel_of(&root, x.lock_path()),
                            Held::M(x) => rel_of(&root, x.lock_path()),
                        };
                        if got != want || !p_of(&root, &want).is_file() {
                            fail(rep, format!("token {ti}: lock of {} is at {} (expected {}, which must exist)", hex(&rel), hex(&got), hex(&want)));
                        }
                        held.insert(h, HeldInfo { held: hd, resource: rel, boundary, before, undisturbed: true, written: vec![] });
                        "ok"
                    }
                }
            }
            "W" => {
                let h: u64 = f[1].parse().expect("handle");
                let c = hx(2);
                for (oh, v) in held.iter_mut() {
                    if *oh != h {
                        v.undisturbed = false;
                    }
                }
                match held.get_mut(&h) {
                    Some(HeldInfo { held: Held::F(file), written, .. }) => match file.with_mut(|o| o.write_all(&c)) {
                        Ok(()) => {
                            written.extend_from_slice(&c);
                            "ok"
                        }
                        Err(_) => "err",
                    },
                    _ => "nohandle",
                }
            }
            "X" => {
                let h: u64 = f[1].parse().expect("handle");
                match held.remove(&h) {
                    Some(HeldInfo { held: Held::F(file), resource, boundary, before, undisturbed, written }) => match file.close() {
                        Ok(m) => {
                            held.insert(h, HeldInfo { held: Held::M(m), resource, boundary, before, undisturbed, written });
                            "ok"
                        }
                        Err(_) => "err",
                    },
                    Some(other) => {
                        held.insert(h, other);
                        "nohandle"
                    }
                    None => "nohandle",
                }
            }
            "C" => {
                let h: u64 = f[1].parse().expect("handle");
                match held.remove(&h) {
                    None => "nohandle",
                    Some(info) => {
                        let pre = snapshot(&root);
                        for v in held.values_mut() {
                            v.undisturbed = false;
                        }
                        let HeldInfo { held: hd, resource, boundary, before, written, .. } = info;
                        let r = match hd {
                            Held::F(file) => file.commit().map(|_| ()).map_err(|e| Held::F(e.instance)),
                            Held::M(m) => m.commit().map(|_| ()).map_err(|e| Held::M(e.instance)),
                        };
                        match r {
                            Ok(()) => {
                                // commit_replaces_exactly, on the real tree
                                rep.oracle_checked();
                                let post = snapshot(&root);
                                let mut want = pre.clone();
                                let mut lock = resource.clone();
                                lock.extend_from_slice(DOT_LOCK);
                                let lock_content = want.remove(&lock);
                                if let Some(n) = lock_content.clone() {
                                    want.insert(resource.clone(), n);
                                }
                                if want != post || (lock_free && lock_content != Some(Node::File(written.clone()))) {
                                    fail(
                                        rep,
                                        format!(
                                            "token {ti}: commit of {} must move the lock file (holding what was written, {}) onto exactly that resource and change nothing else; before [{}] after [{}]",
                                            hex(&resource),
                                            hex(&written),
                                            listing(&pre, false),
                                            listing(&post, false)
                                        ),
                                    );
                                }
                                "ok"
                            }
                            Err(back) => {
                                held.insert(h, HeldInfo { held: back, resource, boundary, before, undisturbed: false, written });
                                "err"
                            }
                        }
                    }
                }
            }
            "D" => {
                let h: u64 = f[1].parse().expect("handle");
                match held.remove(&h) {
                    None => "nohandle",
                    Some(info) => {
                        for v in held.values_mut() {
                            v.undisturbed = false;
                        }
                        let pre = snapshot(&root);
                        let HeldInfo { held: hd, resource, boundary, before, undisturbed, .. } = info;
                        drop(hd);
                        rep.oracle_checked();
                        if !root.is_dir() {
                            fail(rep, format!("token {ti}: dropping the lock of {} removed the directory above the boundary ({:?}) — the scenario root itself is gone", hex(&resource), boundary.as_ref().map(|b| hex(b))));
                            let _ = std::fs::create_dir_all(&root);
                        }
                        if let Some(b) = &boundary {
                            if pre.get(b) == Some(&Node::Dir) && !p_of(&root, b).is_dir() {
                                fail(rep, format!("token {ti}: dropping the lock of {} removed the boundary directory {} itself", hex(&resource), hex(b)));
                            }
                        }
                        let post = snapshot(&root);
                        let mut lock = resource.clone();
                        lock.extend_from_slice(DOT_LOCK);
                        // files: nothing but the lock file changes, ever
                        let files = |s: &BTreeMap<Vec<u8>, Node>| -> BTreeMap<Vec<u8>, Node> {
                            s.iter().filter(|(_, n)| **n != Node::Dir).map(|(k, v)| (k.clone(), v.clone())).collect()
                        };
                        let mut want_files = files(&pre);
                        want_files.remove(&lock);
                        if files(&post) != want_files {
                            fail(rep, format!("token {ti}: drop of the lock of {} changed files other than the lock file: before [{}] after [{}]", hex(&resource), listing(&pre, true), listing(&post, true)));
                        }
                        // directories: none appears; one disappears only if it was empty, lies on the way from the
                        // lock's directory up to (excluding) the boundary
                        let dirs = |s: &BTreeMap<Vec<u8>, Node>| -> BTreeSet<Vec<u8>> { s.iter().filter(|(_, n)| **n == Node::Dir).map(|(k, _)| k.clone()).collect() };
                        let (dpre, dpost) = (dirs(&pre), dirs(&post));
                        let lockdir = parent_rel(&lock);
                        for d in dpost.difference(&dpre) {
                            fail(rep, format!("token {ti}: directory {} appeared during drop", hex(d)));
                        }
                        for d in dpre.difference(&dpost) {
                            let on_chain = is_ancestor_or_self(d, &lockdir);
                            let below_boundary = match &boundary {
                                None => false,
                                Some(b) => is_ancestor_or_self(b, d) && d != b,
                            };
                            let has_other_children = post.keys().any(|q| q != d && is_ancestor_or_self(d, q));
                            if !on_chain || !below_boundary || has_other_children {
                                fail(rep, format!("token {ti}: drop removed directory {} (boundary {:?}, lock dir {})", hex(d), boundary.as_ref().map(|b| hex(b)), hex(&lockdir)));
                            }
                        }
                        if undisturbed {
                            // drop_restores: everything as before the acquire, except that directories which were
                            // already empty below the boundary may be gone too
                            let fb = files(&before);
                            if fb != files(&post) {
                                fail(rep, format!("token {ti}: acquire+drop of {} did not leave the files as they were: before [{}] after [{}]", hex(&resource), listing(&before, true), listing(&post, true)));
                            }
                            let db = dirs(&before);
                            for d in dpost.difference(&db) {
                                let below = match &boundary {
                                    Some(b) => is_ancestor_or_self(b, &lockdir) && is_ancestor_or_self(b, d) && d != b,
                                    None => true,
                                };
                                if below {
                                    fail(rep, format!("token {ti}: directory {} created for the lock of {} below the boundary survived the drop", hex(d), hex(&resource)));
                                }
                            }
                            for d in db.difference(&dpost) {
                                let was_empty = !before.iter().any(|(q, n)| q != d && is_ancestor_or_self(d, q) && (*n != Node::Dir || dpost.contains(q)));
                                if !was_empty {
                                    fail(rep, format!("token {ti}: non-empty directory {} vanished across acquire+drop", hex(d)));
                                }
                            }
                        }
                        "ok"
                    }
                }
            }
            _ => "bad-token",
        };
        outs.push(out);
    }
    // whatever is still held is dropped in handle order
    while let Some((_, v)) = held.pop_first() {
        drop(v);
    }
    let fin = snapshot(&root);
    let obs = format!("{}|{}", outs.join(","), listing(&fin, false));
    rep.case(&op, &obs, toks.len() > 2);
    for o in &outs {
        rep.bucket(&format!("seq:out:{o}"));
    }
    let _ = std::fs::remove_dir_all(&root);
}

fn fnv_key(s: &str) -> String {
    let mut h: u64 = 0xcbf29ce484222325;
    for b in s.bytes() {
        h ^= b as u64;
        h = h.wrapping_mul(0x100000001b3);
    }
    format!("{h:016x}")
}

fn gen_seq(r: &mut Rng) -> Vec<String> {
    const COMPS: &[&[u8]] = &[b"a", b"b.c", b".d", b"e."];
    const NAMES: &[&[u8]] = &[b"r", b"r.x", b"r.lock", b"s.\xff\xfe", b"t.", b".u", b"r.x.lock", b"\xc3\xa9.\xe6\xbc\xa2"];
    let gen_dirpath = |r: &mut Rng| -> Vec<u8> {
        let depth = r.usize(4);
        let mut v: Vec<u8> = Vec::new();
        for i in 0..depth {
            if i > 0 {
                v.push(b'/');
            }
            v.extend_from_slice(*r.pick(COMPS));
        }
        v
    };
    // a small pool so that paths collide
    let npool = 2 + r.usize(3);
    let pool: Vec<Vec<u8>> = (0..npool)
        .map(|_| {
            let mut d = gen_dirpath(r);
            if !d.is_empty() {
                d.push(b'/');
            }
            d.extend_from_slice(*r.pick(NAMES));
            d
        })
        .collect();
    let mut toks = Vec::new();
    // setup
    for _ in 0..r.usize(4) {
        if r.chance(1, 2) {
            let p = r.pick(&pool).clone();
            let c = r.over(b"old", 3);
            toks.push(format!("F:{}:{}", hex(&p), hex(&c)));
        } else {
            let mut d = gen_dirpath(r);
            if d.is_empty() {
                d = b"a".to_vec();
            }
            // sometimes a directory where a resource or its lock would live
            if r.chance(1, 6) {
                d = r.pick(&pool).clone();
                if r.chance(1, 2) {
                    d.extend_from_slice(DOT_LOCK);
                }
            }
            toks.push(format!("G:{}", hex(&d)));
        }
    }
    let mut live: Vec<(u64, bool)> = Vec::new(); // (handle, is_file)
    let mut next_h = 1u64;
    let n = 1 + r.usize(9);
    for _ in 0..n {
        match r.below(10) {
            0..=3 => {
                let p = r.pick(&pool).clone();
                let parent = parent_rel(&p);
                let b = match r.below(6) {
                    0 | 1 => "n".to_string(),
                    2 => hex(b""),
                    3 => hex(&parent),
                    4 => {
                        // some ancestor
                        let mut anc = parent.clone();
                        for _ in 0..r.usize(3) {
                            anc = parent_rel(&anc);
                        }
                        hex(&anc)
                    }
                    _ => hex(b"a"),
                };
                // the boundary directory may be spelled in a non-normalised way
                let b = if b != "n" && r.chance(1, 3) {
                    let nb = unhex(&b).unwrap_or_default();
                    let v: Vec<u8> = if nb.is_empty() {
                        r.pick(&[&b"."[..], b"./", b"./."]).to_vec()
                    } else {
                        match r.below(5) {
                            0 | 1 => [&nb[..], b"/"].concat(),
                            2 => [b"./", &nb[..]].concat(),
                            3 => [&nb[..], b"/."].concat(),
                            _ => {
                                let mut v = Vec::new();
                                for c in &nb {
                                    v.push(*c);
                                    if *c == b'/' {
                                        v.push(b'/');
                                    }
                                }
                                v.extend_from_slice(b"//");
                                v
                            }
                        }
                    };
                    hex(&v)
                } else {
                    b
                };
                let kind = if r.chance(4, 5) { "A" } else { "K" };
                toks.push(format!("{kind}:{next_h}:{}:{b}", hex(&p)));
                live.push((next_h, kind == "A"));
                next_h += 1;
            }
            4 | 5 => {
                if let Some((h, _)) = live.last().copied().or(None) {
                    let h = if r.chance(1, 2) { h } else { live[r.usize(live.len())].0 };
                    toks.push(format!("W:{h}:{}", hex(&r.over(b"new1", 4))));
                }
            }
            6 => {
                if !live.is_empty() {
                    let h = live[r.usize(live.len())].0;
                    toks.push(format!("X:{h}"));
                }
            }
            7 | 8 => {
                if !live.is_empty() {
                    let i = r.usize(live.len());
                    toks.push(format!("C:{}", live[i].0));
                    if r.chance(4, 5) {
                        live.remove(i);
                    }
                }
            }
            _ => {
                if !live.is_empty() {
                    let i = r.usize(live.len());
                    toks.push(format!("D:{}", live.remove(i).0));
                }
            }
        }
    }
    // mostly release everything explicitly (so that drop effects are observed in order)
    if r.chance(3, 4) {
        while let Some((h, _)) = live.pop() {
            toks.push(format!("D:{h}"));
        }
    }
    toks
}

// ------------------------------------------------------------------------------------------- race

const RACE_RES: &[&[u8]] = &[b"r0", b"sub/r1.x", b"sub/deep/r2.\xff\xfe"];

fn log_event(log: &mut std::fs::File, line: String) {
    // one write(2) per event on an O_APPEND descriptor: the kernel orders the appends of all threads and processes
    let _ = log.write_all(line.as_bytes());
}

/// one worker: `iters` attempts on random resources. Events are logged AFTER an acquisition returned and BEFORE a
/// release (commit/drop) is started, so that in log order the holding intervals of a correct lock never overlap.
fn race_worker(root: &Path, logpath: &Path, worker: u64, seed: u64, iters: u64) -> (u64, u64, u64, Vec<String>) {
    let mut log = std::fs::OpenOptions::new().append(true).open(logpath).expect("open race log");
    let mut r = Rng::new(seed ^ (worker.wrapping_mul(0x9E3779B97F4A7C15)));
    let (mut ok, mut locked, mut ioerr) = (0u64, 0u64, 0u64);
    let mut problems = Vec::new();
    for i in 0..iters {
        let ri = r.usize(RACE_RES.len());
        let abs = p_of(root, RACE_RES[ri]);
        let mode = if r.chance(1, 4) {
            Fail::AfterDurationWithBackoff(std::time::Duration::from_millis(2))
        } else {
            Fail::Immediately
        };
        let h = worker * 1_000_000 + i;
        match gix_lock::File::acquire_to_update_resource(&abs, mode, Some(root.to_path_buf())) {
            Ok(mut f) => {
                ok += 1;
                log_event(&mut log, format!("A:{h}:{ri}\n"));
                // non-atomic read-modify-write of the counter kept in the resource: lost updates = broken exclusion
                let cur: u64 = std::fs::read(&abs).ok().and_then(|b| String::from_utf8(b).ok()).and_then(|s| s.trim().parse().ok()).unwrap_or(0);
                if r.chance(1, 3) {
                    std::thread::yield_now();
                }
                if r.chance(1, 16) {
                    std::thread::sleep(std::time::Duration::from_micros(r.below(300)));
                }
                if r.chance(7, 10) {
                    let content = format!("{}", cur + 1);
                    if f.with_mut(|o| o.write_all(content.as_bytes())).is_err() {
                        problems.push(format!("write failed for holder {h}"));
                    }
                    log_event(&mut log, format!("C:{h}:{}\n", hex(content.as_bytes())));
                    if let Err(e) = f.commit() {
                        problems.push(format!("commit failed for holder {h}: {}", e.error));
                    }
                } else {
                    log_event(&mut log, format!("D:{h}\n"));
                    drop(f);
                }
            }
            Err(gix_lock::acquire::Error::PermanentlyLocked { .. }) => locked += 1,
            Err(_) => ioerr += 1,
        }
    }
    (ok, locked, ioerr, problems)
}

fn race_child_main(a: &[String]) -> ! {
    // --race-child <root> <log> <worker> <seed> <iters> <threads>
    let root = PathBuf::from(&a[0]);
    let log = PathBuf::from(&a[1]);
    let worker: u64 = a[2].parse().unwrap();
    let seed: u64 = a[3].parse().unwrap();
    let iters: u64 = a[4].parse().unwrap();
    let threads: u64 = a[5].parse().unwrap();
    let hs: Vec<_> = (0..threads)
        .map(|t| {
            let (root, log) = (root.clone(), log.clone());
            std::thread::spawn(move || race_worker(&root, &log, worker * 10 + t, seed, iters))
        })
        .collect();
    let mut tot = (0, 0, 0);
    let mut problems = Vec::new();
    for h in hs {
        let (a, b, c, p) = h.join().expect("worker thread");
        tot = (tot.0 + a, tot.1 + b, tot.2 + c);
        problems.extend(p);
    }
    println!("{} {} {}", tot.0, tot.1, tot.2);
    for p in problems {
        println!("problem {p}");
    }
    std::process::exit(0)
}

fn do_race(rep: &mut Report, sc: &Scratch, k: &mut u64, seed: u64, threads: u64, procs: u64, iters: u64) {
    *k += 1;
    let root = sc.join(format!("race{k}"));
    std::fs::create_dir_all(&root).expect("mkdir race root");
    let logpath = sc.join(format!("race{k}.log"));
    std::fs::write(&logpath, b"").expect("create log");
    let exe = std::env::current_exe().expect("current exe");
    let children: Vec<_> = (0..procs)
        .map(|p| {
            std::process::Command::new(&exe)
                .arg("--race-child")
                .arg(&root)
                .arg(&logpath)
                .arg(format!("{}", 100 + p))
                .arg(format!("{seed}"))
                .arg(format!("{iters}"))
                .arg("2")
                .stdout(std::process::Stdio::piped())
                .spawn()
                .expect("spawn race child")
        })
        .collect();
    let hs: Vec<_> = (0..threads)
        .map(|t| {
            let (root, log) = (root.clone(), logpath.clone());
            std::thread::spawn(move || race_worker(&root, &log, t + 1, seed, iters))
        })
        .collect();
    let mut tot = (0u64, 0u64, 0u64);
    let mut problems: Vec<String> = Vec::new();
    for h in hs {
        let (a, b, c, p) = h.join().expect("race thread");
        tot = (tot.0 + a, tot.1 + b, tot.2 + c);
        problems.extend(p);
    }
    for c in children {
        let out = c.wait_with_output().expect("wait child");
        let s = String::from_utf8_lossy(&out.stdout).to_string();
        let mut lines = s.lines();
        let v: Vec<u64> = lines.next().unwrap_or("").split(' ').filter_map(|x| x.parse().ok()).collect();
        if v.len() == 3 && out.status.success() {
            tot = (tot.0 + v[0], tot.1 + v[1], tot.2 + v[2]);
        } else {
            problems.push(format!("race child failed: {:?} {s}", out.status));
        }
        for l in lines {
            problems.push(l.to_string());
        }
    }
    let mut logtxt = String::new();
    std::fs::File::open(&logpath).and_then(|mut f| f.read_to_string(&mut logtxt)).expect("read log");
    let events: Vec<&str> = logtxt.lines().collect();
    let fin = snapshot(&root);
    let mut op = format!("race {}", RACE_RES.len());
    for p in RACE_RES {
        op.push(' ');
        op.push_str(&hex(p));
    }
    for e in &events {
        op.push(' ');
        op.push_str(e);
    }
    rep.case(&op, &format!("legal files={}", listing(&fin, true)), true);
    rep.bucket("race:round");
    rep.note(&format!(
        "race round {k}: {threads} threads + {procs} processes x2 threads, {} events logged: {} acquisitions, {} refused (locked), {} io errors (directory vanished under a concurrent rollback)",
        events.len(),
        tot.0,
        tot.1,
        tot.2
    ));
    // ---- the property on the real run, independent of the model
    rep.oracle_checked();
    let key = "race";
    let mut holder: BTreeMap<usize, u64> = BTreeMap::new(); // resource -> holder
    let mut res_of: BTreeMap<u64, usize> = BTreeMap::new();
    let mut commits: BTreeMap<usize, u64> = BTreeMap::new();
    let mut last: BTreeMap<usize, Vec<u8>> = BTreeMap::new();
    for (i, e) in events.iter().enumerate() {
        let f: Vec<&str> = e.split(':').collect();
        let h: u64 = f.get(1).and_then(|x| x.parse().ok()).unwrap_or(0);
        match f[0] {
            "A" => {
                let ri: usize = f[2].parse().unwrap_or(99);
                if let Some(o) = holder.get(&ri) {
                    rep.oracle_failure(key, &format!("event {i}: holder {h} acquired the lock of {} while holder {o} had not released it (threads/processes race)", hex(RACE_RES[ri.min(2)])), &op);
                }
                holder.insert(ri, h);
                res_of.insert(h, ri);
            }
            "C" | "D" => {
                if let Some(ri) = res_of.remove(&h) {
                    if holder.get(&ri) == Some(&h) {
                        holder.remove(&ri);
                    }
                    if f[0] == "C" {
                        *commits.entry(ri).or_insert(0) += 1;
                        last.insert(ri, unhex(f[2]).unwrap_or_default());
                    }
                } else {
                    rep.oracle_failure(key, &format!("event {i}: release by {h} which holds nothing"), &op);
                }
            }
            _ => rep.oracle_failure(key, &format!("event {i}: torn log line {e:?}"), &op),
        }
    }
    for (ri, p) in RACE_RES.iter().enumerate() {
        let n = commits.get(&ri).copied().unwrap_or(0);
        let got = match fin.get(&p.to_vec()) {
            Some(Node::File(c)) => String::from_utf8_lossy(c).parse::<u64>().ok(),
            None if n == 0 => Some(0),
            _ => None,
        };
        if got != Some(n) {
            rep.oracle_failure(key, &format!("resource {}: {} commits happened under the lock but the counter kept in the resource reads {:?} (lost update = two holders at once)", hex(p), n, got), &op);
        }
    }
    if fin.keys().any(|p| p.ends_with(DOT_LOCK)) {
        rep.oracle_failure(key, &format!("a lock file is left behind after all holders finished: {}", listing(&fin, true)), &op);
    }
    if tot.0 != events.iter().filter(|e| e.starts_with("A:")).count() as u64 {
        problems.push("acquisition count differs from the log".into());
    }
    for p in problems {
        rep.oracle_failure(key, &p, &op);
    }
    if tot.1 == 0 {
        rep.note("race: no contention observed in this round");
    }
    let _ = std::fs::remove_dir_all(&root);
    let _ = std::fs::remove_file(&logpath);
}

// ------------------------------------------------------------------------------------------- main

fn replay(rep: &mut Report, sc: &Scratch, k: &mut u64, ops: &[String], seed: u64) {
    for op in ops {
        let a: Vec<&str> = op.split(' ').collect();
        match a[0] {
            "lossy" if a.len() == 2 => do_lossy(rep, &unhex(a[1]).unwrap_or_default()),
            "name" if a.len() == 5 => do_name(
                rep,
                sc,
                k,
                &unhex(a[1]).unwrap_or_default(),
                &unhex(a[2]).unwrap_or_default(),
                a[3].chars().next().unwrap_or('c'),
                a[4] == "1",
            ),
            "seq" => {
                let toks: Vec<String> = a[1..].iter().map(|s| s.to_string()).collect();
                do_seq(rep, sc, k, &toks)
            }
            "race" => do_race(rep, sc, k, seed, 8, 4, 150),
            _ => rep.note(&format!("replay: unknown op {}", a[0])),
        }
    }
}

fn main() {
    let raw: Vec<String> = std::env::args().collect();
    if raw.get(1).map(|s| s.as_str()) == Some("--race-child") {
        race_child_main(&raw[2..]);
    }
    let args = Args::parse();
    let mut rep = Report::new("C22", &args);
    let mut r = Rng::new(args.seed);
    let sc = Scratch::new("c22");
    let mut k = 0u64;
    if let Some(ops) = replay_ops(&args) {
        replay(&mut rep, &sc, &mut k, &ops, args.seed);
        rep.finish();
        return;
    }
    // ---- deterministic corpus: the boundary names of the plan
    let corpus: &[&[u8]] = &[
        b"hello", b"hello.ext", b".hidden", b".hidden.ext", b"trailing.", b"a.b.c", b"...", b"....", b"..a", b"a..", b"a..b", b"lock", b".lock", b"x.lock",
        b"x.lock.lock", b"x.\xc3\xa9", b"\xc3\xa9.x", b"x.\xff\xfe", b"x.\xfe\xff", b"\xff\xfe.x", b"\xff", b"x.\xc3", b"x.\xe6\xbc", b"x.\xed\xa0\x80", b"x.a\xffb", b"x.\xf0\x9f\x98\x80",
        b"x.\xf0\x9f\x98", b" ", b"a b.c d", b"~", b"-", b"x.\x80", b"x.\xc0\x80",
    ];
    for name in corpus {
        for (dir, mode, pre) in [(&b""[..], 'c', true), (&b"b.c/"[..], 'd', true), (&b"x.\xff/.d/"[..], 'c', false)] {
            do_name(&mut rep, &sc, &mut k, dir, name, mode, pre);
        }
    }
    for bs in [&b""[..], b"a", b"\xff", b"\xc3\xa9", b"\xc3", b"\xe6\xbc", b"\xe6\xbc\xa2", b"\xed\xa0\x80", b"\xf0\x9f\x98\x80", b"\xf0\x9f\x98", b"\xf4\x90\x80\x80", b"\xe0\x80\x80", b"a\xffb", b"\xc0\x80", b"\xf0\x80\x80\x80", b"\xe6\xbc\x41"] {
        do_lossy(&mut rep, bs);
    }
    let fixed_seqs: &[&str] = &[
        // acquire+drop below a boundary restores the tree, directories included
        "A:1:612f622e632f72:- D:1",
        // second acquisition of a held resource is refused; commit publishes; re-acquire works
        "F:72:6f6c64 A:1:72:n A:2:72:n W:1:6e6577 C:1 A:3:72:n D:3",
        // a marker cannot be committed, a closed file can
        "K:1:72:n C:1 D:1 A:2:72:n W:2:78 X:2 C:2",
        // commit onto a directory fails and keeps the lock
        "G:72 A:1:72:n C:1 A:2:72:n D:1",
        // the boundary itself and an unrelated sibling with content stay
        "F:612f6b656570:78 A:1:612f622f63:61 D:1",
        // pre-existing empty directories below the boundary go as well
        "G:612f62 A:1:612f622f63:- D:1",
        // resource whose name is another resource's lock
        "A:1:72:n A:2:722e6c6f636b:n W:2:79 C:2 W:1:7a C:1",
        // boundary not containing the lock directory: nothing is removed
        "A:1:622e632f72:61 D:1",
        // boundary spelled `a/`, `./a`, `a//`, `a/.` and the scenario root spelled `.`: it stays, and so does everything above
        "A:1:612f622f72:612f D:1",
        "A:1:612f622f632f72:2e2f61 D:1",
        "A:1:612f622f72:612f2f D:1",
        "A:1:612f622f72:612f2e W:1:78 D:1",
        "A:1:612f72:2e D:1",
        "G:61 A:1:612f622f632f72:612f2f622f D:1",
    ];
    for s in fixed_seqs {
        let toks: Vec<String> = s.split(' ').map(|x| x.to_string()).collect();
        do_seq(&mut rep, &sc, &mut k, &toks);
    }
    // ---- random part
    let n = args.budget(1_500, 40_000);
    for _ in 0..n {
        match r.below(10) {
            0..=3 => {
                let dir = gen_dir(&mut r);
                let name = gen_name(&mut r);
                let mode = if r.chance(1, 2) { 'c' } else { 'd' };
                let pre = r.chance(1, 2);
                do_name(&mut rep, &sc, &mut k, &dir, &name, mode, pre);
            }
            4 | 5 => {
                let n = r.usize(9);
                let mut bs = Vec::new();
                for _ in 0..n {
                    match r.below(6) {
                        0 => bs.push(r.byte()),
                        1 => bs.extend_from_slice(*r.pick(&[&b"\xc3\xa9"[..], b"\xe6\xbc\xa2", b"\xf0\x9f\x98\x80", b"\xed\x9f\xbf", b"\xf4\x8f\xbf\xbf"])),
                        2 => bs.push(*r.pick(&[0x80u8, 0xbf, 0xc0, 0xc1, 0xc2, 0xdf, 0xe0, 0xed, 0xef, 0xf0, 0xf4, 0xf5, 0xff, 0xa0, 0x9f, 0x90, 0x8f])),
                        _ => bs.push(b'a' + r.below(3) as u8),
                    }
                }
                do_lossy(&mut rep, &bs);
            }
            _ => {
                let toks = gen_seq(&mut r);
                if !toks.is_empty() {
                    do_seq(&mut rep, &sc, &mut k, &toks);
                }
            }
        }
    }
    // ---- the race: 8 threads + 4 child processes (2 threads each) on 3 resources
    let rounds = args.budget(2, 12);
    for i in 0..rounds {
        do_race(&mut rep, &sc, &mut k, args.seed.wrapping_add(i), 8, 4, if args.thorough { 400 } else { 150 });
    }
    let _ = std::io::stdout().flush();
    let _ = std::fs::File::open("/dev/null").map(|mut f| f.seek(std::io::SeekFrom::Start(0)));
    rep.finish();
}
