//! C56 — streaming compression and hashing do not depend on chunking.
//!
//! Correspondence ops (same line goes to the Lean driver `drv_C56`, which runs the same loops over a
//! stored-block codec and a full SHA-1):
//!   deflate <data> <sizes>                 real `deflate::Write` into a Vec: every `write` return value, `flush`,
//!                                          then the output inflated by the real `inflate::read`
//!   deflatesw <data> <sizes> <maxwrite>    the same over an inner writer that accepts only 1..maxwrite bytes per call
//!   hash <kind> <data> <sizes> <maxwrite>  `compute_hash`, `compute_stream_hash`, `hash::Write` (+ `write_all`)
//!   streamhash <kind> <declared> <data>    `compute_stream_hash` with a declared length that may be wrong
//!   once <zhex> <cap>                      `Inflate::once` on a stored-block stream (flate2 level 0) or a damaged one
//!   read <zhex> <chunks> <dstlen>          `inflate::read` over a chunked `BufRead`
//! <data> is hex or `g<mode>:<seed>:<len>` (a generator both sides implement).
//!
//! Oracle pass (independent of the Lean model): inflate(deflate-writer output) == concatenated input for the
//! real inflater in several chunkings and for python's zlib; the three ways of hashing agree with each other
//! and with `git hash-object`; plus checks of the assumed flate2 contract clauses on the real (de)compressor.
use gix_features::zlib;
use hcommon::*;
use std::io::{BufRead, Read, Write};
use std::sync::atomic::AtomicBool;

fn gen_bytes(mode: u8, seed: u64, n: usize) -> Vec<u8> {
    let mut x = seed;
    let mut out = Vec::with_capacity(n);
    for i in 0..n {
        x = x.wrapping_mul(6364136223846793005).wrapping_add(1442695040888963407);
        let b = match mode {
            0 => (x >> 56) as u8,
            1 => {
                if i % 13 == 12 {
                    (x >> 56) as u8
                } else {
                    97 + (i % 7) as u8
                }
            }
            _ => 0,
        };
        out.push(b);
    }
    out
}

fn parse_data(tok: &str) -> Option<Vec<u8>> {
    let parts: Vec<&str> = tok.split(':').collect();
    match parts.as_slice() {
        [g, seed, len] if ["g0", "g1", "g2"].contains(g) => {
            Some(gen_bytes(g.as_bytes()[1] - b'0', seed.parse().ok()?, len.parse().ok()?))
        }
        [h] => unhex(h),
        _ => None,
    }
}

fn parse_nats(tok: &str) -> Option<Vec<usize>> {
    if tok == "-" {
        return Some(vec![]);
    }
    tok.split(',').map(|s| s.parse().ok()).collect()
}

fn show_nats(v: &[usize]) -> String {
    if v.is_empty() {
        "-".into()
    } else {
        v.iter().map(|n| n.to_string()).collect::<Vec<_>>().join(",")
    }
}

/// same cutting rule as the Lean driver's `splitBy`
fn split_by<'a>(sizes: &[usize], mut data: &'a [u8]) -> Vec<&'a [u8]> {
    let mut out = Vec::new();
    for &n in sizes {
        let k = n.min(data.len());
        out.push(&data[..k]);
        data = &data[k..];
    }
    if !data.is_empty() {
        out.push(data);
    }
    out
}

fn parse_kind(s: &str) -> Option<gix_object::Kind> {
    gix_object::Kind::from_bytes(s.as_bytes()).ok()
}

fn sha1_hex(bs: &[u8]) -> String {
    let mut h = gix_features::hash::hasher(gix_hash::Kind::Sha1);
    h.update(bs);
    hex(&h.digest())
}

/// a writer that accepts at most `max` bytes per call (0 = everything)
struct Sink {
    max: usize,
    data: Vec<u8>,
}
impl Write for Sink {
    fn write(&mut self, buf: &[u8]) -> std::io::Result<usize> {
        let n = if self.max == 0 { buf.len() } else { self.max.min(buf.len()) };
        self.data.extend_from_slice(&buf[..n]);
        Ok(n)
    }
    fn flush(&mut self) -> std::io::Result<()> {
        Ok(())
    }
}

/// the inner writer of `deflate::Write` in the tests: accepts between 1 and `max` bytes per call in a varying
/// pattern (`max == 0`: everything), and `Ok(0)` on call number `zero_at`
struct PatSink {
    max: usize,
    zero_at: Option<usize>,
    calls: usize,
    data: Vec<u8>,
}
impl Write for PatSink {
    fn write(&mut self, buf: &[u8]) -> std::io::Result<usize> {
        let call = self.calls;
        self.calls += 1;
        if self.zero_at == Some(call) {
            return Ok(0);
        }
        let n = if self.max == 0 { buf.len() } else { (1 + call.wrapping_mul(2654435761) % self.max).min(buf.len()) };
        self.data.extend_from_slice(&buf[..n]);
        Ok(n)
    }
    fn flush(&mut self) -> std::io::Result<()> {
        Ok(())
    }
}

/// a reader that hands out at most `sizes[i % len]` (min 1) bytes per `read`
struct ShortReader<'a> {
    data: &'a [u8],
    sizes: Vec<usize>,
    i: usize,
}
impl Read for ShortReader<'_> {
    fn read(&mut self, buf: &mut [u8]) -> std::io::Result<usize> {
        let lim = if self.sizes.is_empty() { usize::MAX } else { self.sizes[self.i % self.sizes.len()].max(1) };
        self.i += 1;
        let n = lim.min(buf.len()).min(self.data.len());
        buf[..n].copy_from_slice(&self.data[..n]);
        self.data = &self.data[n..];
        Ok(n)
    }
}

/// a `BufRead` whose `fill_buf` returns the given chunks one after the other
struct Chunked {
    chunks: Vec<Vec<u8>>,
    idx: usize,
    pos: usize,
}
impl Chunked {
    fn new(chunks: Vec<Vec<u8>>) -> Self {
        Chunked { chunks: chunks.into_iter().filter(|c| !c.is_empty()).collect(), idx: 0, pos: 0 }
    }
}
impl Read for Chunked {
    fn read(&mut self, _buf: &mut [u8]) -> std::io::Result<usize> {
        unimplemented!("only BufRead is used")
    }
}
impl BufRead for Chunked {
    fn fill_buf(&mut self) -> std::io::Result<&[u8]> {
        if self.idx >= self.chunks.len() {
            return Ok(&[]);
        }
        Ok(&self.chunks[self.idx][self.pos..])
    }
    fn consume(&mut self, amt: usize) {
        if self.idx >= self.chunks.len() {
            assert_eq!(amt, 0, "consume past the end");
            return;
        }
        let left = self.chunks[self.idx].len() - self.pos;
        assert!(amt <= left, "consume more than the buffer holds");
        self.pos += amt;
        if self.pos == self.chunks[self.idx].len() {
            self.idx += 1;
            self.pos = 0;
        }
    }
}

fn level0(data: &[u8]) -> Vec<u8> {
    let mut c = flate2::Compress::new(flate2::Compression::none(), true);
    let mut out = vec![0u8; data.len() + data.len() / 1000 * 10 + 256];
    let st = c.compress(data, &mut out, flate2::FlushCompress::Finish).expect("level 0 compress");
    assert_eq!(st, flate2::Status::StreamEnd);
    out.truncate(c.total_out() as usize);
    out
}

struct DeflateRun {
    rets: Vec<usize>,
    failed_write: bool,
    flush_ok: bool,
    out: Vec<u8>,
}

/// drive the real `deflate::Write` exactly like the Lean driver's `driveWrites`; `Err("hang")` when it does not
/// come back within the deadline (the worker thread is abandoned, the run is cut short afterwards)
fn run_deflate(pieces: &[&[u8]]) -> Result<DeflateRun, String> {
    run_deflate_inner(pieces, 0, None)
}

/// … with an inner writer that accepts at most `max` bytes per call (0: all) and nothing at all on call `zero_at`
fn run_deflate_inner(pieces: &[&[u8]], max: usize, zero_at: Option<usize>) -> Result<DeflateRun, String> {
    let owned: Vec<Vec<u8>> = pieces.iter().map(|p| p.to_vec()).collect();
    let res = with_deadline(std::time::Duration::from_secs(45), move || {
        let mut w = zlib::stream::deflate::Write::new(PatSink { max, zero_at, calls: 0, data: Vec::new() });
        let mut rets = Vec::new();
        let mut failed = false;
        'outer: for piece in &owned {
            let mut rest: &[u8] = piece;
            loop {
                match w.write(rest) {
                    Ok(n) => {
                        if n < rest.len() && n > 0 {
                            rets.push(n);
                            rest = &rest[n..];
                        } else if n < rest.len() {
                            failed = true;
                            break 'outer;
                        } else {
                            rets.push(n);
                            break;
                        }
                    }
                    Err(_) => {
                        failed = true;
                        break 'outer;
                    }
                }
            }
        }
        let flush_ok = !failed && w.flush().is_ok();
        DeflateRun { rets, failed_write: failed, flush_ok, out: w.into_inner().data }
    });
    match res {
        None => Err("hang".into()),
        Some(r) => r,
    }
}

fn real_inflate_all(z: &[u8], chunks: Vec<Vec<u8>>, dst_len: usize) -> Result<std::io::Result<(usize, Vec<u8>)>, String> {
    let _ = z;
    catch(move || {
        let mut rd = Chunked::new(chunks);
        let mut st = flate2::Decompress::new(true);
        let mut dst = vec![0u8; dst_len];
        zlib::stream::inflate::read(&mut rd, &mut st, &mut dst).map(|n| {
            dst.truncate(n);
            (n, dst)
        })
    })
}

fn status_str(s: flate2::Status) -> &'static str {
    match s {
        flate2::Status::Ok => "ok",
        flate2::Status::BufError => "buf",
        flate2::Status::StreamEnd => "end",
    }
}

struct Ctx {
    rep: Report,
    /// a call into the real code did not return: stop generating, report what we have
    hung: bool,
    /// (compressed stream, sha1 of the expected content, key) for the python cross-check
    py: Vec<(Vec<u8>, String, String)>,
    /// (kind, header-less object bytes, id gitoxide computed, key)
    git: Vec<(gix_object::Kind, Vec<u8>, String, String)>,
}

fn do_op(cx: &mut Ctx, op: &str) {
    let args: Vec<&str> = op.split(' ').collect();
    let rep = &mut cx.rep;
    match args.as_slice() {
        ["deflate", data_tok, sizes_tok] | ["deflatesw", data_tok, sizes_tok, _] => {
            // `deflatesw … <maxwrite>`: the inner writer accepts between 1 and <maxwrite> bytes per call
            let maxw = if args[0] == "deflatesw" {
                match args[3].parse::<usize>() {
                    Ok(m) => m,
                    Err(_) => {
                        rep.case(op, "bad-op", false);
                        return;
                    }
                }
            } else {
                0
            };
            let (Some(data), Some(sizes)) = (parse_data(data_tok), parse_nats(sizes_tok)) else {
                rep.case(op, "bad-op", false);
                return;
            };
            if maxw != 0 {
                rep.bucket(&format!("deflate:inner-accepts<={}", if maxw <= 8 { "8" } else if maxw <= 4096 { "4096" } else { "more" }));
            }
            let pieces = split_by(&sizes, &data);
            rep.bucket(&format!("deflate:len~2^{}", usize::BITS - data.len().leading_zeros()));
            if sizes.iter().any(|s| *s == 0) {
                rep.bucket("deflate:has-empty-write");
            }
            if sizes.iter().any(|s| (32767..=32769).contains(s)) {
                rep.bucket("deflate:write-around-32KiB");
            }
            let obs = match run_deflate_inner(&pieces, maxw, None) {
                Err(e) if e == "hang" => {
                    cx.hung = true;
                    rep.oracle_failure(&format!("deflate {data_tok} {sizes_tok}"), "deflate::Write::write/flush did not return within 45 s (the write_inner loop does not terminate)", op);
                    "hang".to_string()
                }
                Err(_) => "panic".to_string(),
                Ok(run) if run.failed_write => "write-failed".to_string(),
                Ok(run) if !run.flush_ok => format!("w={} flush=err", show_nats(&run.rets)),
                Ok(run) => {
                    // the property itself, on the real code
                    rep.oracle_checked();
                    let key = op.to_string();
                    let inflated = real_inflate_all(&run.out, vec![run.out.clone()], data.len() + 1);
                    let o = match &inflated {
                        Ok(Ok((n, got))) => {
                            if got != &data {
                                rep.oracle_failure(
                                    &key,
                                    &format!("deflate::Write output inflates to {} bytes (sha1 {}), the input was {} bytes (sha1 {})", n, sha1_hex(got), data.len(), sha1_hex(&data)),
                                    op,
                                );
                            }
                            format!(
                                "w={} flush=ok rt={} len={} sha1={}",
                                show_nats(&run.rets),
                                if got == &data { "same" } else { "DIFFERENT" },
                                n,
                                sha1_hex(got)
                            )
                        }
                        _ => {
                            rep.oracle_failure(&key, "deflate::Write output does not inflate", op);
                            format!("w={} flush=ok rt=inflate-failed", show_nats(&run.rets))
                        }
                    };
                    for (piece, ret) in pieces.iter().zip(run.rets.iter()) {
                        if *ret != piece.len() {
                            rep.outside_domain(&format!("{key}: a write of {} bytes returned {}", piece.len(), ret));
                        }
                    }
                    if cx.py.len() < 400 {
                        cx.py.push((run.out, sha1_hex(&data), key));
                    }
                    o
                }
            };
            rep.case(op, &obs, true);
        }
        ["hash", kind_tok, data_tok, sizes_tok, maxw_tok] => {
            let (Some(kind), Some(data), Some(sizes), Ok(maxw)) =
                (parse_kind(kind_tok), parse_data(data_tok), parse_nats(sizes_tok), maxw_tok.parse::<usize>())
            else {
                rep.case(op, "bad-op", false);
                return;
            };
            rep.bucket(&format!("hash:len~2^{}", usize::BITS - data.len().leading_zeros()));
            let one = gix_object::compute_hash(gix_hash::Kind::Sha1, kind, &data);
            let streamed = {
                let mut rd = ShortReader { data: &data, sizes: sizes.clone(), i: 0 };
                gix_object::compute_stream_hash(
                    gix_hash::Kind::Sha1,
                    kind,
                    &mut rd,
                    data.len() as u64,
                    &mut gix_features::progress::Discard,
                    &AtomicBool::new(false),
                )
            };
            let written = catch(|| {
                let mut hw = gix_features::hash::Write::new(Sink { max: maxw, data: Vec::new() }, gix_hash::Kind::Sha1);
                hw.write_all(&gix_object::encode::loose_header(kind, data.len() as u64))?;
                for piece in split_by(&sizes, &data) {
                    hw.write_all(piece)?;
                }
                let sink = sha1_hex(&hw.inner.data);
                std::io::Result::Ok((gix_hash::ObjectId::from(hw.hash.digest()), sink))
            });
            let s_stream = match &streamed {
                Ok(id) => id.to_string(),
                Err(_) => "err".into(),
            };
            let s_write = match &written {
                Ok(Ok((id, sink))) => format!("{id} sink={sink}"),
                Ok(Err(_)) => "err".into(),
                Err(_) => "panic".into(),
            };
            rep.case(op, &format!("one={one} stream={s_stream} write={s_write}"), true);
            rep.oracle_checked();
            let key = format!("hash {kind_tok} {data_tok} {sizes_tok} {maxw_tok}");
            let w_id = written.as_ref().ok().and_then(|r| r.as_ref().ok()).map(|(id, _)| *id);
            if streamed.as_ref().ok() != Some(&one) || w_id != Some(one) {
                rep.oracle_failure(
                    &key,
                    &format!("compute_hash={one} compute_stream_hash={s_stream} hash::Write={s_write}"),
                    op,
                );
            }
            if cx.git.len() < 600 {
                cx.git.push((kind, data, one.to_string(), key));
            }
        }
        ["streamhash", kind_tok, declared_tok, data_tok] => {
            let (Some(kind), Ok(declared), Some(data)) = (parse_kind(kind_tok), declared_tok.parse::<u64>(), parse_data(data_tok))
            else {
                rep.case(op, "bad-op", false);
                return;
            };
            rep.bucket(if (declared as usize) > data.len() { "streamhash:declared>len" } else if (declared as usize) < data.len() { "streamhash:declared<len" } else { "streamhash:exact" });
            let r = catch(|| {
                gix_object::compute_stream_hash(
                    gix_hash::Kind::Sha1,
                    kind,
                    &mut &data[..],
                    declared,
                    &mut gix_features::progress::Discard,
                    &AtomicBool::new(false),
                )
            });
            let obs = match &r {
                Ok(Ok(id)) => id.to_string(),
                Ok(Err(_)) => "err".into(),
                Err(_) => "panic".into(),
            };
            rep.case(op, &obs, true);
            rep.oracle_checked();
            let key = format!("streamhash {kind_tok} {declared_tok} {data_tok}");
            if (declared as usize) <= data.len() {
                let want = gix_object::compute_hash(gix_hash::Kind::Sha1, kind, &data[..declared as usize]);
                if obs != want.to_string() {
                    rep.oracle_failure(&key, &format!("stream hash of the first {declared} bytes is {obs}, compute_hash says {want}"), op);
                }
            } else if obs != "err" {
                rep.oracle_failure(&key, &format!("a stream of {} bytes hashed as if it had {declared}: {obs}", data.len()), op);
            }
        }
        ["once", z_tok, cap_tok] => {
            let (Some(z), Ok(cap)) = (parse_data(z_tok), cap_tok.parse::<usize>()) else {
                rep.case(op, "bad-op", false);
                return;
            };
            let r = catch(|| {
                let mut inf = zlib::Inflate::default();
                let mut out = vec![0u8; cap];
                inf.once(&z, &mut out).map(|(st, _cin, cout)| {
                    out.truncate(cout);
                    (st, out)
                })
            });
            let obs = match r {
                Ok(Ok((st, out))) => format!("st={} out={}", status_str(st), hex(&out)),
                Ok(Err(_)) => "err".into(),
                Err(_) => "panic".into(),
            };
            rep.bucket(&format!("once:{}", obs.split(' ').next().unwrap_or("")));
            rep.case(op, &obs, true);
        }
        ["read", z_tok, chunks_tok, dst_tok] => {
            let (Some(z), Some(chunks), Ok(dst_len)) = (parse_data(z_tok), parse_nats(chunks_tok), dst_tok.parse::<usize>()) else {
                rep.case(op, "bad-op", false);
                return;
            };
            let pieces: Vec<Vec<u8>> = split_by(&chunks, &z).into_iter().map(<[u8]>::to_vec).collect();
            let obs = match real_inflate_all(&z, pieces, dst_len) {
                Ok(Ok((n, got))) => format!("n={} sha1={}", n, sha1_hex(&got)),
                Ok(Err(_)) => "err".into(),
                Err(_) => "panic".into(),
            };
            rep.bucket(&format!("read:{}", if obs.starts_with("n=") { "ok" } else { &obs }));
            rep.case(op, &obs, true);
        }
        _ => rep.case(op, "bad-op", false),
    }
}

fn gen_len(r: &mut Rng, max: usize) -> usize {
    let b = [
        0usize, 1, 2, 55, 56, 57, 63, 64, 65, 119, 120, 127, 128, 4095, 4096, 4097, 32767, 32768, 32769, 65534, 65535, 65536,
        65537, 131070, 131071,
    ];
    let n = match r.below(10) {
        0..=3 => *r.pick(&b),
        4..=6 => r.usize(300),
        7 => r.usize(5000),
        8 => r.usize(70_000),
        _ => r.usize(max + 1),
    };
    n.min(max)
}

fn gen_data_tok(r: &mut Rng, max: usize) -> String {
    let n = gen_len(r, max);
    if n <= 40 && r.chance(1, 2) {
        return hex(&r.bytes(n));
    }
    format!("g{}:{}:{}", r.below(3), r.below(1_000_000), n)
}

fn gen_sizes(r: &mut Rng, total: usize) -> Vec<usize> {
    let b = [0usize, 0, 1, 2, 63, 64, 65, 4096, 32767, 32768, 32769, 65535, 65536, 100_000];
    let k = match r.below(6) {
        0 => 0,
        1 => 1,
        2 => 2,
        _ => 1 + r.usize(12),
    };
    let mut v = Vec::new();
    for _ in 0..k {
        v.push(match r.below(5) {
            0 | 1 => *r.pick(&b),
            2 => r.usize(40),
            3 => r.usize(total + 2),
            _ => r.usize(70_000),
        });
    }
    v
}

const KINDS: [&str; 4] = ["blob", "tree", "commit", "tag"];

fn gen_stream_hex(r: &mut Rng) -> (String, usize, bool) {
    // a stored-block stream from the real compressor at level 0, possibly damaged
    let n = match r.below(8) {
        0 => 0,
        1 => 1,
        2 => *r.pick(&[63usize, 64, 65]),
        3 => 31_744 + r.usize(4),
        4 => 33_000 + r.usize(200),
        _ => r.usize(400),
    };
    let data = gen_bytes(r.below(2) as u8, r.u64(), n);
    let mut z = level0(&data);
    let mut corrupted = false;
    match r.below(10) {
        0 | 1 => {
            // truncate
            let cut = if r.chance(2, 3) { 1 + r.usize(7.min(z.len())) } else { r.usize(z.len() + 1) };
            z.truncate(z.len() - cut.min(z.len()));
        }
        2 => {
            corrupted = true;
            // damage the Adler-32 trailer
            let l = z.len();
            z[l - 1 - r.usize(4)] ^= 1 << r.below(8);
        }
        3 => {
            corrupted = true;
            // damage NLEN of the first block
            z[5 + r.usize(2)] ^= 1 << r.below(8);
        }
        4 => {
            let k = 1 + r.usize(5);
            z.extend_from_slice(&r.bytes(k));
        }
        _ => {}
    }
    (hex(&z), n, corrupted)
}

/// checks of the assumed `flate2` contract clauses on the real (de)compressor (not a verdict on gitoxide)
fn contract_checks(rep: &mut Report, r: &mut Rng, rounds: u64) {
    let mut bad = 0u64;
    for _ in 0..rounds {
        let data = gen_bytes(r.below(3) as u8, r.u64(), gen_len(r, 200_000));
        // compressor: bounded, progress with input on offer, StreamEnd only for Finish, everything consumed before the end
        let mut c = flate2::Compress::new(flate2::Compression::fast(), true);
        let mut buf = vec![0u8; 32768];
        let mut z = Vec::new();
        let mut rest: &[u8] = &data;
        let mut guard = 0;
        loop {
            guard += 1;
            if guard > 1_000_000 {
                bad += 1;
                rep.note("CONTRACT compressor: no termination within 10^6 calls");
                break;
            }
            let fin = rest.is_empty();
            let (bi, bo) = (c.total_in(), c.total_out());
            let st = c.compress(rest, &mut buf, if fin { flate2::FlushCompress::Finish } else { flate2::FlushCompress::None });
            let Ok(st) = st else {
                bad += 1;
                rep.note("CONTRACT compressor: Err before the end of the stream");
                break;
            };
            let (ci, co) = ((c.total_in() - bi) as usize, (c.total_out() - bo) as usize);
            z.extend_from_slice(&buf[..co]);
            if !fin && st == flate2::Status::StreamEnd {
                bad += 1;
                rep.note("CONTRACT compressor: StreamEnd without Finish");
            }
            if !fin && ci == 0 && co == 0 {
                bad += 1;
                rep.note("CONTRACT compressor: no progress with input on offer and an empty output buffer");
                break;
            }
            if fin && st != flate2::Status::StreamEnd && ci == 0 && co == 0 {
                bad += 1;
                rep.note("CONTRACT compressor: Finish made no progress and did not end");
                break;
            }
            rest = &rest[ci..];
            if st == flate2::Status::StreamEnd {
                break;
            }
        }
        // decompressor on the valid stream, random input/output windows: prefix output, progress, end detection,
        // greedy first call, BufError = nothing happened
        let mut d = flate2::Decompress::new(true);
        let mut pos = 0usize;
        let mut got = Vec::new();
        let mut guard = 0;
        loop {
            guard += 1;
            if guard > 1_000_000 {
                bad += 1;
                rep.note("CONTRACT decompressor: no termination");
                break;
            }
            let avail = if r.chance(1, 3) { z.len() - pos } else { (1 + r.usize(5000)).min(z.len() - pos) };
            let cap = if r.chance(1, 4) { r.usize(3) } else { 1 + r.usize(70_000) };
            let mut out = vec![0u8; cap];
            let (bi, bo) = (d.total_in(), d.total_out());
            let st = d.decompress(&z[pos..pos + avail], &mut out, flate2::FlushDecompress::None);
            let Ok(st) = st else {
                bad += 1;
                rep.note("CONTRACT decompressor: Err on a prefix of a valid stream");
                break;
            };
            let (ci, co) = ((d.total_in() - bi) as usize, (d.total_out() - bo) as usize);
            got.extend_from_slice(&out[..co]);
            pos += ci;
            if !data.starts_with(&got) {
                bad += 1;
                rep.note("CONTRACT decompressor: output is not a prefix of the content");
                break;
            }
            match st {
                flate2::Status::StreamEnd => {
                    if pos != z.len() || got.len() != data.len() {
                        bad += 1;
                        rep.note("CONTRACT decompressor: StreamEnd before the end of stream/content");
                    }
                    break;
                }
                flate2::Status::BufError => {
                    if ci != 0 || co != 0 {
                        bad += 1;
                        rep.note("CONTRACT decompressor: BufError although progress was made");
                    }
                    if avail != 0 && cap != 0 {
                        bad += 1;
                        rep.note("CONTRACT decompressor: BufError with input and room available");
                        break;
                    }
                }
                flate2::Status::Ok => {
                    // progress with input on offer and room; the first call is greedy
                    if avail != 0 && cap != 0 && ci == 0 && co == 0 {
                        bad += 1;
                        rep.note("CONTRACT decompressor: Ok without progress although input and room were available");
                        break;
                    }
                    if guard == 1 && !(co == cap || ci == avail) {
                        bad += 1;
                        rep.note(&format!("CONTRACT decompressor: first call not greedy (consumed {ci} of {avail}, produced {co} of {cap})"));
                    }
                }
            }
            if pos == z.len() && st != flate2::Status::StreamEnd && cap > co {
                bad += 1;
                rep.note("CONTRACT decompressor: whole stream consumed, room left, no StreamEnd");
                break;
            }
        }
        // finish_progress (used by loose::Store::find_inner): first call with a small output, then the whole rest of
        // the stream with room for exactly the rest of the content — every call ends the stream or makes progress
        {
            let mut d = flate2::Decompress::new(true);
            let first_cap = *r.pick(&[0usize, 1, 64, 256]);
            let mut out = vec![0u8; first_cap.min(data.len())];
            let mut ended = false;
            if let Ok(st) = d.decompress(&z, &mut out, flate2::FlushDecompress::None) {
                ended = st == flate2::Status::StreamEnd;
            }
            // room for exactly the rest of the content
            let first_out = d.total_out() as usize;
            let mut rest_out = vec![0u8; data.len() - first_out];
            let mut calls = 0;
            while !ended {
                calls += 1;
                let (bi, bo) = (d.total_in(), d.total_out());
                let st = d.decompress(&z[bi as usize..], &mut rest_out[bo as usize - first_out..], flate2::FlushDecompress::None);
                let (ci, co) = ((d.total_in() - bi) as usize, (d.total_out() - bo) as usize);
                match st {
                    Ok(flate2::Status::StreamEnd) => ended = true,
                    Ok(_) if ci != 0 || co != 0 => {}
                    other => {
                        bad += 1;
                        rep.note(&format!("CONTRACT decompressor: finish_progress violated: {:?} without progress after {calls} calls (whole rest of the stream on offer, room for the rest of the content)", other.map_err(|e| e.to_string())));
                        break;
                    }
                }
                if calls > 100_000 {
                    bad += 1;
                    rep.note("CONTRACT decompressor: finish loop does not terminate");
                    break;
                }
            }
        }
        rep.bucket("contract:rounds");
    }
    if bad == 0 {
        rep.note(&format!("flate2 contract clauses (CompressorOk/DecompressorOk) held on {rounds} random runs of the real (de)compressor"));
    } else {
        rep.bucket("contract:VIOLATED");
    }
}

/// big inputs, real code only: the property itself
fn oracle_big(cx: &mut Ctx, r: &mut Rng, cases: u64, max: usize) {
    for _ in 0..cases {
        let n = if r.chance(1, 3) { max - r.usize(3) } else { r.usize(max + 1) };
        let mode = r.below(3) as u8;
        let seed = r.below(1_000_000);
        let data = gen_bytes(mode, seed, n);
        let sizes = gen_sizes(r, n);
        let key = format!("deflate g{mode}:{seed}:{n} {}", show_nats(&sizes));
        cx.rep.oracle_only(&key, true);
        cx.rep.oracle_checked();
        cx.rep.bucket(&format!("big:len~2^{}", usize::BITS - n.leading_zeros()));
        let pieces = split_by(&sizes, &data);
        // an inner writer that returns Ok(0) at some point: the failure must be reported, never swallowed
        {
            let zero_at = r.usize(40);
            let maxw = *r.pick(&[0usize, 5, 4096]);
            let zkey = format!("deflate-writezero g{mode}:{seed}:{n} {} max={maxw} zero_at={zero_at}", show_nats(&sizes));
            cx.rep.oracle_checked();
            match run_deflate_inner(&pieces, maxw, Some(zero_at)) {
                Ok(run) if !run.failed_write && run.flush_ok => {
                    // the zero-accepting call may simply not have been reached; then the output must be intact
                    match real_inflate_all(&run.out, vec![run.out.clone()], n + 1) {
                        Ok(Ok((_, got))) if got == data => {}
                        _ => cx.rep.oracle_failure(&zkey, "the inner writer refused bytes (Ok(0)), deflate::Write reported success, yet the output does not inflate to the input", &zkey),
                    }
                }
                Ok(_) => cx.rep.bucket("big:writezero-reported"),
                Err(e) => cx.rep.oracle_failure(&zkey, &format!("deflate::Write with a refusing inner writer: {e}"), &zkey),
            }
        }
        let inner_max = *r.pick(&[0usize, 0, 1, 9, 5000, 32768]);
        let key = if inner_max == 0 { key } else { format!("deflatesw g{mode}:{seed}:{n} {} {inner_max}", show_nats(&sizes)) };
        match run_deflate_inner(&pieces, inner_max, None) {
            Ok(run) if !run.failed_write && run.flush_ok => {
                // inflate in one piece and in random chunks, into exact and oversized buffers
                for variant in 0..3 {
                    let chunks: Vec<Vec<u8>> = if variant == 0 {
                        vec![run.out.clone()]
                    } else {
                        let cs: Vec<usize> = (0..200).map(|_| 1 + r.usize(if variant == 1 { 9000 } else { 70 })).collect();
                        split_by(&cs, &run.out).into_iter().map(<[u8]>::to_vec).collect()
                    };
                    let dst = if variant == 2 { n } else { n + 1 + r.usize(10) };
                    match real_inflate_all(&run.out, chunks, dst) {
                        Ok(Ok((_, got))) if got == data => {}
                        other => {
                            cx.rep.oracle_failure(
                                &key,
                                &format!("inflate::read (variant {variant}) of the deflate::Write output gives {:?} instead of the {} input bytes", other.map(|r| r.map(|(n, _)| n).map_err(|e| e.to_string())), n),
                                &key,
                            );
                        }
                    }
                }
                if cx.py.len() < 400 {
                    cx.py.push((run.out, sha1_hex(&data), key.clone()));
                }
            }
            other => {
                if matches!(&other, Err(e) if e == "hang") {
                    cx.hung = true;
                }
                cx.rep.oracle_failure(&key, &format!("deflate::Write failed: write_failed/flush/panic-or-hang = {:?}", other.map(|r| (r.failed_write, r.flush_ok)).map_err(|e| e)), &key);
                if cx.hung {
                    return;
                }
            }
        }
        // hashing of the same data, three ways
        let kind = parse_kind(KINDS[r.usize(4)]).unwrap();
        let one = gix_object::compute_hash(gix_hash::Kind::Sha1, kind, &data);
        let mut rd = ShortReader { data: &data, sizes: sizes.clone(), i: 0 };
        let streamed = gix_object::compute_stream_hash(gix_hash::Kind::Sha1, kind, &mut rd, n as u64, &mut gix_features::progress::Discard, &AtomicBool::new(false));
        let mut hw = gix_features::hash::Write::new(Sink { max: [0usize, 1000, 65536][r.usize(3)], data: Vec::new() }, gix_hash::Kind::Sha1);
        let _ = hw.write_all(&gix_object::encode::loose_header(kind, n as u64));
        for piece in &pieces {
            let _ = hw.write_all(piece);
        }
        let w: gix_hash::ObjectId = hw.hash.digest().into();
        if streamed.as_ref().ok() != Some(&one) || w != one {
            cx.rep.oracle_failure(&format!("hash {key}"), &format!("compute_hash={one} stream={:?} write={w}", streamed.ok()), &key);
        }
        if cx.git.len() < 600 {
            cx.git.push((kind, data, one.to_string(), format!("hash {key}")));
        }
    }
}

fn finish_batches(cx: &mut Ctx) {
    let scratch = Scratch::new("c56");
    // python's zlib inflates what deflate::Write produced
    if !cx.py.is_empty() {
        let mut list = String::new();
        for (i, (z, want, _)) in cx.py.iter().enumerate() {
            let p = scratch.join(format!("z{i}"));
            std::fs::write(&p, z).expect("write z");
            list.push_str(&format!("{} {}\n", p.display(), want));
        }
        let lp = scratch.join("list.txt");
        std::fs::write(&lp, list).expect("write list");
        let script = "import sys,zlib,hashlib\nfor i,l in enumerate(open(sys.argv[1])):\n    p,want=l.split()\n    try:\n        got=hashlib.sha1(zlib.decompress(open(p,'rb').read())).hexdigest()\n    except Exception as e:\n        got='error:'+type(e).__name__\n    print(i, 'ok' if got==want else got)\n";
        let out = std::process::Command::new("python3").arg("-c").arg(script).arg(&lp).output();
        match out {
            Ok(o) if o.status.success() => {
                for line in String::from_utf8_lossy(&o.stdout).lines() {
                    let mut it = line.split(' ');
                    let (Some(i), Some(res)) = (it.next().and_then(|s| s.parse::<usize>().ok()), it.next()) else { continue };
                    cx.rep.oracle_checked();
                    if res != "ok" {
                        let key = cx.py[i].2.clone();
                        cx.rep.oracle_failure(&key, &format!("python zlib.decompress of the deflate::Write output: {res}, expected content sha1 {}", cx.py[i].1), &key);
                    }
                }
                cx.rep.note(&format!("python3 zlib cross-checked {} streams", cx.py.len()));
            }
            _ => cx.rep.note("python3 zlib cross-check could not run"),
        }
    }
    // git hash-object agrees with compute_hash
    for kind in [gix_object::Kind::Blob, gix_object::Kind::Tree, gix_object::Kind::Commit, gix_object::Kind::Tag] {
        let mut paths = String::new();
        let mut expect = Vec::new();
        for (i, (k, data, id, key)) in cx.git.iter().enumerate() {
            if *k != kind {
                continue;
            }
            let p = scratch.join(format!("o{i}"));
            std::fs::write(&p, data).expect("write obj");
            paths.push_str(&format!("{}\n", p.display()));
            expect.push((id.clone(), key.clone()));
        }
        if expect.is_empty() {
            continue;
        }
        let kname = std::str::from_utf8(kind.as_bytes()).unwrap().to_string();
        let out = git_ok(&scratch.path, &["hash-object", "--literally", "-t", &kname, "--stdin-paths"], Some(paths.as_bytes()));
        let got: Vec<&str> = out.lines().collect();
        assert_eq!(got.len(), expect.len(), "git hash-object answered every path");
        for ((id, key), g) in expect.iter().zip(got) {
            cx.rep.git_checked(1);
            if id != g {
                cx.rep.oracle_failure(key, &format!("compute_hash says {id}, git hash-object says {g}"), key);
            }
        }
    }
}

fn main() {
    let args = Args::parse();
    let mut cx = Ctx { rep: Report::new("C56", &args), hung: false, py: Vec::new(), git: Vec::new() };
    if let Some(ops) = replay_ops(&args) {
        for op in ops {
            do_op(&mut cx, &op);
        }
        finish_batches(&mut cx);
        cx.rep.finish();
        return;
    }
    let mut r = Rng::new(args.seed);

    // deterministic corpus of boundary cases first
    let corpus: Vec<String> = vec![
        "deflate - -".into(),
        "deflate - 0,0".into(),
        "deflate 00 0,1,0".into(),
        "deflate g0:1:32768 32768".into(),
        "deflate g0:2:32769 32767,1,1".into(),
        "deflate g1:3:65536 0,32768,0,32768,0".into(),
        "deflate g2:4:100000 1".into(),
        "deflate g0:5:131071 65535,65536".into(),
        "deflatesw 616263 - 1".into(),
        "deflatesw g1:3:5000 1000,0,4000 1".into(),
        "deflatesw g0:4:70000 32768,32769 7".into(),
        "deflatesw g0:6:100000 - 32767".into(),
        "deflatesw g2:6:200000 1,199999 3".into(),
        "hash blob - - 0".into(),
        "hash blob 616263 - 0".into(),
        "hash commit g0:7:55 - 1".into(),
        "hash tag g0:7:56 1,1 1".into(),
        "hash tree g1:8:65535 - 0".into(),
        "hash blob g1:8:65536 65535,1 0".into(),
        "hash blob g0:9:131071 1,65535 4096".into(),
        "streamhash blob 0 -".into(),
        "streamhash blob 3 616263".into(),
        "streamhash blob 4 616263".into(),
        "streamhash blob 2 616263".into(),
        "streamhash blob 65536 g0:3:65535".into(),
        "streamhash blob 65535 g0:3:65536".into(),
    ];
    for op in &corpus {
        if !cx.hung {
            do_op(&mut cx, op);
        }
    }
    for n in [0usize, 1, 5, 63, 64, 65] {
        let data = gen_bytes(0, n as u64, n);
        let z = level0(&data);
        for cap in [0usize, 1, n.saturating_sub(1), n, n + 1, 64] {
            do_op(&mut cx, &format!("once {} {}", hex(&z), cap));
        }
        for cut in 1..=z.len().min(8) {
            do_op(&mut cx, &format!("once {} {}", hex(&z[..z.len() - cut]), n + 2));
            do_op(&mut cx, &format!("read {} - {}", hex(&z[..z.len() - cut]), n));
            do_op(&mut cx, &format!("read {} 1,2,3 {}", hex(&z[..z.len() - cut]), n + 1));
        }
        do_op(&mut cx, &format!("read {} 1,1,1,1,1,1,1,1,1,1,1,1 {}", hex(&z), n + 1));
    }
    do_op(&mut cx, "once - 10");
    do_op(&mut cx, "read - - 10");

    let big_max = if args.thorough { 1 << 20 } else { 1 << 18 };
    let n_small = args.budget(700, 7000);
    let n_big = args.budget(6, 40);
    for i in 0..n_small + n_big {
        let max = if i < n_small { 70_000 } else { big_max };
        let op = match r.below(10) {
            0..=3 => {
                let tok = gen_data_tok(&mut r, max);
                let total = parse_data(&tok).map(|d| d.len()).unwrap_or(0);
                if r.chance(2, 5) {
                    // an inner writer that takes only part of what it is offered
                    let maxw = *r.pick(&[1usize, 1, 2, 3, 7, 64, 1000, 4096, 32767, 32768, 40000]);
                    format!("deflatesw {} {} {}", tok, show_nats(&gen_sizes(&mut r, total)), maxw)
                } else {
                    format!("deflate {} {}", tok, show_nats(&gen_sizes(&mut r, total)))
                }
            }
            4..=6 => {
                let maxw = *r.pick(&[0usize, 0, 0, 1, 7, 64, 4096, 65536]);
                // tiny per-call writes only with small data (the model's write_all is quadratic there)
                let tok = gen_data_tok(&mut r, if maxw != 0 && maxw < 64 { 3000 } else { max });
                let total = parse_data(&tok).map(|d| d.len()).unwrap_or(0);
                format!("hash {} {} {} {}", KINDS[r.usize(4)], tok, show_nats(&gen_sizes(&mut r, total)), maxw)
            }
            7 => {
                let tok = gen_data_tok(&mut r, max.min(140_000));
                let total = parse_data(&tok).map(|d| d.len()).unwrap_or(0) as i64;
                let declared = match r.below(4) {
                    0 => total,
                    1 => (total + r.range(-2, 2)).max(0),
                    2 => r.range(0, total + 1),
                    _ => total + r.range(1, 70_000),
                };
                format!("streamhash {} {} {}", KINDS[r.usize(4)], declared, tok)
            }
            8 => {
                let (z, n, corrupted) = gen_stream_hex(&mut r);
                // a corrupted stream is only compared when everything must be looked at (the real inflater reads
                // ahead and may notice the damage earlier than a lazy one)
                let cap = if corrupted { n + 1 + r.usize(3) } else { *r.pick(&[0usize, 1, 64, n.saturating_sub(1), n, n + 1, n + 100]) };
                format!("once {} {}", z, cap)
            }
            _ => {
                let (z, n, corrupted) = gen_stream_hex(&mut r);
                let chunks = if r.chance(1, 3) { vec![] } else { { let k = 1 + r.usize(20); let mut v = Vec::new(); for _ in 0..k { let m = if r.chance(1, 2) { 8 } else { 20_000 }; v.push(1 + r.usize(m)); } v } };
                let dst = if corrupted { n + 1 + r.usize(64) } else { *r.pick(&[0usize, 1, n.saturating_sub(1), n, n, n + 1, n + 64]) };
                format!("read {} {} {}", z, show_nats(&chunks), dst)
            }
        };
        do_op(&mut cx, &op);
        if cx.hung {
            break;
        }
    }
    if cx.hung {
        // a worker thread is still spinning inside the real code: write the report and leave
        cx.rep.note("run cut short: a call into deflate::Write did not return");
        cx.rep.finish();
        std::process::exit(0);
    }

    // malformed op lines: both sides must answer `bad-op`
    for op in ["deflate", "deflate zz -", "hash blob 00 - x", "hash blob 0 - 0", "hash blub 00 - 0", "once 0 1", "read 00 1,,2 1", "streamhash blob -1 00", "nonsense 1 2 3"] {
        do_op(&mut cx, op);
    }

    let max_oracle = if args.thorough { 6 << 20 } else { 4 << 20 };
    oracle_big(&mut cx, &mut r, args.budget(25, 150), max_oracle);
    if cx.hung {
        cx.rep.note("run cut short: a call into deflate::Write did not return");
        cx.rep.finish();
        std::process::exit(0);
    }
    let rounds = args.budget(40, 400);
    contract_checks(&mut cx.rep, &mut r, rounds);
    finish_batches(&mut cx);
    cx.rep.finish();
}
