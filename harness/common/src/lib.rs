//! Shared plumbing for the per-property harness binaries: one PRNG, hex helpers, panic capture,
//! a scratch directory, a wrapper around the `git` binary (the oracle), and the `Report` that
//! collects (operation line, implementation observation) pairs plus oracle failures and
//! input-distribution statistics, and writes `cases.tsv` and `report.json` for `tools/check`.
use std::collections::{BTreeMap, BTreeSet};
use std::fmt::Write as _;
use std::io::Write as _;
use std::path::{Path, PathBuf};

/// xoshiro256** seeded through splitmix64 — every random choice of a run derives from one seed.
#[derive(Clone)]
pub struct Rng {
    s: [u64; 4],
}

impl Rng {
    pub fn new(seed: u64) -> Self {
        let mut z = seed.wrapping_add(0x9E3779B97F4A7C15);
        let mut next = || {
            z = z.wrapping_add(0x9E3779B97F4A7C15);
            let mut x = z;
            x = (x ^ (x >> 30)).wrapping_mul(0xBF58476D1CE4E5B9);
            x = (x ^ (x >> 27)).wrapping_mul(0x94D049BB133111EB);
            x ^ (x >> 31)
        };
        Rng {
            s: [next(), next(), next(), next()],
        }
    }
    pub fn u64(&mut self) -> u64 {
        let r = self.s[1].wrapping_mul(5).rotate_left(7).wrapping_mul(9);
        let t = self.s[1] << 17;
        self.s[2] ^= self.s[0];
        self.s[3] ^= self.s[1];
        self.s[1] ^= self.s[2];
        self.s[0] ^= self.s[3];
        self.s[2] ^= t;
        self.s[3] = self.s[3].rotate_left(45);
        r
    }
    /// uniform in `0..n` (n > 0)
    pub fn below(&mut self, n: u64) -> u64 {
        if n == 0 {
            0
        } else {
            self.u64() % n
        }
    }
    pub fn usize(&mut self, n: usize) -> usize {
        self.below(n as u64) as usize
    }
    /// inclusive range
    pub fn range(&mut self, lo: i64, hi: i64) -> i64 {
        let span = (hi as i128 - lo as i128 + 1) as u128;
        (lo as i128 + (self.u64() as u128 % span) as i128) as i64
    }
    pub fn chance(&mut self, num: u64, den: u64) -> bool {
        self.below(den) < num
    }
    pub fn pick<'a, T>(&mut self, xs: &'a [T]) -> &'a T {
        &xs[self.usize(xs.len())]
    }
    pub fn byte(&mut self) -> u8 {
        self.u64() as u8
    }
    pub fn bytes(&mut self, n: usize) -> Vec<u8> {
        (0..n).map(|_| self.byte()).collect()
    }
    /// a string over `alphabet` of length `0..=max`
    pub fn over(&mut self, alphabet: &[u8], max: usize) -> Vec<u8> {
        let n = self.usize(max + 1);
        (0..n).map(|_| *self.pick(alphabet)).collect()
    }
    pub fn shuffle<T>(&mut self, xs: &mut [T]) {
        for i in (1..xs.len()).rev() {
            let j = self.usize(i + 1);
            xs.swap(i, j);
        }
    }
}

pub fn hex(bs: &[u8]) -> String {
    if bs.is_empty() {
        return "-".into();
    }
    let mut s = String::with_capacity(bs.len() * 2);
    for b in bs {
        let _ = write!(s, "{:02x}", b);
    }
    s
}

pub fn unhex(s: &str) -> Option<Vec<u8>> {
    if s == "-" {
        return Some(vec![]);
    }
    if s.len() % 2 != 0 {
        return None;
    }
    let b = s.as_bytes();
    let v = |c: u8| match c {
        b'0'..=b'9' => Some(c - b'0'),
        b'a'..=b'f' => Some(c - b'a' + 10),
        b'A'..=b'F' => Some(c - b'A' + 10),
        _ => None,
    };
    (0..b.len() / 2)
        .map(|i| Some(v(b[2 * i])? << 4 | v(b[2 * i + 1])?))
        .collect()
}

/// Run `f`, turning a panic into `Err(message)`. The default panic hook is silenced once.
pub fn catch<T>(f: impl FnOnce() -> T) -> Result<T, String> {
    static ONCE: std::sync::Once = std::sync::Once::new();
    ONCE.call_once(|| {
        std::panic::set_hook(Box::new(|_| {}));
    });
    match std::panic::catch_unwind(std::panic::AssertUnwindSafe(f)) {
        Ok(v) => Ok(v),
        Err(e) => {
            let msg = if let Some(s) = e.downcast_ref::<&str>() {
                (*s).to_string()
            } else if let Some(s) = e.downcast_ref::<String>() {
                s.clone()
            } else {
                "panic".to_string()
            };
            Err(msg)
        }
    }
}

/// Run `f` on a worker thread with a deadline; `None` means it did not finish (a hang). The thread
/// is abandoned in that case.
pub fn with_deadline<T: Send + 'static>(
    dur: std::time::Duration,
    f: impl FnOnce() -> T + Send + 'static,
) -> Option<Result<T, String>> {
    let (tx, rx) = std::sync::mpsc::channel();
    std::thread::spawn(move || {
        let r = catch(f);
        let _ = tx.send(r);
    });
    rx.recv_timeout(dur).ok()
}

pub fn json_str(s: &str) -> String {
    let mut o = String::with_capacity(s.len() + 2);
    o.push('"');
    for c in s.chars() {
        match c {
            '"' => o.push_str("\\\""),
            '\\' => o.push_str("\\\\"),
            '\n' => o.push_str("\\n"),
            '\r' => o.push_str("\\r"),
            '\t' => o.push_str("\\t"),
            c if (c as u32) < 0x20 => {
                let _ = write!(o, "\\u{:04x}", c as u32);
            }
            c => o.push(c),
        }
    }
    o.push('"');
    o
}

/// Command-line arguments shared by all harness binaries.
pub struct Args {
    pub seed: u64,
    pub thorough: bool,
    pub out: PathBuf,
    pub replay: Option<PathBuf>,
    /// multiplier on the case budget (the orchestrator raises it for the directed search)
    pub scale: u64,
}

impl Args {
    pub fn parse() -> Args {
        let mut a = Args {
            seed: 1,
            thorough: false,
            out: PathBuf::from("."),
            replay: None,
            scale: 1,
        };
        let mut it = std::env::args().skip(1);
        while let Some(k) = it.next() {
            match k.as_str() {
                "--seed" => a.seed = it.next().and_then(|v| v.parse().ok()).unwrap_or(1),
                "--tier" => a.thorough = it.next().as_deref() == Some("thorough"),
                "--out" => a.out = PathBuf::from(it.next().expect("--out DIR")),
                "--replay" => a.replay = it.next().map(PathBuf::from),
                "--scale" => a.scale = it.next().and_then(|v| v.parse().ok()).unwrap_or(1),
                _ => {
                    eprintln!("unknown argument {k}");
                    std::process::exit(2)
                }
            }
        }
        a
    }
    /// budget: `quick` cases in the quick tier, `thorough` in the thorough tier, times `scale`.
    pub fn budget(&self, quick: u64, thorough: u64) -> u64 {
        (if self.thorough { thorough } else { quick }) * self.scale
    }
}

pub struct OracleFailure {
    pub key: String,
    pub detail: String,
    pub op: String,
}

/// Collects everything one harness run observed.
pub struct Report {
    prop: String,
    out: PathBuf,
    cases: std::io::BufWriter<std::fs::File>,
    pub evaluations: u64,
    distinct: BTreeSet<u64>,
    hist: BTreeMap<String, u64>,
    samples: Vec<String>,
    pub failures: Vec<OracleFailure>,
    outside: Vec<String>,
    notes: Vec<String>,
    oracle_checks: u64,
    git_checks: u64,
}

fn fnv(s: &[u8]) -> u64 {
    let mut h: u64 = 0xcbf29ce484222325;
    for b in s {
        h ^= *b as u64;
        h = h.wrapping_mul(0x100000001b3);
    }
    h
}

impl Report {
    pub fn new(prop: &str, args: &Args) -> Report {
        std::fs::create_dir_all(&args.out).expect("create out dir");
        let f = std::fs::File::create(args.out.join("cases.tsv")).expect("create cases.tsv");
        Report {
            prop: prop.to_string(),
            out: args.out.clone(),
            cases: std::io::BufWriter::new(f),
            evaluations: 0,
            distinct: BTreeSet::new(),
            hist: BTreeMap::new(),
            samples: Vec::new(),
            failures: Vec::new(),
            outside: Vec::new(),
            notes: Vec::new(),
            oracle_checks: 0,
            git_checks: 0,
        }
    }
    /// One correspondence case: the operation line sent to the Lean driver and what the real code
    /// did. `nontrivial` says whether the case counts towards `distinct_nontrivial`.
    pub fn case(&mut self, op: &str, obs: &str, nontrivial: bool) {
        debug_assert!(!op.contains('\t') && !op.contains('\n'), "op must be one line: {op:?}");
        debug_assert!(!obs.contains('\t') && !obs.contains('\n'), "obs must be one line: {obs:?}");
        self.evaluations += 1;
        if nontrivial {
            self.distinct.insert(fnv(op.as_bytes()));
        }
        if self.samples.len() < 6 || (self.evaluations % 997 == 0 && self.samples.len() < 12) {
            let mut s = format!("{op} => {obs}");
            if s.len() > 300 {
                s.truncate(300);
                s.push('…');
            }
            self.samples.push(s);
        }
        let _ = writeln!(self.cases, "{op}\t{obs}");
    }
    /// A case that is only evaluated against the oracle (no model line).
    pub fn oracle_only(&mut self, desc: &str, nontrivial: bool) {
        self.evaluations += 1;
        if nontrivial {
            self.distinct.insert(fnv(desc.as_bytes()));
        }
        if self.samples.len() < 4 {
            let mut s = desc.to_string();
            if s.len() > 300 {
                s.truncate(300);
                s.push('…');
            }
            self.samples.push(s);
        }
    }
    pub fn bucket(&mut self, name: &str) {
        *self.hist.entry(name.to_string()).or_insert(0) += 1;
    }
    pub fn oracle_checked(&mut self) {
        self.oracle_checks += 1;
    }
    pub fn git_checked(&mut self, n: u64) {
        self.git_checks += n;
    }
    /// The implementation violates the property on a concrete input. `key` is the canonical,
    /// stable identification matched against known-findings.txt.
    pub fn oracle_failure(&mut self, key: &str, detail: &str, op: &str) {
        if self.failures.iter().any(|f| f.key == key) {
            return;
        }
        self.failures.push(OracleFailure {
            key: key.to_string(),
            detail: detail.to_string(),
            op: op.to_string(),
        });
    }
    /// Behaviour on inputs outside the domain the theorems are stated on (reported, not judged).
    pub fn outside_domain(&mut self, what: &str) {
        if self.outside.len() < 40 {
            self.outside.push(what.to_string());
        }
    }
    pub fn note(&mut self, what: &str) {
        self.notes.push(what.to_string());
    }
    pub fn finish(mut self) {
        self.cases.flush().expect("flush cases");
        let mut j = String::new();
        let _ = write!(
            j,
            "{{\"property\":{},\"evaluations\":{},\"distinct_nontrivial\":{},\"oracle_checks\":{},\"git_checks\":{},",
            json_str(&self.prop),
            self.evaluations,
            self.distinct.len(),
            self.oracle_checks,
            self.git_checks
        );
        j.push_str("\"histogram\":{");
        let mut first = true;
        for (k, v) in &self.hist {
            if !first {
                j.push(',');
            }
            first = false;
            let _ = write!(j, "{}:{}", json_str(k), v);
        }
        j.push_str("},\"samples\":[");
        j.push_str(&self.samples.iter().map(|s| json_str(s)).collect::<Vec<_>>().join(","));
        j.push_str("],\"outside_domain\":[");
        j.push_str(&self.outside.iter().map(|s| json_str(s)).collect::<Vec<_>>().join(","));
        j.push_str("],\"notes\":[");
        j.push_str(&self.notes.iter().map(|s| json_str(s)).collect::<Vec<_>>().join(","));
        j.push_str("],\"oracle_failures\":[");
        j.push_str(
            &self
                .failures
                .iter()
                .map(|f| {
                    format!(
                        "{{\"key\":{},\"detail\":{},\"op\":{}}}",
                        json_str(&f.key),
                        json_str(&f.detail),
                        json_str(&f.op)
                    )
                })
                .collect::<Vec<_>>()
                .join(","),
        );
        j.push_str("]}");
        std::fs::write(self.out.join("report.json"), j).expect("write report.json");
    }
}

/// A scratch directory under /verif/.scratch, removed on drop.
pub struct Scratch {
    pub path: PathBuf,
}

impl Scratch {
    pub fn new(tag: &str) -> Scratch {
        let base = std::env::var("VERIF_SCRATCH").unwrap_or_else(|_| "/verif/.scratch".to_string());
        let path = PathBuf::from(base).join(format!("{}-{}", tag, std::process::id()));
        let _ = std::fs::remove_dir_all(&path);
        std::fs::create_dir_all(&path).expect("create scratch dir");
        Scratch { path }
    }
    pub fn join(&self, p: impl AsRef<Path>) -> PathBuf {
        self.path.join(p)
    }
}

impl Drop for Scratch {
    fn drop(&mut self) {
        let _ = std::fs::remove_dir_all(&self.path);
    }
}

/// The `git` binary as oracle: fixed identity, no system/global config, no pager, C locale.
pub fn git_cmd(dir: &Path) -> std::process::Command {
    let mut c = std::process::Command::new("git");
    c.current_dir(dir)
        .env_clear()
        .env("PATH", std::env::var("PATH").unwrap_or_else(|_| "/usr/bin:/bin".into()))
        .env("HOME", dir)
        .env("GIT_CONFIG_NOSYSTEM", "1")
        .env("GIT_CONFIG_GLOBAL", "/dev/null")
        .env("GIT_AUTHOR_NAME", "A U Thor")
        .env("GIT_AUTHOR_EMAIL", "author@example.com")
        .env("GIT_AUTHOR_DATE", "1700000000 +0000")
        .env("GIT_COMMITTER_NAME", "C O Mitter")
        .env("GIT_COMMITTER_EMAIL", "committer@example.com")
        .env("GIT_COMMITTER_DATE", "1700000000 +0000")
        .env("GIT_TERMINAL_PROMPT", "0")
        .env("LC_ALL", "C")
        .env("TZ", "UTC")
        .arg("-c")
        .arg("init.defaultBranch=main")
        .arg("-c")
        .arg("protocol.file.allow=always")
        .arg("-c")
        .arg("gc.auto=0");
    c
}

pub struct GitOut {
    pub ok: bool,
    pub code: i32,
    pub stdout: Vec<u8>,
    pub stderr: Vec<u8>,
}

/// Run git with `args` in `dir`, feeding `stdin`.
pub fn git(dir: &Path, args: &[&str], stdin: Option<&[u8]>) -> GitOut {
    use std::process::Stdio;
    let mut c = git_cmd(dir);
    c.args(args)
        .stdin(if stdin.is_some() { Stdio::piped() } else { Stdio::null() })
        .stdout(Stdio::piped())
        .stderr(Stdio::piped());
    let mut child = c.spawn().expect("spawn git");
    if let Some(data) = stdin {
        let mut si = child.stdin.take().expect("stdin");
        let data = data.to_vec();
        let t = std::thread::spawn(move || {
            let _ = si.write_all(&data);
        });
        let out = child.wait_with_output().expect("wait git");
        let _ = t.join();
        return GitOut {
            ok: out.status.success(),
            code: out.status.code().unwrap_or(-1),
            stdout: out.stdout,
            stderr: out.stderr,
        };
    }
    let out = child.wait_with_output().expect("wait git");
    GitOut {
        ok: out.status.success(),
        code: out.status.code().unwrap_or(-1),
        stdout: out.stdout,
        stderr: out.stderr,
    }
}

/// `git` that must succeed; returns trimmed stdout as a string.
pub fn git_ok(dir: &Path, args: &[&str], stdin: Option<&[u8]>) -> String {
    let o = git(dir, args, stdin);
    if !o.ok {
        panic!(
            "git {:?} failed in {}: {}",
            args,
            dir.display(),
            String::from_utf8_lossy(&o.stderr)
        );
    }
    String::from_utf8_lossy(&o.stdout).trim_end().to_string()
}

/// Read the replay file (one op per line) if `--replay` was given.
pub fn replay_ops(args: &Args) -> Option<Vec<String>> {
    args.replay.as_ref().map(|p| {
        std::fs::read_to_string(p)
            .unwrap_or_default()
            .lines()
            .map(|l| l.split('\t').next().unwrap_or("").to_string())
            .filter(|l| !l.is_empty() && !l.starts_with('#'))
            .collect()
    })
}
