//! C24 — index files decode to exactly what git wrote, for any thread limit.
//!
//! Ops (one line each, replayed by the Lean driver `drv_C24`):
//!   dec <hex>            `State::from_bytes` on the raw index bytes with thread limits 1,2,3,4,8,16; the observation is
//!                        one canonical listing (entries with flags/mode/id/stat/path, every extension) when all six
//!                        agree (`all …`), otherwise each of them (`DIFFER …`)
//!   spec <hex>           (model only) decode, re-encode with the Lean transcription of git's writer, compare with the bytes
//!                        git wrote: validates `Spec/C24.lean` against the git binary; expected `…=same` for every part present
//!   varint <hex>         `gix_features::decode::leb64_from_read`
//!   sha1 <hex>           the SHA-1 used for the EOIE check (ties the Lean SHA-1 used by the driver)
//!
//! Index files come from the REAL git (2.39) working on scratch repositories: index.version 2/4 (3 arises from extended
//! flags), index.threads (IEOT/EOIE), core.untrackedCache, skip-worktree / assume-unchanged / intent-to-add, conflicts
//! (update-index --index-info stages and real merges) + resolve-undo, sparse-index cone mode, path lengths around 0xfff.
//! Oracle (independent of the Lean model): `git ls-files --sparse --stage --debug -z`, `git ls-files --resolve-undo`,
//! `git write-tree --prefix` for valid cache-tree nodes, the stat of .git/info/exclude for the untracked cache, and
//! equality across thread limits. A malformed stream (truncations, byte flips, hand-made extensions) checks that the
//! decoder fails with an error instead of panicking.
use gix_index::{decode, entry, extension, State};
use hcommon::*;
use std::ffi::OsStr;
use std::os::unix::ffi::OsStrExt;
use std::path::{Path, PathBuf};

const LIMITS: [usize; 6] = [1, 2, 3, 4, 8, 16];
const SHOW_LIMIT: usize = 4096;

// ---------------------------------------------------------------------------------------------------------------
// canonical rendering of what gitoxide decoded (must match `showOutcome` in lean/GixModel/Model/C24.lean)
// ---------------------------------------------------------------------------------------------------------------

fn show_stat(s: &entry::Stat) -> String {
    format!(
        "{}:{},{}:{},{},{},{},{},{}",
        s.ctime.secs, s.ctime.nsecs, s.mtime.secs, s.mtime.nsecs, s.dev, s.ino, s.uid, s.gid, s.size
    )
}

fn show_bits(v: &gix_bitmap::ewah::Vec) -> String {
    let mut bits = Vec::new();
    let mut over = false;
    let r = v.for_each_set_bit(|i| {
        bits.push(i.to_string());
        if i >= SHOW_LIMIT {
            over = true;
            None
        } else {
            Some(())
        }
    });
    let marker = if over {
        ">"
    } else if r.is_none() {
        "!"
    } else {
        ""
    };
    format!("{{{}}}{}/{}", bits.join(","), marker, v.num_bits())
}

fn show_tree(t: &extension::Tree, out: &mut String) {
    out.push('(');
    out.push_str(&hex(&t.name));
    out.push(',');
    out.push_str(&hex(t.id.as_bytes()));
    out.push(',');
    match t.num_entries {
        Some(n) => out.push_str(&n.to_string()),
        None => out.push_str("-1"),
    }
    out.push_str(",[");
    for c in &t.children {
        show_tree(c, out);
    }
    out.push_str("])");
}

fn show_oid_stat(o: Option<&extension::untracked_cache::OidStat>) -> String {
    match o {
        None => "-".into(),
        Some(o) => format!("{}@{}", hex(o.id.as_bytes()), show_stat(&o.stat)),
    }
}

fn show_state(state: &State, checksum: Option<gix_hash::ObjectId>) -> String {
    let mut es = String::new();
    for e in state.entries() {
        es.push_str(&format!(
            "[{:x} {:x} {} {} {}]",
            e.flags.bits(),
            e.mode.bits(),
            hex(e.id.as_bytes()),
            show_stat(&e.stat),
            hex(e.path(state))
        ));
    }
    let tree = match state.tree() {
        None => "-".to_string(),
        Some(t) => {
            let mut s = String::new();
            show_tree(t, &mut s);
            s
        }
    };
    let reuc = match state.resolve_undo() {
        None => "-".to_string(),
        Some(paths) => {
            let mut s = String::from("[");
            for p in paths {
                let (name, stages) = p.verif_parts();
                s.push('(');
                s.push_str(&hex(name));
                for st in stages {
                    match st {
                        None => s.push_str(",-"),
                        Some((m, id)) => s.push_str(&format!(",{:x}:{}", m, hex(id.as_bytes()))),
                    }
                }
                s.push(')');
            }
            s.push(']');
            s
        }
    };
    let link = match state.link() {
        None => "-".to_string(),
        Some(l) => {
            let mut s = hex(l.shared_index_checksum.as_bytes());
            if let Some(b) = &l.bitmaps {
                s.push_str(&format!(":{}:{}", show_bits(&b.delete), show_bits(&b.replace)));
            }
            s
        }
    };
    let untr = match state.untracked() {
        None => "-".to_string(),
        Some(u) => {
            let (ident, info, excl, per_dir, flags, dirs) = u.verif_parts();
            let mut ds = String::new();
            for d in dirs {
                ds.push_str(&format!(
                    "({};{};{};{};{};{})",
                    hex(&d.name),
                    d.untracked_entries.iter().map(|n| hex(n)).collect::<Vec<_>>().join(","),
                    d.sub_directories.iter().map(|n| n.to_string()).collect::<Vec<_>>().join(","),
                    d.stat.as_ref().map_or("-".to_string(), show_stat),
                    d.exclude_file_oid.as_ref().map_or("-".to_string(), |o| hex(o.as_bytes())),
                    u8::from(d.check_only)
                ));
            }
            format!(
                "<{} {} {} {} {} {}>",
                hex(ident),
                show_oid_stat(info),
                show_oid_stat(excl),
                hex(per_dir),
                flags,
                ds
            )
        }
    };
    let fsmn = match state.fs_monitor() {
        None => "-".to_string(),
        Some(f) => {
            let (v1, v2, dirty) = f.verif_parts();
            match (v1, v2) {
                (Some(n), _) => format!("1:{}:{}", hex(&n.to_be_bytes()), show_bits(dirty)),
                (None, Some(t)) => format!("2:{}:{}", hex(t), show_bits(dirty)),
                _ => "?".into(),
            }
        }
    };
    format!(
        "ok v={} sparse={} n={} {} eoie={} ieot={} tree={} reuc={} link={} untr={} fsmn={} ck={}",
        state.version() as u8,
        u8::from(state.is_sparse()),
        state.entries().len(),
        es,
        u8::from(state.had_end_of_index_marker()),
        u8::from(state.had_offset_table()),
        tree,
        reuc,
        link,
        untr,
        fsmn,
        checksum.map_or("none".to_string(), |c| hex(c.as_bytes()))
    )
}

type Decoded = Result<Result<(State, Option<gix_hash::ObjectId>), decode::Error>, String>;

fn decode_with(data: &[u8], threads: usize) -> Decoded {
    catch(|| {
        State::from_bytes(
            data,
            filetime::FileTime::from_unix_time(0, 0),
            gix_hash::Kind::Sha1,
            decode::Options {
                thread_limit: Some(threads),
                ..Default::default()
            },
        )
    })
}

fn show_decoded(d: &Decoded) -> String {
    match d {
        Err(_) => "panic".into(),
        Ok(Err(e)) => match e {
            decode::Error::Header(_) => "err:header".into(),
            decode::Error::Entry { .. } => "err:entry".into(),
            decode::Error::Extension(_) => "err:extension".into(),
            decode::Error::UnexpectedTrailerLength { .. } => "err:trailer".into(),
            decode::Error::ChecksumMismatch { .. } => "err:checksum".into(),
        },
        // rendering may itself hit `for_each_set_bit`
        Ok(Ok((s, ck))) => catch(|| show_state(s, *ck)).unwrap_or_else(|_| "panic".into()),
    }
}

struct Obs {
    line: String,
    per_limit: Vec<String>,
    first: Decoded,
}

fn observe(data: &[u8]) -> Obs {
    let mut per_limit = Vec::new();
    let mut first = None;
    for t in LIMITS {
        let d = decode_with(data, t);
        per_limit.push(show_decoded(&d));
        if first.is_none() {
            first = Some(d);
        }
    }
    let line = if per_limit.iter().all(|s| *s == per_limit[0]) {
        format!("all {}", per_limit[0])
    } else {
        format!(
            "DIFFER {}",
            LIMITS
                .iter()
                .zip(&per_limit)
                .map(|(t, s)| format!("t{t}: {s}"))
                .collect::<Vec<_>>()
                .join(" | ")
        )
    };
    Obs {
        line,
        per_limit,
        first: first.unwrap(),
    }
}

// ---------------------------------------------------------------------------------------------------------------
// what git says about the same index file
// ---------------------------------------------------------------------------------------------------------------

#[derive(Debug, PartialEq, Eq, Clone)]
struct GitEntry {
    mode: u32,
    id: String,
    stage: u32,
    path: Vec<u8>,
    ctime: (u32, u32),
    mtime: (u32, u32),
    dev: u32,
    ino: u32,
    uid: u32,
    gid: u32,
    size: u32,
    flags: u32,
}

fn git_with_index(dir: &Path, index: &Path, args: &[&str], stdin: Option<&[u8]>) -> GitOut {
    use std::io::Write;
    use std::process::Stdio;
    let mut c = git_cmd(dir);
    c.env("GIT_INDEX_FILE", index)
        .args(args)
        .stdin(if stdin.is_some() { Stdio::piped() } else { Stdio::null() })
        .stdout(Stdio::piped())
        .stderr(Stdio::piped());
    let mut child = c.spawn().expect("spawn git");
    if let Some(data) = stdin {
        let mut si = child.stdin.take().expect("stdin");
        let _ = si.write_all(data);
    }
    let out = child.wait_with_output().expect("wait git");
    GitOut {
        ok: out.status.success(),
        code: out.status.code().unwrap_or(-1),
        stdout: out.stdout,
        stderr: out.stderr,
    }
}

fn parse_debug_listing(out: &[u8]) -> Option<Vec<GitEntry>> {
    let mut es = Vec::new();
    let mut i = 0;
    while i < out.len() {
        let tab = i + out[i..].iter().position(|b| *b == b'\t')?;
        let head = std::str::from_utf8(&out[i..tab]).ok()?;
        let mut it = head.split(' ');
        let mode = u32::from_str_radix(it.next()?, 8).ok()?;
        let id = it.next()?.to_string();
        let stage: u32 = it.next()?.parse().ok()?;
        let nul = tab + 1 + out[tab + 1..].iter().position(|b| *b == 0)?;
        let path = out[tab + 1..nul].to_vec();
        i = nul + 1;
        let mut nums: Vec<u32> = Vec::new();
        let mut flags = 0;
        for line_no in 0..5 {
            let nl = i + out[i..].iter().position(|b| *b == b'\n')?;
            let line = std::str::from_utf8(&out[i..nl]).ok()?;
            i = nl + 1;
            for (k, tok) in line
                .split(|c: char| c == ' ' || c == '\t' || c == ':')
                .filter(|t| !t.is_empty())
                .enumerate()
            {
                if tok.chars().next().map_or(false, |c| c.is_ascii_hexdigit()) && !tok.chars().any(|c| c.is_ascii_alphabetic() && !c.is_ascii_hexdigit()) {
                    // numbers only; the last line's second number is hex
                    if line_no == 4 && k == 3 {
                        flags = u32::from_str_radix(tok, 16).ok()?;
                    } else if tok.chars().all(|c| c.is_ascii_digit()) {
                        nums.push(tok.parse().ok()?);
                    }
                }
            }
        }
        if nums.len() != 9 {
            return None;
        }
        es.push(GitEntry {
            mode,
            id,
            stage,
            path,
            ctime: (nums[0], nums[1]),
            mtime: (nums[2], nums[3]),
            dev: nums[4],
            ino: nums[5],
            uid: nums[6],
            gid: nums[7],
            size: nums[8],
            flags,
        });
    }
    Some(es)
}

/// the flag bits that are stored on disk: stage, extended, assume-valid, intent-to-add, skip-worktree
const PERSISTED_FLAGS: u32 = 0xF000 | 1 << 29 | 1 << 30;

fn gix_entries(state: &State) -> Vec<GitEntry> {
    state
        .entries()
        .iter()
        .map(|e| GitEntry {
            mode: e.mode.bits(),
            id: e.id.to_string(),
            stage: e.flags.stage_raw(),
            path: e.path(state).to_vec(),
            ctime: (e.stat.ctime.secs, e.stat.ctime.nsecs),
            mtime: (e.stat.mtime.secs, e.stat.mtime.nsecs),
            dev: e.stat.dev,
            ino: e.stat.ino,
            uid: e.stat.uid,
            gid: e.stat.gid,
            size: e.stat.size,
            flags: e.flags.bits(),
        })
        .collect()
}

fn index_version(data: &[u8]) -> u32 {
    if data.len() >= 8 {
        u32::from_be_bytes([data[4], data[5], data[6], data[7]])
    } else {
        0
    }
}

/// Evaluate the property on one git-written index. `repo` is a repository whose object database has the objects the
/// index mentions when `with_objects` (then the cache-tree is compared against `git write-tree --prefix`).
fn oracle(rep: &mut Report, repo: &Path, index: &Path, data: &[u8], obs: &Obs, op: &str, with_objects: bool, untr_probe: Option<(u32, u32)>, tracked: &mut Vec<Vec<u8>>, pick: u64) {
    let version = index_version(data);
    // with core.sparseCheckout git clears SKIP_WORKTREE *in memory* for files that are present in the worktree
    // (clear_skip_worktree_from_present_files); the property is about what is stored, so that is switched off
    let listing = git_with_index(
        repo,
        index,
        &["-c", "sparse.expectFilesOutsideOfPatterns=true", "ls-files", "--sparse", "--stage", "--debug", "-z"],
        None,
    );
    rep.git_checked(1);
    if !listing.ok {
        rep.outside_domain(&format!(
            "git itself rejects this index: {}",
            String::from_utf8_lossy(&listing.stderr).trim()
        ));
        return;
    }
    if !with_objects && String::from_utf8_lossy(&listing.stderr).contains("error:") {
        // replaying a sparse index without the repository it came from: git wants the trees to expand it
        rep.outside_domain("replay without the original object database: git cannot expand this sparse index, listing not compared");
        return;
    }
    let git_entries = match parse_debug_listing(&listing.stdout) {
        Some(e) => e,
        None => {
            rep.note("could not parse git ls-files --debug output");
            return;
        }
    };
    rep.oracle_checked();
    *tracked = git_entries.iter().map(|e| e.path.clone()).collect();
    tracked.dedup();
    let max_len = git_entries.iter().map(|e| e.path.len()).max().unwrap_or(0);
    if !obs.line.starts_with("all ") {
        rep.oracle_failure(
            &format!("thread-limit-dependent v{version} entries={} maxpathlen={max_len}", git_entries.len()),
            &format!("decoding differs between thread limits: {}", obs.per_limit.iter().map(|s| s.chars().take(60).collect::<String>()).collect::<Vec<_>>().join(" | ")),
            op,
        );
    }
    let (state, _ck) = match &obs.first {
        Ok(Ok(x)) => x,
        other => {
            rep.oracle_failure(
                &format!("cannot-decode v{version} entries={} maxpathlen={max_len}", git_entries.len()),
                &format!("git lists {} entries but gitoxide answers {}", git_entries.len(), show_decoded(other)),
                op,
            );
            return;
        }
    };
    if state.link().is_some() {
        // a split index: the file only holds the entries that differ from the shared index, git lists the merged view
        rep.bucket("oracle:split-index-listing-skipped");
        return;
    }
    let mine = gix_entries(state);
    if mine.len() != git_entries.len() {
        rep.oracle_failure(
            &format!("entry-count v{version} git={} gix={} maxpathlen={max_len}", git_entries.len(), mine.len()),
            "different number of entries",
            op,
        );
        return;
    }
    for (g, m) in git_entries.iter().zip(&mine) {
        let same = g.mode == m.mode
            && g.id == m.id
            && g.stage == m.stage
            && g.path == m.path
            && g.ctime == m.ctime
            && g.mtime == m.mtime
            && (g.dev, g.ino, g.uid, g.gid, g.size) == (m.dev, m.ino, m.uid, m.gid, m.size)
            && (g.flags & PERSISTED_FLAGS) == (m.flags & PERSISTED_FLAGS)
            && (m.flags & !PERSISTED_FLAGS) == 0;
        if !same {
            rep.oracle_failure(
                &format!("entry-differs v{version} pathlen={}", g.path.len()),
                &format!(
                    "git: {:o} {} {} flags={:x} stat={:?}{:?} size={} path={}… gix: {:o} {} {} flags={:x} stat={:?}{:?} size={} path={}…",
                    g.mode, g.id, g.stage, g.flags, g.ctime, g.mtime, g.size, hex(&g.path[..g.path.len().min(24)]),
                    m.mode, m.id, m.stage, m.flags, m.ctime, m.mtime, m.size, hex(&m.path[..m.path.len().min(24)])
                ),
                op,
            );
            return;
        }
        if g.flags & !PERSISTED_FLAGS != 0 {
            rep.bucket("git-shows-in-memory-flag");
        }
    }
    // sparse marker: a directory entry means a sparse index
    if git_entries.iter().any(|e| e.mode == 0o040000) {
        rep.bucket("oracle:sparse-dir-entries");
        if !state.is_sparse() {
            rep.oracle_failure(&format!("sparse-marker v{version}"), "directory entries present but is_sparse() is false", op);
        }
    }
    // resolve-undo
    let has_reuc = data.windows(4).any(|w| w == b"REUC");
    let ru = if has_reuc {
        rep.git_checked(1);
        git_with_index(repo, index, &["ls-files", "--sparse", "--resolve-undo", "-z"], None)
    } else {
        GitOut { ok: true, code: 0, stdout: vec![], stderr: vec![] }
    };
    if ru.ok {
        let mut want: Vec<(Vec<u8>, u32, u32, String)> = Vec::new();
        for rec in ru.stdout.split(|b| *b == 0).filter(|r| !r.is_empty()) {
            if let Some(tab) = rec.iter().position(|b| *b == b'\t') {
                let head = String::from_utf8_lossy(&rec[..tab]).to_string();
                let mut it = head.split(' ');
                let mode = u32::from_str_radix(it.next().unwrap_or("0"), 8).unwrap_or(0);
                let id = it.next().unwrap_or("").to_string();
                let stage: u32 = it.next().unwrap_or("0").parse().unwrap_or(0);
                want.push((rec[tab + 1..].to_vec(), stage, mode, id));
            }
        }
        let mut have: Vec<(Vec<u8>, u32, u32, String)> = Vec::new();
        if let Some(paths) = state.resolve_undo() {
            for p in paths {
                let (name, stages) = p.verif_parts();
                for (i, st) in stages.iter().enumerate() {
                    if let Some((m, id)) = st {
                        have.push((name.to_vec(), i as u32 + 1, *m, id.to_string()));
                    }
                }
            }
        }
        if !want.is_empty() {
            rep.bucket("oracle:resolve-undo");
        }
        want.sort();
        have.sort();
        if want != have {
            rep.oracle_failure(
                &format!("resolve-undo v{version} git={} gix={}", want.len(), have.len()),
                &format!("git: {:?} gix: {:?}", want.iter().take(3).collect::<Vec<_>>(), have.iter().take(3).collect::<Vec<_>>()),
                op,
            );
        }
        rep.oracle_checked();
    }
    // cache tree against write-tree
    if with_objects && git_entries.iter().all(|e| e.stage == 0) {
        if let Some(tree) = state.tree() {
            let mut nodes: Vec<(Vec<u8>, &extension::Tree)> = Vec::new();
            fn walk<'a>(prefix: &[u8], t: &'a extension::Tree, out: &mut Vec<(Vec<u8>, &'a extension::Tree)>) {
                let mut p = prefix.to_vec();
                if !t.name.is_empty() {
                    p.extend_from_slice(&t.name);
                    p.push(b'/');
                }
                out.push((p.clone(), t));
                for c in &t.children {
                    walk(&p, c, out);
                }
            }
            walk(b"", tree, &mut nodes);
            let scratch_index = index.with_extension("wt");
            for (k, (prefix, node)) in nodes.iter().enumerate() {
                // every node's entry count, a bounded number of write-tree calls
                if let Some(n) = node.num_entries {
                    let count = git_entries.iter().filter(|e| e.path.starts_with(prefix)).count() as u32;
                    if count != n {
                        rep.oracle_failure(
                            &format!("tree-count v{version} depth={}", prefix.iter().filter(|b| **b == b'/').count()),
                            &format!("cache-tree node {} claims {} entries, the index has {}", String::from_utf8_lossy(prefix), n, count),
                            op,
                        );
                    }
                    if k as u64 == pick % nodes.len() as u64 || k as u64 == (pick / 7) % nodes.len() as u64 {
                        let _ = std::fs::copy(index, &scratch_index);
                        let o = if prefix.is_empty() {
                            git_with_index(repo, &scratch_index, &["write-tree", "--missing-ok"], None)
                        } else {
                            let mut arg = b"--prefix=".to_vec();
                            arg.extend_from_slice(prefix);
                            let mut c = git_cmd(repo);
                            c.env("GIT_INDEX_FILE", &scratch_index).arg("write-tree").arg("--missing-ok").arg(OsStr::from_bytes(&arg));
                            let out = c.output().expect("git write-tree");
                            GitOut { ok: out.status.success(), code: out.status.code().unwrap_or(-1), stdout: out.stdout, stderr: out.stderr }
                        };
                        rep.git_checked(1);
                        if o.ok {
                            let want = String::from_utf8_lossy(&o.stdout).trim().to_string();
                            rep.bucket("oracle:tree-node-vs-write-tree");
                            if want != node.id.to_string() {
                                rep.oracle_failure(
                                    &format!("tree-id v{version} depth={}", prefix.iter().filter(|b| **b == b'/').count()),
                                    &format!("cache-tree node {} has id {}, git write-tree says {}", String::from_utf8_lossy(prefix), node.id, want),
                                    op,
                                );
                            }
                        }
                    }
                }
            }
            let _ = std::fs::remove_file(&scratch_index);
            rep.oracle_checked();
        }
    }
    // untracked cache header: an independent reading of the raw bytes (layout of git's index-format documentation:
    // ident, stat of info/exclude, stat of core.excludesFile, dir flags, the two hashes), and the real file's times
    if let Some(u) = state.untracked() {
        if let Some(at) = data.windows(4).position(|w| w == b"UNTR") {
            let p = &data[at + 8..];
            let (ident_len, n) = gix_features::decode::leb64(p);
            let h = &p[n + ident_len as usize..];
            if h.len() >= 116 {
                let u32_at = |o: usize| u32::from_be_bytes([h[o], h[o + 1], h[o + 2], h[o + 3]]);
                let raw_flags = u32_at(72);
                let raw_info_oid = &h[76..96];
                let (_, info, _, _, flags, _) = u.verif_parts();
                rep.bucket("oracle:untr-header-raw");
                rep.oracle_checked();
                let mut bad = Vec::new();
                if flags != raw_flags {
                    bad.push(format!("dir_flags raw {raw_flags} decoded {flags}"));
                }
                match info {
                    None => {
                        if raw_info_oid.iter().any(|b| *b != 0) {
                            bad.push("info/exclude hash is set in the file but decoded as absent".into());
                        }
                    }
                    Some(info) => {
                        if info.id.as_bytes() != raw_info_oid {
                            bad.push(format!("info/exclude hash raw {} decoded {}", hex(raw_info_oid), info.id));
                        }
                        if (info.stat.ctime.secs, info.stat.mtime.secs, info.stat.size) != (u32_at(0), u32_at(8), u32_at(32)) {
                            bad.push(format!(
                                "info/exclude stat raw ctime {} mtime {} size {} decoded ctime {} mtime {} size {}",
                                u32_at(0), u32_at(8), u32_at(32), info.stat.ctime.secs, info.stat.mtime.secs, info.stat.size
                            ));
                        }
                        if let Some((mtime, ctime)) = untr_probe {
                            rep.bucket("oracle:untr-info-exclude-lstat");
                            if info.stat.mtime.secs != mtime || info.stat.ctime.secs != ctime {
                                bad.push(format!(
                                    ".git/info/exclude has mtime {mtime} ctime {ctime}, decoded mtime {} ctime {}",
                                    info.stat.mtime.secs, info.stat.ctime.secs
                                ));
                            }
                        }
                    }
                }
                if !bad.is_empty() {
                    rep.oracle_failure("untracked-cache-header", &bad.join("; "), op);
                }
            }
        }
    }
}

// ---------------------------------------------------------------------------------------------------------------
// scenario generator: real git on scratch repositories
// ---------------------------------------------------------------------------------------------------------------

struct Repo {
    dir: PathBuf,
    tracked: Vec<Vec<u8>>,
    blobs: Vec<String>,
    committed: bool,
    conflicted: Vec<Vec<u8>>,
    untracked_cache: bool,
}

fn os(b: &[u8]) -> &OsStr {
    OsStr::from_bytes(b)
}

fn gen_name(r: &mut Rng) -> Vec<u8> {
    let alphabet: &[u8] = b"abcdeXYZ019 ._-+\"\\'";
    let n = 1 + r.usize(9);
    let mut v: Vec<u8> = (0..n).map(|_| *r.pick(alphabet)).collect();
    if r.chance(1, 6) {
        v.extend_from_slice("é∂".as_bytes());
    }
    if r.chance(1, 10) {
        v.push(b'\t');
        v.push(b'x');
    }
    while v.first() == Some(&b' ') || v.first() == Some(&b'-') || v.first() == Some(&b'.') {
        v.remove(0);
    }
    while v.last() == Some(&b' ') || v.last() == Some(&b'.') {
        v.pop();
    }
    if v.is_empty() || v == b".git" {
        v = b"f".to_vec();
    }
    v
}

fn gen_path(r: &mut Rng, dirs: &[&[u8]]) -> Vec<u8> {
    let depth = r.usize(3);
    let mut p = Vec::new();
    for _ in 0..depth {
        if r.chance(2, 3) {
            let d: &[u8] = *r.pick(dirs);
            p.extend_from_slice(d);
        } else {
            p.extend_from_slice(&gen_name(r));
        }
        p.push(b'/');
    }
    p.extend_from_slice(&gen_name(r));
    p
}

/// a path of exactly `len` bytes made of components of at most `comp` bytes
fn long_path(r: &mut Rng, len: usize, comp: usize) -> Vec<u8> {
    let mut p = Vec::with_capacity(len);
    let letter = *r.pick(b"klmnopq");
    let mut in_comp = 0;
    while p.len() < len {
        if in_comp == comp && p.len() + 1 < len {
            p.push(b'/');
            in_comp = 0;
        } else {
            p.push(letter);
            in_comp += 1;
        }
    }
    p
}

impl Repo {
    fn g(&self, rep: &mut Report, args: &[&str], stdin: Option<&[u8]>) -> GitOut {
        rep.git_checked(1);
        let o = git(&self.dir, args, stdin);
        if !o.ok {
            rep.bucket("git-step-failed");
        }
        o
    }
    fn gos(&self, rep: &mut Report, args: &[&OsStr]) -> bool {
        rep.git_checked(1);
        let mut c = git_cmd(&self.dir);
        c.args(args).stdin(std::process::Stdio::null());
        let ok = c.output().map(|o| o.status.success()).unwrap_or(false);
        if !ok {
            rep.bucket("git-step-failed");
        }
        ok
    }
    fn write_file(&self, rel: &[u8], content: &[u8]) -> bool {
        let p = self.dir.join(os(rel));
        if let Some(parent) = p.parent() {
            if std::fs::create_dir_all(parent).is_err() {
                return false;
            }
        }
        if p.is_dir() {
            return false;
        }
        std::fs::write(&p, content).is_ok()
    }
    fn blob(&mut self, rep: &mut Report, content: &[u8]) -> String {
        let o = self.g(rep, &["hash-object", "-w", "--stdin"], Some(content));
        let id = String::from_utf8_lossy(&o.stdout).trim().to_string();
        if id.len() == 40 {
            self.blobs.push(id.clone());
        }
        id
    }
    fn some_blob(&mut self, rep: &mut Report, r: &mut Rng) -> String {
        if self.blobs.is_empty() || r.chance(1, 3) {
            let n = r.usize(20);
            let c = r.over(b"abc\n", n);
            self.blob(rep, &c)
        } else {
            r.pick(&self.blobs).clone()
        }
    }
    fn index_info(&self, rep: &mut Report, lines: &[(u32, String, u32, Vec<u8>)]) -> bool {
        let mut input = Vec::new();
        for (mode, id, stage, path) in lines {
            input.extend_from_slice(format!("{:o} {} {}\t", mode, id, stage).as_bytes());
            input.extend_from_slice(path);
            input.push(0);
        }
        self.g(rep, &["update-index", "-z", "--add", "--replace", "--index-info"], Some(&input)).ok
    }
}

const ZERO_ID: &str = "0000000000000000000000000000000000000000";

#[derive(Clone, Copy, Debug, PartialEq, Eq)]
enum Step {
    AddFiles,
    Commit,
    ModifyAdd,
    SkipWorktree,
    AssumeUnchanged,
    IntentToAdd,
    ConflictInfo,
    ResolveConflict,
    LongPaths,
    Status,
    Remove,
    RealMerge,
    Sparse,
    Chmod,
    SplitIndex,
}

fn do_step(rep: &mut Report, r: &mut Rng, repo: &mut Repo, step: Step) {
    let dirs: [&[u8]; 4] = [b"d1", b"d2", b"src", b"a b"];
    match step {
        Step::AddFiles => {
            let n = 1 + r.usize(8);
            for _ in 0..n {
                let p = gen_path(r, &dirs);
                let c = r.over(b"xyz\n", 12);
                if repo.write_file(&p, &c) && r.chance(9, 10) {
                    repo.gos(rep, &[os(b"add"), os(b"--"), os(&p)]);
                }
            }
        }
        Step::Commit => {
            if repo.g(rep, &["commit", "-q", "--allow-empty", "-m", "c"], None).ok {
                repo.committed = true;
            }
        }
        Step::ModifyAdd => {
            if !repo.tracked.is_empty() {
                let p = r.pick(&repo.tracked).clone();
                if p.len() < 200 {
                    let c = r.over(b"mno\n", 15);
                    if repo.write_file(&p, &c) {
                        repo.gos(rep, &[os(b"add"), os(b"--"), os(&p)]);
                    }
                }
            }
        }
        Step::SkipWorktree | Step::AssumeUnchanged => {
            if !repo.tracked.is_empty() {
                let p = r.pick(&repo.tracked).clone();
                let set = r.chance(4, 5);
                let flag: &[u8] = match (step, set) {
                    (Step::SkipWorktree, true) => b"--skip-worktree",
                    (Step::SkipWorktree, false) => b"--no-skip-worktree",
                    (_, true) => b"--assume-unchanged",
                    (_, false) => b"--no-assume-unchanged",
                };
                repo.gos(rep, &[os(b"update-index"), os(flag), os(b"--"), os(&p)]);
            }
        }
        Step::IntentToAdd => {
            let p = gen_path(r, &dirs);
            if repo.write_file(&p, b"ita\n") {
                repo.gos(rep, &[os(b"add"), os(b"-N"), os(b"--"), os(&p)]);
            }
        }
        Step::ConflictInfo => {
            let p = if !repo.tracked.is_empty() && r.chance(1, 2) {
                r.pick(&repo.tracked).clone()
            } else {
                gen_path(r, &dirs)
            };
            let mut lines = vec![(0u32, ZERO_ID.to_string(), 0u32, p.clone())];
            let mask = 1 + r.below(7) as u32;
            for stage in 1..=3u32 {
                if mask & (1 << (stage - 1)) != 0 {
                    let mode = *r.pick(&[0o100644u32, 0o100755, 0o120000]);
                    let id = repo.some_blob(rep, r);
                    lines.push((mode, id, stage, p.clone()));
                }
            }
            if repo.index_info(rep, &lines) {
                repo.conflicted.push(p);
            }
        }
        Step::ResolveConflict => {
            if let Some(p) = repo.conflicted.pop() {
                if p.len() < 200 {
                    if r.chance(2, 3) {
                        if repo.write_file(&p, b"resolved\n") {
                            repo.gos(rep, &[os(b"add"), os(b"--"), os(&p)]);
                        }
                    } else {
                        repo.gos(rep, &[os(b"rm"), os(b"-q"), os(b"--cached"), os(b"--"), os(&p)]);
                    }
                }
            }
        }
        Step::LongPaths => {
            let n = 2 + r.usize(3);
            let mut lines = Vec::new();
            for i in 0..n {
                let len = match if i == 0 { r.below(5) } else { r.below(10) } {
                    0 => 4094,
                    1 | 2 => 4095,
                    3 => 4096,
                    4 => 5000,
                    5 => 4093 + r.usize(6),
                    6 => 4080 + r.usize(40),
                    7 => 1 + r.usize(300),
                    8 => 4095 + 8 * r.usize(4),
                    _ => 3000 + r.usize(6000),
                };
                let comp = *r.pick(&[100usize, 255, 7, 100_000]);
                let p = long_path(r, len, comp);
                let id = repo.some_blob(rep, r);
                let mode = *r.pick(&[0o100644u32, 0o100755]);
                if r.chance(1, 5) {
                    // a long conflicted path
                    lines.push((0, ZERO_ID.to_string(), 0, p.clone()));
                    lines.push((mode, id.clone(), 2, p.clone()));
                    lines.push((mode, id, 3, p));
                } else {
                    lines.push((mode, id, 0, p));
                }
            }
            repo.index_info(rep, &lines);
        }
        Step::Status => {
            // untracked files + status populate and write the untracked cache
            let p = gen_path(r, &dirs);
            repo.write_file(&p, b"untracked\n");
            if repo.untracked_cache {
                repo.g(rep, &["update-index", "--force-untracked-cache"], None);
            }
            repo.g(rep, &["status", "--porcelain", "-uall"], None);
            repo.g(rep, &["status", "--porcelain"], None);
        }
        Step::Remove => {
            if !repo.tracked.is_empty() {
                let p = r.pick(&repo.tracked).clone();
                repo.gos(rep, &[os(b"rm"), os(b"-q"), os(b"--cached"), os(b"--"), os(&p)]);
            }
        }
        Step::Chmod => {
            if !repo.tracked.is_empty() {
                let p = r.pick(&repo.tracked).clone();
                let flag: &[u8] = if r.chance(1, 2) { b"--chmod=+x" } else { b"--chmod=-x" };
                repo.gos(rep, &[os(b"update-index"), os(flag), os(b"--"), os(&p)]);
            }
        }
        Step::RealMerge => {
            // two branches changing the same file => stages 1..3 with real stat data, then resolve => REUC
            if !repo.committed || !repo.conflicted.is_empty() {
                return;
            }
            let p = gen_path(r, &dirs);
            if !repo.write_file(&p, b"base\n") {
                return;
            }
            repo.gos(rep, &[os(b"add"), os(b"--"), os(&p)]);
            if !repo.g(rep, &["commit", "-q", "-m", "base"], None).ok {
                return;
            }
            repo.g(rep, &["checkout", "-q", "-b", "side"], None);
            repo.write_file(&p, b"side\n");
            repo.gos(rep, &[os(b"add"), os(b"--"), os(&p)]);
            repo.g(rep, &["commit", "-q", "-m", "side"], None);
            repo.g(rep, &["checkout", "-q", "main"], None);
            if r.chance(1, 3) {
                repo.gos(rep, &[os(b"rm"), os(b"-q"), os(b"--"), os(&p)]);
            } else {
                repo.write_file(&p, b"main\n");
                repo.gos(rep, &[os(b"add"), os(b"--"), os(&p)]);
            }
            repo.g(rep, &["commit", "-q", "-m", "main"], None);
            rep.git_checked(1);
            let _ = git(&repo.dir, &["merge", "-q", "side"], None); // expected to stop with a conflict
            repo.g(rep, &["branch", "-q", "-D", "side"], None);
            repo.conflicted.push(p);
        }
        Step::SplitIndex => {
            repo.g(rep, &["update-index", "--split-index"], None);
        }
        Step::Sparse => {
            if !repo.committed || !repo.conflicted.is_empty() {
                return;
            }
            repo.g(rep, &["commit", "-q", "-a", "-m", "pre-sparse"], None);
            if repo.g(rep, &["sparse-checkout", "init", "--cone", "--sparse-index"], None).ok {
                let keep: &[u8] = *r.pick(&dirs);
                repo.gos(rep, &[os(b"sparse-checkout"), os(b"set"), os(keep)]);
            }
        }
    }
}

fn snapshot_case(rep: &mut Report, repo: &mut Repo, label: &str, seen: &mut std::collections::BTreeSet<Vec<u8>>, pick: u64) {
    let index = repo.dir.join(".git/index");
    let data = match std::fs::read(&index) {
        Ok(d) => d,
        Err(_) => return,
    };
    if !seen.insert(data.clone()) {
        return;
    }
    let snap = repo.dir.join(".git/verif-snapshot");
    if std::fs::write(&snap, &data).is_err() {
        return;
    }
    let op = format!("dec {}", hex(&data));
    let obs = observe(&data);
    rep.case(&op, &obs.line, true);
    // the Lean transcription of git's writer must reproduce git's bytes from what was decoded
    if let Ok(Ok((state, _))) = &obs.first {
        let p = |b: bool| if b { "same" } else { "absent" };
        rep.case(
            &format!("spec {}", hex(&data)),
            &format!(
                "entries=same ieot={} tree={} reuc={} eoie={}",
                p(state.had_offset_table()),
                p(state.tree().is_some()),
                p(state.resolve_undo().is_some()),
                p(state.had_end_of_index_marker())
            ),
            true,
        );
    }
    if let Ok(Ok((state, _))) = &obs.first {
        let p = |b: bool| if b { "same" } else { "absent" };
        rep.case(
            &format!("specext {}", hex(&data)),
            &format!("untr={} link={}", p(state.untracked().is_some()), p(state.link().is_some())),
            true,
        );
    }
    rep.bucket(&format!("git-index v{}", index_version(&data)));
    rep.bucket(&format!("step:{label}"));
    for (sig, name) in [(b"IEOT", "ieot"), (b"EOIE", "eoie"), (b"TREE", "tree"), (b"REUC", "reuc"), (b"UNTR", "untr"), (b"sdir", "sdir"), (b"link", "link")] {
        if data.windows(4).any(|w| w == sig) {
            rep.bucket(&format!("ext:{name}"));
        }
    }
    let untr_probe = if repo.untracked_cache {
        use std::os::unix::fs::MetadataExt;
        std::fs::metadata(repo.dir.join(".git/info/exclude")).ok().map(|m| (m.mtime() as u32, m.ctime() as u32))
    } else {
        None
    };
    let mut tracked = Vec::new();
    oracle(rep, &repo.dir, &snap, &data, &obs, &op, true, untr_probe, &mut tracked, pick);
    repo.tracked = tracked;
    let _ = std::fs::remove_file(&snap);
}

fn scenario(rep: &mut Report, r: &mut Rng, scratch: &Scratch, k: u64, seen: &mut std::collections::BTreeSet<Vec<u8>>) {
    let dir = scratch.join(format!("w{k}"));
    std::fs::create_dir_all(&dir).expect("mkdir");
    let mut repo = Repo {
        dir,
        tracked: vec![],
        blobs: vec![],
        committed: false,
        conflicted: vec![],
        untracked_cache: false,
    };
    repo.g(rep, &["init", "-q", "."], None);
    // the first scenarios are a fixed corpus: long paths under version 2 and 4 (with and without offset table), …
    let version = match k {
        0 | 3 => "2",
        1 | 2 | 4 => "4",
        _ => *r.pick(&["2", "2", "4", "4", "4", "3"]),
    };
    repo.g(rep, &["config", "index.version", version], None);
    let threads = match k {
        0 => "",
        1 => "3",
        2 => "1",
        _ => *r.pick(&["", "1", "2", "3", "3", "5", "8", "true"]),
    };
    if !threads.is_empty() {
        repo.g(rep, &["config", "index.threads", threads], None);
    }
    rep.bucket(&format!("cfg index.version={version}"));
    rep.bucket(&format!("cfg index.threads={}", if threads.is_empty() { "unset" } else { threads }));
    if r.chance(1, 3) {
        repo.untracked_cache = true;
        repo.g(rep, &["config", "core.untrackedCache", "true"], None);
        // make mtime and ctime of .git/info/exclude differ
        let _ = std::fs::create_dir_all(repo.dir.join(".git/info"));
        let excl = repo.dir.join(".git/info/exclude");
        let _ = std::fs::write(&excl, b"*.o\n");
        let _ = filetime::set_file_mtime(&excl, filetime::FileTime::from_unix_time(1_500_000_000, 0));
        rep.bucket("cfg untrackedCache");
    }
    // corpus scenarios first (k small), then random walks
    let plan: Vec<Step> = match k {
        0 | 1 | 2 => vec![Step::AddFiles, Step::LongPaths, Step::LongPaths, Step::AddFiles, Step::LongPaths, Step::IntentToAdd],
        3 => vec![Step::AddFiles, Step::Commit, Step::RealMerge, Step::ResolveConflict, Step::Status],
        4 => vec![Step::AddFiles, Step::AddFiles, Step::Commit, Step::Sparse, Step::Status],
        5 => vec![Step::AddFiles, Step::IntentToAdd, Step::SkipWorktree, Step::AssumeUnchanged, Step::ConflictInfo, Step::ResolveConflict, Step::LongPaths, Step::SplitIndex, Step::ModifyAdd, Step::Remove],
        _ => {
            let n = 3 + r.usize(7);
            let all = [
                Step::AddFiles, Step::AddFiles, Step::Commit, Step::ModifyAdd, Step::SkipWorktree, Step::AssumeUnchanged,
                Step::IntentToAdd, Step::ConflictInfo, Step::ResolveConflict, Step::LongPaths, Step::Status, Step::Remove,
                Step::RealMerge, Step::Sparse, Step::Chmod, Step::Commit, Step::SplitIndex,
            ];
            let mut v = vec![Step::AddFiles];
            for _ in 0..n {
                v.push(*r.pick(&all));
            }
            v
        }
    };
    for step in plan {
        do_step(rep, r, &mut repo, step);
        let pick = r.u64();
        snapshot_case(rep, &mut repo, &format!("{step:?}"), seen, pick);
    }
    let _ = std::fs::remove_dir_all(&repo.dir);
}

// ---------------------------------------------------------------------------------------------------------------
// malformed stream
// ---------------------------------------------------------------------------------------------------------------

fn be32(n: u32) -> [u8; 4] {
    n.to_be_bytes()
}

fn index_of(version: u32, n: u32, body: &[u8], exts: &[(&[u8; 4], Vec<u8>)]) -> Vec<u8> {
    let mut v = b"DIRC".to_vec();
    v.extend_from_slice(&be32(version));
    v.extend_from_slice(&be32(n));
    v.extend_from_slice(body);
    for (sig, payload) in exts {
        v.extend_from_slice(*sig);
        v.extend_from_slice(&be32(payload.len() as u32));
        v.extend_from_slice(payload);
    }
    v.extend_from_slice(&[0x11; 20]);
    v
}

fn raw_entry(flags: u16, ext: Option<u16>, path_and_tail: &[u8]) -> Vec<u8> {
    let mut v = Vec::new();
    for k in 1..=10u32 {
        v.extend_from_slice(&be32(if k == 7 { 0o100644 } else { k }));
    }
    v.extend_from_slice(&[0xab; 20]);
    v.extend_from_slice(&flags.to_be_bytes());
    if let Some(x) = ext {
        v.extend_from_slice(&x.to_be_bytes());
    }
    v.extend_from_slice(path_and_tail);
    v
}

fn ewah_bytes(num_bits: u32, words: &[u64], rlw: u32) -> Vec<u8> {
    let mut v = be32(num_bits).to_vec();
    v.extend_from_slice(&be32(words.len() as u32));
    for w in words {
        v.extend_from_slice(&w.to_be_bytes());
    }
    v.extend_from_slice(&be32(rlw));
    v
}

fn untr_bytes(check_only: &[u8], valid: &[u8], hash_valid: &[u8], tail: &[u8]) -> Vec<u8> {
    let mut v = vec![3u8];
    v.extend_from_slice(b"abc");
    for _ in 0..2 {
        v.extend_from_slice(&[0u8; 36]);
        v.extend_from_slice(&[0u8; 20]);
    }
    v.extend_from_slice(&be32(6));
    v.extend_from_slice(b".gitignore\0");
    v.push(1); // one directory block
    v.push(0); // untracked
    v.push(0); // sub dirs
    v.extend_from_slice(b"\0");
    v.extend_from_slice(valid);
    v.extend_from_slice(check_only);
    v.extend_from_slice(hash_valid);
    v.extend_from_slice(tail);
    v.push(0);
    v
}

fn malformed_corpus() -> Vec<(String, Vec<u8>)> {
    let mut out: Vec<(String, Vec<u8>)> = Vec::new();
    // an entry whose padding is cut off by the end of the file (skip_padding slices past the end)
    for plen in [0usize, 1, 2, 5, 9] {
        let mut v = b"DIRC".to_vec();
        v.extend_from_slice(&be32(2));
        v.extend_from_slice(&be32(1));
        v.extend_from_slice(&raw_entry(plen as u16, None, &vec![b'p'; plen]));
        out.push((format!("v2 entry without padding at eof pathlen={plen}"), v));
        let mut v = b"DIRC".to_vec();
        v.extend_from_slice(&be32(3));
        v.extend_from_slice(&be32(1));
        v.extend_from_slice(&raw_entry(0x4000 | plen as u16, Some(0x4000), &vec![b'p'; plen]));
        v.extend_from_slice(&[0, 0]);
        out.push((format!("v3 extended entry with short padding at eof pathlen={plen}"), v));
    }
    // a long (NUL-terminated) name whose padding is cut off
    {
        let mut tail = vec![b'q'; 4095];
        tail.push(0);
        let mut v = b"DIRC".to_vec();
        v.extend_from_slice(&be32(2));
        v.extend_from_slice(&be32(1));
        v.extend_from_slice(&raw_entry(0xfff, None, &tail));
        out.push(("v2 long name, padding cut off at eof".into(), v));
    }
    // well-formed small hand-made indices (sanity for the model)
    {
        let mut body = raw_entry(1, None, b"a");
        body.extend_from_slice(&[0; 1]); // 62 + 1 = 63 -> 64
        out.push(("hand-made v2 one entry".into(), index_of(2, 1, &body, &[])));
        let mut body = raw_entry(0x4001, Some(0x2000), b"a");
        body.extend_from_slice(&[0; 7]); // 64 + 1 = 65 -> 72
        out.push(("hand-made v3 one entry ita".into(), index_of(3, 1, &body, &[])));
        out.push(("hand-made v3 unknown extended flag".into(), {
            let mut body = raw_entry(0x4001, Some(0x1000), b"a");
            body.extend_from_slice(&[0; 7]);
            index_of(3, 1, &body, &[])
        }));
        let mut body = raw_entry(0, None, &[0, b'a', b'b', 0]);
        body.extend_from_slice(&raw_entry(0, None, &[1, b'c', 0]));
        out.push(("hand-made v4 two entries".into(), index_of(4, 2, &body, &[])));
        out.push(("hand-made v4 strip too long".into(), {
            let mut body = raw_entry(0, None, &[0, b'a', b'b', 0]);
            body.extend_from_slice(&raw_entry(0, None, &[3, b'c', 0]));
            index_of(4, 2, &body, &[])
        }));
        out.push(("hand-made v4 11-byte varint".into(), {
            let mut tail = vec![0x80u8; 10];
            tail.extend_from_slice(&[1, b'a', 0]);
            index_of(4, 1, &raw_entry(0, None, &tail), &[])
        }));
    }
    // EWAH bitmaps whose literal count overruns the words, inside UNTR and link
    let ok = ewah_bytes(0, &[], 0);
    let overrun = ewah_bytes(1, &[1u64 << 33], 0);
    let overrun2 = ewah_bytes(1, &[3u64 << 33, 1], 0);
    let one = ewah_bytes(1, &[1u64 << 33, 1], 0);
    let oob = ewah_bytes(1, &[1u64 << 33, 2], 0);
    let run_oob = ewah_bytes(1, &[1 | (1u64 << 1)], 0);
    out.push(("untr well-formed".into(), index_of(2, 0, &[], &[(b"UNTR", untr_bytes(&ok, &ok, &ok, &[]))])));
    out.push(("untr check_only bit 0".into(), index_of(2, 0, &[], &[(b"UNTR", untr_bytes(&one, &ok, &ok, &[]))])));
    out.push(("untr valid bit 0 with stat".into(), index_of(2, 0, &[], &[(b"UNTR", untr_bytes(&ok, &one, &ok, &[7u8; 36]))])));
    out.push(("untr hash_valid bit 0 with oid".into(), index_of(2, 0, &[], &[(b"UNTR", untr_bytes(&ok, &ok, &one, &[9u8; 20]))])));
    out.push(("untr check_only literal overrun".into(), index_of(2, 0, &[], &[(b"UNTR", untr_bytes(&overrun, &ok, &ok, &[]))])));
    out.push(("untr check_only literal overrun after one word".into(), index_of(2, 0, &[], &[(b"UNTR", untr_bytes(&overrun2, &ok, &ok, &[]))])));
    out.push(("untr valid literal overrun".into(), index_of(2, 0, &[], &[(b"UNTR", untr_bytes(&ok, &overrun, &ok, &[]))])));
    out.push(("untr hash_valid literal overrun".into(), index_of(2, 0, &[], &[(b"UNTR", untr_bytes(&ok, &ok, &overrun, &[]))])));
    out.push(("untr check_only index out of bounds".into(), index_of(2, 0, &[], &[(b"UNTR", untr_bytes(&oob, &ok, &ok, &[]))])));
    out.push(("untr check_only run out of bounds".into(), index_of(2, 0, &[], &[(b"UNTR", untr_bytes(&run_oob, &ok, &ok, &[]))])));
    let mut link = vec![0x22u8; 20];
    link.extend_from_slice(&one);
    link.extend_from_slice(&overrun);
    out.push(("link replace bitmap literal overrun".into(), index_of(2, 0, &[], &[(b"link", link)])));
    let mut link = vec![0x22u8; 20];
    link.extend_from_slice(&one);
    link.extend_from_slice(&ewah_bytes(70, &[(2u64 << 33) | (1 << 1) | 1, 5, 1 << 63], 0));
    out.push(("link well-formed bitmaps".into(), index_of(2, 0, &[], &[(b"link", link)])));
    out.push(("sdir with payload".into(), index_of(2, 0, &[], &[(b"sdir", vec![1])])));
    out.push(("unknown mandatory extension".into(), index_of(2, 0, &[], &[(b"zzzz", vec![])])));
    out.push(("unknown optional extension".into(), index_of(2, 0, &[], &[(b"ZZZZ", vec![1, 2, 3])])));
    out.push(("tree with trailing garbage".into(), index_of(2, 0, &[], &[(b"TREE", b"\x000 0\n".iter().copied().chain([7u8; 20]).chain([1u8]).collect())])));
    out.push(("tree minimal".into(), index_of(2, 0, &[], &[(b"TREE", b"\x00-1 0\n".to_vec())])));
    out.push(("tree duplicate children".into(), index_of(2, 0, &[], &[(b"TREE", b"\x00-1 2\na\x00-1 0\na\x00-1 0\n".to_vec())])));
    out.push(("tree children out of name order".into(), index_of(2, 0, &[], &[(b"TREE", b"\x00-1 2\nb\x00-1 0\naa\x00-1 0\n".to_vec())])));
    out.push(("reuc minimal".into(), index_of(2, 0, &[], &[(b"REUC", b"p\x00100644\x000\x00100755\x00".iter().copied().chain([5u8; 40]).collect())])));
    out.push(("fsmn v2".into(), index_of(2, 0, &[], &[(b"FSMN", {
        let mut v = be32(2).to_vec();
        v.extend_from_slice(b"tok\0");
        v.extend_from_slice(&be32(one.len() as u32));
        v.extend_from_slice(&one);
        v
    })])));
    // offset tables pointing anywhere: two v2 entries "a" and "b" (64 bytes each), IEOT + a correct EOIE
    {
        let mut e1 = raw_entry(1, None, b"a");
        e1.push(0);
        let mut e2 = raw_entry(1, None, b"b");
        e2.push(0);
        let mut body = e1.clone();
        body.extend_from_slice(&e2);
        let with_ieot = |blocks: &[(u32, u32)], n: u32| -> Vec<u8> {
            let mut ieot = be32(1).to_vec();
            for (off, cnt) in blocks {
                ieot.extend_from_slice(&be32(*off));
                ieot.extend_from_slice(&be32(*cnt));
            }
            let mut h = gix_features::hash::hasher(gix_hash::Kind::Sha1);
            h.update(b"IEOT");
            h.update(&be32(ieot.len() as u32));
            let mut eoie = be32(12 + body.len() as u32).to_vec();
            eoie.extend_from_slice(&h.digest());
            index_of(2, n, &body, &[(b"IEOT", ieot), (b"EOIE", eoie)])
        };
        let len = with_ieot(&[(12, 1), (76, 1)], 2).len() as u32;
        for (label, blocks) in [
            ("valid two blocks", vec![(12u32, 1u32), (76, 1)]),
            ("valid one block", vec![(12, 2)]),
            ("second block one past eof", vec![(12, 1), (len + 1, 1)]),
            ("first block one past eof", vec![(len + 1, 1), (76, 1)]),
            ("block at u32::MAX", vec![(12, 1), (u32::MAX, 1)]),
            ("block exactly at eof", vec![(12, 1), (len, 1)]),
            ("block at eof with no entries", vec![(12, 2), (len, 0)]),
            ("block past eof with no entries", vec![(12, 2), (len + 7, 0)]),
            ("block inside the header (0)", vec![(0, 1), (76, 1)]),
            ("block inside the header (4)", vec![(4, 1), (76, 1)]),
            ("block inside the header (11)", vec![(12, 1), (11, 1)]),
            ("overlapping: both at the first entry", vec![(12, 1), (12, 1)]),
            ("overlapping: second in the middle of the first", vec![(12, 1), (44, 1)]),
            ("overlapping: first covers both, second repeats", vec![(12, 2), (76, 1)]),
            ("reversed order", vec![(76, 1), (12, 1)]),
            ("too many entries in a block", vec![(12, 1), (76, 2)]),
            ("entry error in one group, offset past eof in a later one", vec![(13, 1), (len + 1, 1), (76, 1)]),
            ("offset past eof first, entry error later", vec![(len + 9, 1), (13, 1), (76, 1)]),
            ("three blocks, the last empty", vec![(12, 1), (76, 1), (140, 0)]),
        ] {
            out.push((format!("ieot {label}"), with_ieot(&blocks, 2)));
        }
    }
    // nesting at the decoders' depth limit (4096)
    for depth in [4095usize, 4096, 4097, 4098] {
        // a chain of cache-tree nodes: the root (depth 0) plus `depth` nested children
        let mut tree = Vec::new();
        for k in 0..=depth {
            if k > 0 {
                tree.push(b'd');
            }
            tree.extend_from_slice(if k < depth { b"\x00-1 1\n" } else { b"\x00-1 0\n" });
        }
        out.push((format!("tree nested {depth} deep"), index_of(2, 0, &[], &[(b"TREE", tree)])));
        // a chain of untracked-cache directory blocks
        let ok = ewah_bytes(0, &[], 0);
        let mut v = vec![3u8];
        v.extend_from_slice(b"abc");
        v.extend_from_slice(&[0u8; 36 + 36]);
        v.extend_from_slice(&be32(6));
        v.extend_from_slice(&[0u8; 40]);
        v.extend_from_slice(b".gitignore\0");
        let n = depth as u64 + 1;
        // varint of the number of blocks (git's offset encoding, two or three bytes here)
        let mut enc = vec![(n & 127) as u8];
        let mut m = n >> 7;
        while m != 0 {
            m -= 1;
            enc.insert(0, 128 | (m & 127) as u8);
            m >>= 7;
        }
        v.extend_from_slice(&enc);
        for k in 0..=depth {
            v.push(0); // untracked
            v.push(u8::from(k < depth)); // sub directories
            v.extend_from_slice(b"d\0");
        }
        v.extend_from_slice(&ok);
        v.extend_from_slice(&ok);
        v.extend_from_slice(&ok);
        v.push(0);
        out.push((format!("untr nested {depth} deep"), index_of(2, 0, &[], &[(b"UNTR", v)])));
    }
    // FSMN announcing a bitmap larger than the extension
    out.push(("fsmn bitmap size beyond the extension".into(), index_of(2, 0, &[], &[(b"FSMN", {
        let mut v = be32(2).to_vec();
        v.extend_from_slice(b"tok\0");
        v.extend_from_slice(&be32(1000));
        v.extend_from_slice(&ewah_bytes(1, &[1u64 << 33, 1], 0));
        v
    })])));
    out.push(("fsmn v1".into(), index_of(2, 0, &[], &[(b"FSMN", {
        let e = ewah_bytes(3, &[1u64 << 33, 5], 0);
        let mut v = be32(1).to_vec();
        v.extend_from_slice(&7u64.to_be_bytes());
        v.extend_from_slice(&be32(e.len() as u32));
        v.extend_from_slice(&e);
        v
    })])));
    out.retain(|(_, v)| !v.is_empty());
    out
}

/// byte ranges that are not mutated: the header (a different version/count is a different test)
fn risky(_data: &[u8], pos: usize) -> bool {
    pos < 12
}

fn malformed_from(r: &mut Rng, base: &[u8]) -> (String, Vec<u8>) {
    let mut v = base.to_vec();
    match r.below(5) {
        0 => {
            // truncate and re-append a trailer
            let cut = 12 + r.usize(v.len().saturating_sub(12).max(1));
            v.truncate(cut);
            if r.chance(1, 2) {
                v.extend_from_slice(&[0x33; 20]);
            }
            ("truncated".into(), v)
        }
        1 | 2 => {
            let n = 1 + r.usize(3);
            for _ in 0..n {
                let pos = r.usize(v.len());
                if !risky(&v, pos) {
                    v[pos] = match r.below(4) {
                        0 => 0,
                        1 => 0xff,
                        2 => v[pos] ^ (1 << r.below(8)),
                        _ => r.byte(),
                    };
                }
            }
            ("byte-flips".into(), v)
        }
        3 => {
            // drop a few bytes in the middle (shifts alignment)
            let pos = 12 + r.usize(v.len().saturating_sub(32).max(1));
            let n = 1 + r.usize(9);
            if pos + n < v.len() && !risky(&v, pos) {
                v.drain(pos..pos + n);
            }
            ("bytes-dropped".into(), v)
        }
        _ => {
            let pos = 12 + r.usize(v.len().saturating_sub(32).max(1));
            if !risky(&v, pos) {
                let extra = r.over(&[0, 0, 0xff, b'a'], 8);
                for (k, b) in extra.iter().enumerate() {
                    v.insert(pos + k, *b);
                }
            }
            ("bytes-inserted".into(), v)
        }
    }
}

fn malformed_case(rep: &mut Report, label: &str, data: &[u8]) {
    let op = format!("dec {}", hex(data));
    let obs = observe(data);
    let kind = obs.per_limit[0].split(' ').next().unwrap_or("").to_string();
    rep.bucket(&format!("malformed:{label} -> {kind}"));
    if obs.per_limit.iter().any(|s| s == "panic") {
        rep.oracle_failure(
            &format!("panic-on-malformed: {label}"),
            &format!("State::from_bytes panics instead of returning an error ({} bytes)", data.len()),
            &op,
        );
    }
    rep.oracle_checked();
    rep.case(&op, &obs.line, true);
}

fn main() {
    let args = Args::parse();
    let mut rep = Report::new("C24", &args);
    let scratch = Scratch::new("c24");

    if let Some(ops) = replay_ops(&args) {
        let dir = scratch.join("replay");
        std::fs::create_dir_all(&dir).expect("mkdir");
        git_ok(&dir, &["init", "-q", "."], None);
        for (k, v) in [("core.sparseCheckout", "true"), ("core.sparseCheckoutCone", "true"), ("index.sparse", "true")] {
            git_ok(&dir, &["config", k, v], None);
        }
        for op in ops {
            let parts: Vec<&str> = op.split(' ').collect();
            match parts.as_slice() {
                ["dec", h] => {
                    if let Some(data) = unhex(h) {
                        let obs = observe(&data);
                        rep.case(&op, &obs.line, true);
                        if obs.per_limit.iter().any(|s| s == "panic") {
                            rep.oracle_failure("panic-on-replayed-input", "State::from_bytes panics", &op);
                        }
                        let snap = dir.join(".git/verif-snapshot");
                        std::fs::write(&snap, &data).expect("write snapshot");
                        oracle(&mut rep, &dir, &snap, &data, &obs, &op, false, None, &mut Vec::new(), 0);
                    }
                }
                ["varint", h] => {
                    if let Some(data) = unhex(h) {
                        rep.case(&op, &varint_obs(&data), true);
                    }
                }
                ["sha1", h] => {
                    if let Some(data) = unhex(h) {
                        rep.case(&op, &sha1_obs(&data), true);
                    }
                }
                _ => {}
            }
        }
        rep.finish();
        return;
    }

    let mut r = Rng::new(args.seed);

    // varint + sha1 ties
    for k in 0..args.budget(300, 3000) {
        let data = match k % 4 {
            0 => {
                let n = r.usize(12);
                r.bytes(n)
            }
            1 => {
                let mut v: Vec<u8> = (0..r.usize(10)).map(|_| 0x80 | r.byte()).collect();
                v.push(r.byte() & 0x7f);
                v.extend_from_slice(&r.bytes(2));
                v
            }
            2 => vec![r.byte() & 0x7f, r.byte()],
            _ => {
                let mut v = vec![0xffu8; r.usize(11)];
                v.push(0x7f);
                v
            }
        };
        let o = varint_obs(&data);
        if o == "panic" {
            rep.oracle_failure("varint-panics", "leb64_from_read panics", &format!("varint {}", hex(&data)));
        }
        rep.case(&format!("varint {}", hex(&data)), &o, true);
    }
    for k in 0..args.budget(20, 200) {
        let n = match k {
            0 => 0,
            1 => 55,
            2 => 56,
            3 => 63,
            4 => 64,
            5 => 119,
            6 => 120,
            _ => r.usize(300),
        };
        let data = r.bytes(n);
        rep.case(&format!("sha1 {}", hex(&data)), &sha1_obs(&data), true);
    }

    // hand-made malformed / boundary corpus
    for (label, data) in malformed_corpus() {
        malformed_case(&mut rep, &label, &data);
    }

    // git-written indices
    let mut seen = std::collections::BTreeSet::new();
    let scenarios = args.budget(11, 90);
    for k in 0..scenarios {
        scenario(&mut rep, &mut r, &scratch, k, &mut seen);
    }

    // mutations of git-written indices
    let bases: Vec<Vec<u8>> = seen.iter().filter(|d| d.len() < 6000).cloned().collect();
    if !bases.is_empty() {
        for _ in 0..args.budget(150, 3000) {
            let base = r.pick(&bases).clone();
            let (label, data) = malformed_from(&mut r, &base);
            malformed_case(&mut rep, &label, &data);
        }
    }
    rep.finish();
}

fn varint_obs(data: &[u8]) -> String {
    match catch(|| gix_features::decode::leb64_from_read(data)) {
        Err(_) => "panic".into(),
        Ok(Err(_)) => "none".into(),
        Ok(Ok((v, n))) => format!("{} {}", v, hex(&data[n..])),
    }
}

fn sha1_obs(data: &[u8]) -> String {
    let mut h = gix_features::hash::hasher(gix_hash::Kind::Sha1);
    h.update(data);
    hex(&h.digest())
}
