//! C02 — objects created by git decode identically in both decoders and re-encode verbatim.
//!
//! Source of objects: the git 2.39 binary (`commit-tree`, `hash-object -t commit` (fsck-checked),
//! `mktag`, `mktree`) fed with generated FIELD VALUES; the bytes are read back with `cat-file --batch`.
//! Per object three correspondence ops (`parse*`, `iter*`, `reencode*`) go to the Lean driver, plus a
//! `render*` op whose expected observation is what *git* wrote (this validates the transcription of
//! git's writer in Spec/C02.lean). A second stream of byte-level mutations of those objects and of
//! hand-made non-canonical forms ties the model on everything the decoders accept or reject.
//!
//! Oracle (independent of the model): full decoder accepts; the token iterator yields only `Ok`
//! items whose fields equal the full decoder's, field by field; `write_to` of the decoded `*Ref`
//! reproduces git's bytes and `compute_hash` of them is git's object id.
use gix_object::bstr::ByteSlice;
use gix_object::WriteTo;
use hcommon::*;
use std::io::{BufRead, BufReader, Read, Write};

// ---------------------------------------------------------------------------------------------
// observations (must match Model/C02.lean `show*`)

fn show_time(t: &gix_date::Time) -> String {
    format!(
        "{}/{}/{}",
        t.seconds,
        t.offset,
        if t.sign == gix_date::time::Sign::Minus { "-" } else { "+" }
    )
}

fn show_sig(s: &gix_actor::SignatureRef<'_>) -> String {
    format!("{}/{}/{}", hex(s.name), hex(s.email), show_time(&s.time))
}

fn show_opt(b: Option<&[u8]>) -> String {
    match b {
        None => "none".into(),
        Some(b) => hex(b),
    }
}

fn show_commit(c: &gix_object::CommitRef<'_>) -> String {
    format!(
        "ok tree={} parents=[{}] author={} committer={} enc={} extra=[{}] msg={}",
        hex(c.tree),
        c.parents.iter().map(|p| hex(p)).collect::<Vec<_>>().join(","),
        show_sig(&c.author),
        show_sig(&c.committer),
        show_opt(c.encoding.map(|e| e.as_bytes())),
        c.extra_headers
            .iter()
            .map(|(n, v)| format!("{}:{}", hex(n), hex(v.as_ref())))
            .collect::<Vec<_>>()
            .join(","),
        hex(c.message)
    )
}

fn id_hex(id: &gix_hash::ObjectId) -> String {
    hex(id.to_hex().to_string().as_bytes())
}

fn show_ctoken(t: &gix_object::commit::ref_iter::Token<'_>) -> String {
    use gix_object::commit::ref_iter::Token::*;
    match t {
        Tree { id } => format!("T:{}", id_hex(id)),
        Parent { id } => format!("P:{}", id_hex(id)),
        Author { signature } => format!("A:{}", show_sig(signature)),
        Committer { signature } => format!("C:{}", show_sig(signature)),
        Encoding(e) => format!("E:{}", hex(e)),
        ExtraHeader((n, v)) => format!("X:{}:{}", hex(n), hex(v.as_ref())),
        Message(m) => format!("M:{}", hex(m)),
    }
}

fn kind_str(k: gix_object::Kind) -> &'static str {
    match k {
        gix_object::Kind::Tree => "tree",
        gix_object::Kind::Blob => "blob",
        gix_object::Kind::Commit => "commit",
        gix_object::Kind::Tag => "tag",
    }
}

fn show_tag(t: &gix_object::TagRef<'_>) -> String {
    format!(
        "ok target={} kind={} name={} tagger={} msg={} pgp={}",
        hex(t.target),
        kind_str(t.target_kind),
        hex(t.name),
        match &t.tagger {
            None => "none".to_string(),
            Some(s) => show_sig(s),
        },
        hex(t.message),
        show_opt(t.pgp_signature.map(|e| e.as_bytes()))
    )
}

fn show_ttoken(t: &gix_object::tag::ref_iter::Token<'_>) -> String {
    use gix_object::tag::ref_iter::Token::*;
    match t {
        Target { id } => format!("O:{}", id_hex(id)),
        TargetKind(k) => format!("K:{}", kind_str(*k)),
        Name(n) => format!("N:{}", hex(n)),
        Tagger(None) => "G:none".into(),
        Tagger(Some(s)) => format!("G:{}", show_sig(s)),
        Body { message, pgp_signature } => {
            format!("B:{}:{}", hex(message), show_opt(pgp_signature.map(|e| e.as_bytes())))
        }
    }
}

fn show_entry(e: &gix_object::tree::EntryRef<'_>) -> String {
    format!("{}:{}:{}", e.mode.0, hex(e.filename), hex(e.oid.as_bytes()))
}

fn show_write(w: &std::io::Result<Vec<u8>>) -> String {
    match w {
        Err(_) => "werr".into(),
        Ok(b) => format!("ok {}", hex(b)),
    }
}

fn write_of(f: impl FnOnce(&mut Vec<u8>) -> std::io::Result<()>) -> std::io::Result<Vec<u8>> {
    let mut v = Vec::new();
    f(&mut v).map(|_| v)
}

/// outside-domain observations, one per class (the same text up to numbers)
fn outside(rep: &mut Report, what: &str) {
    static SEEN: std::sync::Mutex<std::collections::BTreeSet<String>> = std::sync::Mutex::new(std::collections::BTreeSet::new());
    let class: String = what.chars().filter(|c| !c.is_ascii_digit()).collect();
    if SEEN.lock().unwrap().insert(class) {
        rep.outside_domain(what);
    }
}

fn fnv_key(s: &[u8]) -> String {
    let mut h: u64 = 0xcbf29ce484222325;
    for b in s {
        h ^= *b as u64;
        h = h.wrapping_mul(0x100000001b3);
    }
    format!("{h:016x}")
}

// ---------------------------------------------------------------------------------------------
// what is known about where an object came from

#[derive(Clone, Copy, PartialEq, Debug)]
enum Origin {
    /// created by git from field values inside the domain of the theorems: the full property is asserted
    Git,
    /// created by git, but from field values outside the stated domain (reported, not judged)
    GitOutside(&'static str),
    /// byte-level mutation / hand-made form, not validated by git: model tie + reporting only
    Mutant,
}

// Known-finding classes: the key names the input shape AND the exact symptom, so that any other
// misbehaviour on such inputs still has a different key.
const K_TAG_NO_BODY: &str = "tag without blank line after the headers (git mktag accepts it): re-encoded bytes = input + LF";
const K_COMMIT_NO_BODY: &str = "commit without blank line after the headers (passes git hash-object -t commit/fsck): CommitRef::from_bytes rejects it, CommitRefIter ends silently without Message";
const K_TAG_DASH: &str = "tag name starting with '-' (git mktag accepts it): TagRef::write_to refuses (StartsWithDash)";

// ---------------------------------------------------------------------------------------------
// the three object checks

fn check_commit_inner(rep: &mut Report, b: &[u8], origin: Origin, git_id: Option<&str>) {
    let h = hex(b);
    let full = gix_object::CommitRef::from_bytes(b);
    let op_parse = format!("parsecommit {h}");
    rep.case(
        &op_parse,
        &match &full {
            Ok(c) => show_commit(c),
            Err(_) => "err".into(),
        },
        true,
    );
    let mut toks = Vec::new();
    let mut iter_err = false;
    for t in gix_object::CommitRefIter::from_bytes(b) {
        match t {
            Ok(t) => toks.push(t),
            Err(_) => iter_err = true,
        }
    }
    let mut parts: Vec<String> = toks.iter().map(show_ctoken).collect();
    parts.push(if iter_err { "ERR".into() } else { "END".into() });
    rep.case(&format!("itercommit {h}"), &parts.join(" "), true);
    let re = full.as_ref().ok().map(|c| write_of(|o| c.write_to(o)));
    let op_re = format!("reencodecommit {h}");
    rep.case(
        &op_re,
        &match &re {
            None => "err".into(),
            Some(w) => show_write(w),
        },
        true,
    );
    rep.bucket(&format!(
        "commit:{}:{}",
        match origin {
            Origin::Git => "git",
            Origin::GitOutside(_) => "git-outside",
            Origin::Mutant => "mutant",
        },
        match (&full, &re) {
            (Err(_), _) => "rejected",
            (Ok(_), Some(Ok(w))) if w == b => "verbatim",
            (Ok(_), Some(Ok(_))) => "reencode-differs",
            _ => "write-err",
        }
    ));

    // ---- oracle: the property itself on the real code
    rep.oracle_checked();
    let mut problems: Vec<String> = Vec::new();
    // (1) agreement of the two decoders
    use gix_object::commit::ref_iter::Token;
    match &full {
        Ok(c) => {
            if iter_err {
                problems.push("full decoder accepts, token iterator yields Err".into());
            } else {
                let tree: Vec<_> = toks.iter().filter_map(|t| if let Token::Tree { id } = t { Some(*id) } else { None }).collect();
                let parents: Vec<_> = toks.iter().filter_map(|t| if let Token::Parent { id } = t { Some(*id) } else { None }).collect();
                let author: Vec<_> = toks.iter().filter_map(|t| if let Token::Author { signature } = t { Some(*signature) } else { None }).collect();
                let committer: Vec<_> = toks.iter().filter_map(|t| if let Token::Committer { signature } = t { Some(*signature) } else { None }).collect();
                let enc: Vec<_> = toks.iter().filter_map(|t| if let Token::Encoding(e) = t { Some(*e) } else { None }).collect();
                let extra: Vec<_> = toks.iter().filter_map(|t| if let Token::ExtraHeader((n, v)) = t { Some((*n, v.clone())) } else { None }).collect();
                let msg: Vec<_> = toks.iter().filter_map(|t| if let Token::Message(m) = t { Some(*m) } else { None }).collect();
                if tree != vec![c.tree()] {
                    problems.push("tree differs between decoders".into());
                }
                if parents != c.parents().collect::<Vec<_>>() {
                    problems.push("parents differ between decoders".into());
                }
                if author != vec![c.author] {
                    problems.push("author differs between decoders".into());
                }
                if committer != vec![c.committer] {
                    problems.push("committer differs between decoders".into());
                }
                if enc != c.encoding.into_iter().collect::<Vec<_>>() {
                    problems.push("encoding differs between decoders".into());
                }
                if extra != c.extra_headers {
                    problems.push("extra headers differ between decoders".into());
                }
                if msg != vec![c.message] {
                    problems.push("message differs between decoders".into());
                }
            }
        }
        Err(_) => {
            if !iter_err {
                problems.push("full decoder rejects, token iterator ends without Err".into());
            }
        }
    }
    // (2) acceptance and verbatim re-encoding
    match (&full, &re) {
        (Err(_), _) => problems.push("full decoder rejects the object".into()),
        (Ok(_), Some(Ok(w))) => {
            if w != b {
                problems.push(format!("re-encoded bytes differ ({} vs {} bytes)", w.len(), b.len()));
            } else if let Some(gid) = git_id {
                let id = gix_object::compute_hash(gix_hash::Kind::Sha1, gix_object::Kind::Commit, w);
                rep.git_checked(1);
                if id.to_string() != gid {
                    problems.push(format!("id of re-encoded object {id} differs from git's {gid}"));
                }
            }
        }
        (Ok(_), _) => problems.push("write_to of the decoded CommitRef fails".into()),
    }
    if problems.is_empty() {
        return;
    }
    let detail = problems.join("; ");
    match origin {
        Origin::Git => {
            // known shape? (commit that ends right after its headers)
            let no_body = !b.contains_str("\n\n") && b.ends_with(b"\n");
            if no_body && full.is_err() && !iter_err && toks.len() >= 3 && !toks.iter().any(|t| matches!(t, Token::Message(_))) {
                rep.oracle_failure(K_COMMIT_NO_BODY, &detail, &op_parse);
            } else {
                rep.oracle_failure(&format!("commit {}: {}", fnv_key(b), problems[0]), &detail, &op_parse);
            }
        }
        Origin::GitOutside(why) => outside(rep, &format!("commit made by git from values outside the domain ({why}): {detail}")),
        Origin::Mutant => {
            if full.is_ok() {
                if problems.iter().any(|p| p.contains("between decoders") || p.contains("iterator")) {
                    // the two decoders must agree on everything the full decoder accepts (theorem
                    // iter_agrees_of_accepted); a disagreement on real code is a failing input
                    rep.oracle_failure(&format!("commit {}: {}", fnv_key(b), problems[0]), &detail, &format!("mutant:{op_parse}"));
                } else {
                    outside(rep, &format!("accepted non-git commit form: {detail}"));
                }
            }
        }
    }
}

fn check_tag_inner(rep: &mut Report, b: &[u8], origin: Origin, git_id: Option<&str>) {
    let h = hex(b);
    let full = gix_object::TagRef::from_bytes(b);
    let op_parse = format!("parsetag {h}");
    rep.case(
        &op_parse,
        &match &full {
            Ok(c) => show_tag(c),
            Err(_) => "err".into(),
        },
        true,
    );
    let mut toks = Vec::new();
    let mut iter_err = false;
    for t in gix_object::TagRefIter::from_bytes(b) {
        match t {
            Ok(t) => toks.push(t),
            Err(_) => iter_err = true,
        }
    }
    let mut parts: Vec<String> = toks.iter().map(show_ttoken).collect();
    parts.push(if iter_err { "ERR".into() } else { "END".into() });
    rep.case(&format!("itertag {h}"), &parts.join(" "), true);
    let name_valid = full
        .as_ref()
        .map(|t| gix_validate_tag_name(t.name.as_bytes()))
        .unwrap_or(false);
    let re = full.as_ref().ok().map(|c| catch(|| write_of(|o| c.write_to(o))));
    let re = match re {
        Some(Err(msg)) => {
            rep.oracle_failure(&format!("tag {}: write_to panics", fnv_key(b)), &msg, &op_parse);
            rep.case(&format!("reencodetag {} {h}", name_valid as u8), "panic", true);
            return;
        }
        Some(Ok(w)) => Some(w),
        None => None,
    };
    rep.case(
        &format!("reencodetag {} {h}", name_valid as u8),
        &match &re {
            None => "err".into(),
            Some(w) => show_write(w),
        },
        true,
    );
    rep.bucket(&format!(
        "tag:{}:{}",
        match origin {
            Origin::Git => "git",
            Origin::GitOutside(_) => "git-outside",
            Origin::Mutant => "mutant",
        },
        match (&full, &re) {
            (Err(_), _) => "rejected",
            (Ok(_), Some(Ok(w))) if w == b => "verbatim",
            (Ok(_), Some(Ok(_))) => "reencode-differs",
            _ => "write-err",
        }
    ));

    rep.oracle_checked();
    let mut problems: Vec<String> = Vec::new();
    use gix_object::tag::ref_iter::Token;
    match &full {
        Ok(c) => {
            if iter_err {
                problems.push("full decoder accepts, token iterator yields Err".into());
            } else {
                let target: Vec<_> = toks.iter().filter_map(|t| if let Token::Target { id } = t { Some(*id) } else { None }).collect();
                let kind: Vec<_> = toks.iter().filter_map(|t| if let Token::TargetKind(k) = t { Some(*k) } else { None }).collect();
                let name: Vec<_> = toks.iter().filter_map(|t| if let Token::Name(n) = t { Some(*n) } else { None }).collect();
                // an absent Tagger / Body token reads as "no tagger" / "empty message"
                let tagger = toks.iter().find_map(|t| if let Token::Tagger(s) = t { Some(*s) } else { None }).unwrap_or(None);
                let body = toks
                    .iter()
                    .find_map(|t| if let Token::Body { message, pgp_signature } = t { Some((*message, *pgp_signature)) } else { None })
                    .unwrap_or((b"".as_bstr(), None));
                if target != vec![c.target()] {
                    problems.push("target differs between decoders".into());
                }
                if kind != vec![c.target_kind] {
                    problems.push("target kind differs between decoders".into());
                }
                if name != vec![c.name] {
                    problems.push("name differs between decoders".into());
                }
                if tagger != c.tagger {
                    problems.push("tagger differs between decoders".into());
                }
                if body != (c.message, c.pgp_signature) {
                    problems.push("message/signature differ between decoders".into());
                }
            }
        }
        Err(_) => {
            if !iter_err {
                problems.push("full decoder rejects, token iterator ends without Err".into());
            }
        }
    }
    match (&full, &re) {
        (Err(_), _) => problems.push("full decoder rejects the object".into()),
        (Ok(_), Some(Ok(w))) => {
            if w != b {
                problems.push(format!("re-encoded bytes differ ({} vs {} bytes)", w.len(), b.len()));
            } else if let Some(gid) = git_id {
                let id = gix_object::compute_hash(gix_hash::Kind::Sha1, gix_object::Kind::Tag, w);
                rep.git_checked(1);
                if id.to_string() != gid {
                    problems.push(format!("id of re-encoded object {id} differs from git's {gid}"));
                }
            }
        }
        (Ok(_), _) => problems.push("write_to of the decoded TagRef fails".into()),
    }
    if problems.is_empty() {
        return;
    }
    let detail = problems.join("; ");
    match origin {
        Origin::Git => {
            let no_body = !b.contains_str("\n\n") && b.ends_with(b"\n");
            let dash = full.as_ref().map(|t| t.name.first() == Some(&b'-')).unwrap_or(false);
            let mut expect_lf = b.to_vec();
            expect_lf.push(b'\n');
            if no_body && problems.len() == 1 && matches!(&re, Some(Ok(w)) if *w == expect_lf) {
                rep.oracle_failure(K_TAG_NO_BODY, &detail, &op_parse);
            } else if dash && name_valid && problems.len() == 1 && matches!(&re, Some(Err(_))) {
                rep.oracle_failure(K_TAG_DASH, &detail, &op_parse);
            } else if !name_valid && problems.len() == 1 && matches!(&re, Some(Err(_))) {
                let n = full.as_ref().map(|t| hex(t.name)).unwrap_or_default();
                outside(rep, &format!("tag name (hex {n}) accepted by git but refused by gix_validate::tag::name (that comparison is property C15): write_to fails"));
            } else {
                rep.oracle_failure(&format!("tag {}: {}", fnv_key(b), problems[0]), &detail, &op_parse);
            }
        }
        Origin::GitOutside(why) => outside(rep, &format!("tag made by git from values outside the domain ({why}): {detail}")),
        Origin::Mutant => {
            if full.is_ok() {
                if problems.iter().any(|p| p.contains("between decoders") || p.contains("iterator")) {
                    rep.oracle_failure(&format!("tag {}: {}", fnv_key(b), problems[0]), &detail, &format!("mutant:{op_parse}"));
                } else {
                    outside(rep, &format!("accepted non-git tag form: {detail}"));
                }
            }
        }
    }
}

fn gix_validate_tag_name(name: &[u8]) -> bool {
    gix_validate::tag::name(name.as_bstr()).is_ok()
}

fn check_tree_inner(rep: &mut Report, b: &[u8], origin: Origin, git_id: Option<&str>) {
    let h = hex(b);
    let full = gix_object::TreeRef::from_bytes(b);
    let op_parse = format!("parsetree {h}");
    rep.case(
        &op_parse,
        &match &full {
            Ok(t) => format!("ok {}", t.entries.iter().map(show_entry).collect::<Vec<_>>().join(",")),
            Err(_) => "err".into(),
        },
        !b.is_empty(),
    );
    let mut toks = Vec::new();
    let mut iter_err = false;
    for t in gix_object::TreeRefIter::from_bytes(b) {
        match t {
            Ok(t) => toks.push(t),
            Err(_) => iter_err = true,
        }
    }
    let mut parts: Vec<String> = toks.iter().map(show_entry).collect();
    parts.push(if iter_err { "ERR".into() } else { "END".into() });
    rep.case(&format!("itertree {h}"), &parts.join(" "), !b.is_empty());
    // `TreeRef::write_to` debug-asserts sortedness (harness builds have debug assertions on): only
    // sorted trees are re-encoded; git never writes unsorted ones.
    let sorted = full.as_ref().map(|t| t.entries.windows(2).all(|w| w[0] <= w[1])).unwrap_or(true);
    let re = if sorted { full.as_ref().ok().map(|c| write_of(|o| c.write_to(o))) } else { None };
    if sorted {
        rep.case(
            &format!("reencodetree {h}"),
            &match &re {
                None => "err".into(),
                Some(w) => show_write(w),
            },
            !b.is_empty(),
        );
    } else {
        rep.bucket("tree:unsorted-not-reencoded");
    }
    rep.bucket(&format!(
        "tree:{}:{}",
        match origin {
            Origin::Git => "git",
            Origin::GitOutside(_) => "git-outside",
            Origin::Mutant => "mutant",
        },
        match (&full, &re) {
            (Err(_), _) => "rejected",
            (Ok(_), Some(Ok(w))) if w == b => "verbatim",
            (Ok(_), Some(Ok(_))) => "reencode-differs",
            (Ok(_), None) => "unsorted",
            _ => "write-err",
        }
    ));
    rep.oracle_checked();
    let mut problems: Vec<String> = Vec::new();
    match &full {
        Ok(t) => {
            if iter_err || toks != t.entries {
                problems.push("entries differ between decoders".into());
            }
        }
        Err(_) => {
            if !iter_err {
                problems.push("full decoder rejects, iterator ends without Err".into());
            }
        }
    }
    match (&full, &re) {
        (Err(_), _) => problems.push("full decoder rejects the object".into()),
        (Ok(_), Some(Ok(w))) => {
            if w != b {
                problems.push(format!("re-encoded bytes differ ({} vs {} bytes)", w.len(), b.len()));
            } else if let Some(gid) = git_id {
                let id = gix_object::compute_hash(gix_hash::Kind::Sha1, gix_object::Kind::Tree, w);
                rep.git_checked(1);
                if id.to_string() != gid {
                    problems.push(format!("id of re-encoded object {id} differs from git's {gid}"));
                }
            }
        }
        (Ok(_), None) => {}
        (Ok(_), _) => problems.push("write_to of the decoded TreeRef fails".into()),
    }
    if problems.is_empty() {
        return;
    }
    let detail = problems.join("; ");
    match origin {
        Origin::Git => rep.oracle_failure(&format!("tree {}: {}", fnv_key(b), problems[0]), &detail, &op_parse),
        Origin::GitOutside(why) => outside(rep, &format!("tree made by git from values outside the domain ({why}): {detail}")),
        Origin::Mutant => {
            if problems.iter().any(|p| p.contains("between decoders") || p.contains("iterator")) {
                rep.oracle_failure(&format!("tree {}: {}", fnv_key(b), problems[0]), &detail, &format!("mutant:{op_parse}"));
            } else if full.is_ok() {
                outside(rep, &format!("accepted non-git tree form: {detail}"));
            }
        }
    }
}

fn check_sig_inner(rep: &mut Report, b: &[u8]) {
    let mut i = b;
    let r = gix_actor::signature::decode::<()>(&mut i);
    rep.case(
        &format!("sig {}", hex(b)),
        &match &r {
            Ok(s) => format!("ok {} rest={}", show_sig(s), hex(i)),
            Err(_) => "err".into(),
        },
        true,
    );
    rep.bucket(if r.is_ok() { "sig:ok" } else { "sig:err" });
}


/// A panic anywhere in the real decoders / writers is a failing input of its own.
fn guarded(rep: &mut Report, kind: &str, b: &[u8], origin: Origin, f: impl FnOnce(&mut Report)) {
    if let Err(msg) = catch(|| f(&mut *rep)) {
        let op = format!("parse{kind} {}", hex(b));
        rep.case(&format!("reencode{}{} {}", kind, if kind == "tag" { " 1" } else { "" }, hex(b)), "panic", true);
        rep.oracle_failure(
            &format!("{kind} {}: panic in the decoder or writer", fnv_key(b)),
            &msg,
            &if origin == Origin::Mutant { format!("mutant:{op}") } else { op },
        );
    }
}

fn check_commit(rep: &mut Report, b: &[u8], origin: Origin, git_id: Option<&str>) {
    guarded(rep, "commit", b, origin, |rep| check_commit_inner(rep, b, origin, git_id));
}

fn check_tag(rep: &mut Report, b: &[u8], origin: Origin, git_id: Option<&str>) {
    guarded(rep, "tag", b, origin, |rep| check_tag_inner(rep, b, origin, git_id));
}

fn check_tree(rep: &mut Report, b: &[u8], origin: Origin, git_id: Option<&str>) {
    guarded(rep, "tree", b, origin, |rep| check_tree_inner(rep, b, origin, git_id));
}

fn check_sig(rep: &mut Report, b: &[u8]) {
    if let Err(msg) = catch(|| check_sig_inner(&mut *rep, b)) {
        rep.case(&format!("sig {}", hex(b)), "panic", true);
        rep.oracle_failure(&format!("sig {}: panic in signature::decode", fnv_key(b)), &msg, &format!("sig {}", hex(b)));
    }
}

// ---------------------------------------------------------------------------------------------
// git as the source of objects

/// a long-running git child answering one line per request (spawning git costs 0.2 s here)
struct Pipe {
    args: Vec<&'static str>,
    child: std::process::Child,
    stdin: std::process::ChildStdin,
    stdout: BufReader<std::process::ChildStdout>,
}

impl Pipe {
    fn new(dir: &std::path::Path, args: &[&'static str]) -> Pipe {
        let mut c = git_cmd(dir);
        c.args(args)
            .stdin(std::process::Stdio::piped())
            .stdout(std::process::Stdio::piped())
            .stderr(std::process::Stdio::null());
        let mut child = c.spawn().expect("spawn git");
        let stdin = child.stdin.take().unwrap();
        let stdout = BufReader::new(child.stdout.take().unwrap());
        Pipe { args: args.to_vec(), child, stdin, stdout }
    }
    /// send `req`, read one answer line; `None` = git died on this request (it is restarted)
    fn ask(&mut self, dir: &std::path::Path, req: &[u8]) -> Option<String> {
        let sent = self.stdin.write_all(req).and_then(|_| self.stdin.flush()).is_ok();
        let mut line = String::new();
        let n = if sent { self.stdout.read_line(&mut line).unwrap_or(0) } else { 0 };
        if n == 0 {
            let _ = self.child.kill();
            let _ = self.child.wait();
            let args = self.args.clone();
            *self = Pipe::new(dir, &args);
            return None;
        }
        Some(line.trim_end().to_string())
    }
}

impl Drop for Pipe {
    fn drop(&mut self) {
        let _ = self.child.kill();
        let _ = self.child.wait();
    }
}

struct Git {
    scratch: Scratch,
    cat: Pipe,
    hash_commit: Pipe,
    hash_tag: Pipe,
    mktree: Pipe,
    counter: u64,
    spawns: u64,
    blobs: Vec<String>,
    trees: Vec<String>,
    commits: Vec<String>,
    tags: Vec<String>,
}

impl Git {
    fn new() -> Git {
        let scratch = Scratch::new("c02");
        git_ok(&scratch.path, &["init", "-q", "."], None);
        let dir = scratch.path.clone();
        let mut g = Git {
            cat: Pipe::new(&dir, &["cat-file", "--batch"]),
            hash_commit: Pipe::new(&dir, &["hash-object", "-w", "-t", "commit", "--stdin-paths"]),
            hash_tag: Pipe::new(&dir, &["hash-object", "-w", "-t", "tag", "--stdin-paths"]),
            mktree: Pipe::new(&dir, &["mktree", "-z", "--missing", "--batch"]),
            scratch,
            counter: 0,
            spawns: 5,
            blobs: vec![],
            trees: vec![],
            commits: vec![],
            tags: vec![],
        };
        for content in [&b"hello\n"[..], b"", b"\x00\x01binary"] {
            let id = git_ok(&g.scratch.path, &["hash-object", "-w", "--stdin"], Some(content));
            g.spawns += 1;
            g.blobs.push(id);
        }
        let empty_tree = g.mktree.ask(&dir, b"\0").expect("empty tree");
        g.trees.push(empty_tree);
        g
    }
    fn dir(&self) -> std::path::PathBuf {
        self.scratch.path.clone()
    }
    /// the object's bytes as `git cat-file` reports them
    fn cat(&mut self, id: &str) -> Vec<u8> {
        let dir = self.dir();
        let header = self.cat.ask(&dir, format!("{id}\n").as_bytes()).expect("cat-file header");
        let size: usize = header.rsplit(' ').next().and_then(|s| s.parse().ok()).unwrap_or_else(|| panic!("cat-file: {header:?}"));
        let mut buf = vec![0u8; size + 1];
        self.cat.stdout.read_exact(&mut buf).expect("cat-file body");
        buf.pop();
        buf
    }
    /// `git hash-object -w -t <kind>` (git's own validity check of the object included)
    fn hash_object(&mut self, kind: &str, bytes: &[u8]) -> Option<String> {
        self.counter += 1;
        let p = self.scratch.join(format!("obj{}", self.counter));
        std::fs::write(&p, bytes).expect("write object file");
        let dir = self.dir();
        let req = format!("{}\n", p.display());
        let r = if kind == "commit" { self.hash_commit.ask(&dir, req.as_bytes()) } else { self.hash_tag.ask(&dir, req.as_bytes()) };
        if r.is_none() {
            self.spawns += 1;
        }
        let _ = std::fs::remove_file(&p);
        r.filter(|id| id.len() == 40)
    }
}

// ---------------------------------------------------------------------------------------------
// field values

#[derive(Clone, Debug)]
struct Ident {
    name: Vec<u8>,
    email: Vec<u8>,
    seconds: i128,
    minus: bool,
    h: u32,
    m: u32,
}

impl Ident {
    fn render(&self) -> Vec<u8> {
        let mut v = self.name.clone();
        v.extend_from_slice(b" <");
        v.extend_from_slice(&self.email);
        v.extend_from_slice(b"> ");
        v.extend_from_slice(format!("{} {}{:02}{:02}", self.seconds, if self.minus { '-' } else { '+' }, self.h, self.m).as_bytes());
        v
    }
    fn op(&self) -> String {
        format!("{} {} {} {} {} {}", hex(&self.name), hex(&self.email), self.seconds, if self.minus { "-" } else { "+" }, self.h, self.m)
    }
    fn in_domain(&self) -> Option<&'static str> {
        if self.seconds > i64::MAX as i128 || self.seconds < i64::MIN as i128 {
            return Some("timestamp beyond i64 (git fsck: badDateOverflow)");
        }
        if self.h > 99 {
            return Some("time zone beyond 99 hours, 5 digits (git fsck: badTimezone)");
        }
        if self.m > 59 {
            return Some("time zone minutes above 59 (only a verbatim pass-through can write it)");
        }
        let ws = |b: &u8| b.is_ascii_whitespace();
        if self.email.first().map_or(false, ws) || self.email.last().map_or(false, ws) {
            return Some("email surrounded by whitespace (git's own formatter strips it)");
        }
        None
    }
}

#[derive(Clone, Debug)]
struct Header {
    name: Vec<u8>,
    first: Vec<u8>,
    more: Vec<Vec<u8>>,
}

impl Header {
    fn render(&self) -> Vec<u8> {
        let mut v = self.name.clone();
        v.push(b' ');
        v.extend_from_slice(&self.first);
        v.push(b'\n');
        for l in &self.more {
            v.push(b' ');
            v.extend_from_slice(l);
            v.push(b'\n');
        }
        v
    }
    fn op(&self) -> String {
        let mut s = format!("{} {} {}", hex(&self.name), hex(&self.first), self.more.len());
        for l in &self.more {
            s.push(' ');
            s.push_str(&hex(l));
        }
        s
    }
}

const CLEAN: &[u8] = b"abcXYZ019-_@";

/// a name / email as git's formatter leaves it (no crud at the ends, no `<>\n`)
fn gen_clean_token(r: &mut Rng, allow_empty: bool) -> Vec<u8> {
    let mut v = match r.below(8) {
        0 => "Jörg Müller".as_bytes().to_vec(),
        1 => "名前 太郎".as_bytes().to_vec(),
        2 => {
            // inner spaces, dots, quotes are kept by git
            let mut v = r.over(b"ab .,;:'\"\\\tZ9", 10);
            v.insert(0, b'x');
            v.push(b'y');
            v
        }
        3 => vec![b'a', 0xff, 0xfe, b'b'],
        4 => {
            // CR, VT, FF, TAB, DEL, high bytes inside (the ends stay clean: git strips crud there)
            let mut v = r.over(ODD, 6);
            v.insert(0, b'x');
            v.push(b'y');
            v
        }
        _ => r.over(CLEAN, 12),
    };
    if v.is_empty() && !allow_empty {
        v.push(b'n');
    }
    v
}

fn gen_seconds(r: &mut Rng) -> i128 {
    match r.below(10) {
        0 => 0,
        1 => *r.pick(&[1i128, 9, 10, 99, 100, 999_999_999, 1_000_000_000, 4_294_967_295, 4_294_967_296, 253_402_300_799]),
        2 => {
            let k = r.below(19) as u32;
            10i128.pow(k) + r.range(-1, 1) as i128
        }
        3 => *r.pick(&[i64::MAX as i128, i64::MAX as i128 - 1]),
        _ => r.range(0, 4_000_000_000) as i128,
    }
    .max(0)
}

fn gen_ident(r: &mut Rng, allow_empty_name: bool) -> Ident {
    let (h, m) = match r.below(8) {
        0 => (0, 0),
        1 => (99, 59),
        2 => (r.below(100) as u32, r.below(60) as u32),
        3 => (*r.pick(&[0u32, 1, 9, 10, 12, 14, 23, 24, 99]), *r.pick(&[0u32, 1, 9, 10, 30, 45, 59])),
        _ => (r.below(15) as u32, *r.pick(&[0u32, 0, 0, 30, 45])),
    };
    Ident {
        name: gen_clean_token(r, allow_empty_name),
        email: gen_clean_token(r, true),
        seconds: gen_seconds(r),
        minus: r.chance(1, 2),
        h,
        m,
    }
}

/// bytes that text-oriented helpers (`lines()`, `trim()`, UTF-8 conversions) treat specially; LF
/// and NUL are handled separately by the callers
const ODD: &[u8] = b"\r\r\t\x0b\x0c\x01\x7f\x80\x85\xa0\xc3\xe2\xff a";

fn gen_line(r: &mut Rng, allow_empty: bool) -> Vec<u8> {
    let mut v = match r.below(10) {
        0 => vec![],
        1 => b"iQEzBAABCAAdFiEE".to_vec(),
        2 => r.over(b" ab\t-", 8),
        3 => "ünï".as_bytes().to_vec(),
        // a line of a CRLF-emitting signer: the CR belongs to the value
        4 => {
            let mut v = r.over(b"abcdefgh0123456789+/=", 20);
            v.push(b'\r');
            v
        }
        5 => b"\r".to_vec(),
        6 => {
            let mut v = r.over(b"ab", 3);
            v.push(b'\r');
            v.extend_from_slice(&r.over(b"cd\r", 3));
            v
        }
        7 => r.over(ODD, 10),
        _ => r.over(b"abcdefgh0123456789+/= -", 40),
    };
    if v.is_empty() && !allow_empty {
        v.push(b'x');
    }
    v
}

fn gen_header(r: &mut Rng) -> Header {
    match r.below(8) {
        0 | 1 => {
            // a PGP block as `git commit -S` embeds it, with the empty line after the armour header
            let mut more = vec![];
            if r.chance(1, 2) {
                more.push(b"Version: GnuPG v1".to_vec());
            }
            more.push(vec![]);
            for _ in 0..r.usize(4) {
                more.push(gen_line(r, true));
            }
            more.push(b"-----END PGP SIGNATURE-----".to_vec());
            if r.chance(1, 4) {
                more.push(vec![]);
            }
            let mut first = b"-----BEGIN PGP SIGNATURE-----".to_vec();
            if r.chance(1, 3) {
                // the whole armour with CRLF line ends (every line keeps its CR, the empty one is a lone CR)
                first.push(b'\r');
                for l in more.iter_mut() {
                    if !l.ends_with(b"\r") {
                        l.push(b'\r');
                    }
                }
            }
            Header {
                name: if r.chance(1, 5) { b"gpgsig-sha256".to_vec() } else { b"gpgsig".to_vec() },
                first,
                more,
            }
        }
        2 => {
            // an embedded tag (merge of a signed tag), itself containing a blank line and a signature
            let mut more = vec![
                b"type commit".to_vec(),
                b"tag v1.0".to_vec(),
                b"tagger T <t@e> 1 +0000".to_vec(),
                vec![],
                b"release".to_vec(),
            ];
            if r.chance(1, 2) {
                more.extend([b"-----BEGIN PGP SIGNATURE-----".to_vec(), vec![], b"abc".to_vec(), b"-----END PGP SIGNATURE-----".to_vec()]);
            }
            Header {
                name: b"mergetag".to_vec(),
                first: b"object 0123456789abcdef0123456789abcdef01234567".to_vec(),
                more,
            }
        }
        3 => Header {
            name: r.pick(&[&b"encoding"[..], b"author", b"tree", b"x"]).to_vec(),
            first: gen_line(r, false),
            more: vec![],
        },
        _ => {
            let mut name = r.over(b"abcxyz-", 8);
            if name.is_empty() {
                name.push(b'h');
            }
            let n = if r.chance(1, 2) { 0 } else { r.usize(4) };
            Header {
                name,
                first: gen_line(r, false),
                more: (0..n).map(|_| gen_line(r, true)).collect(),
            }
        }
    }
}

fn gen_message(r: &mut Rng, nul_ok: bool) -> Vec<u8> {
    let mut v = match r.below(11) {
        0 => vec![],
        1 => b"subject\n\nbody\n".to_vec(),
        2 => b"no trailing newline".to_vec(),
        3 => "ünïcödé ✓ 日本語\n".as_bytes().to_vec(),
        4 => {
            let n = r.usize(40);
            r.bytes(n)
        }
        5 => b"\n\n\nleading blank lines\n\n".to_vec(),
        6 => b"looks like a header\nparent 0123\n \n".to_vec(),
        7 => b"subject\r\n\r\nbody with CRLF\r\nlast line\r".to_vec(),
        8 => {
            let mut v = r.over(ODD, 30);
            for _ in 0..r.usize(4) {
                let i = r.usize(v.len() + 1);
                v.insert(i, b'\n');
            }
            v
        }
        _ => r.over(b"ab c\n\n-:\xf0 \r", 60),
    };
    if !nul_ok {
        v.retain(|b| *b != 0);
    }
    v
}

// ---------------------------------------------------------------------------------------------
// commits

struct CommitF {
    tree: String,
    parents: Vec<String>,
    author: Ident,
    committer: Ident,
    encoding: Option<Vec<u8>>,
    extra: Vec<Header>,
    /// `None`: the object ends right after its headers (no blank line)
    message: Option<Vec<u8>>,
}

impl CommitF {
    fn render(&self) -> Vec<u8> {
        let mut v = format!("tree {}\n", self.tree).into_bytes();
        for p in &self.parents {
            v.extend_from_slice(format!("parent {p}\n").as_bytes());
        }
        v.extend_from_slice(b"author ");
        v.extend_from_slice(&self.author.render());
        v.extend_from_slice(b"\ncommitter ");
        v.extend_from_slice(&self.committer.render());
        v.push(b'\n');
        if let Some(e) = &self.encoding {
            v.extend_from_slice(b"encoding ");
            v.extend_from_slice(e);
            v.push(b'\n');
        }
        for h in &self.extra {
            v.extend_from_slice(&h.render());
        }
        if let Some(m) = &self.message {
            v.push(b'\n');
            v.extend_from_slice(m);
        }
        v
    }
    fn op(&self) -> Option<String> {
        let msg = self.message.as_ref()?;
        let mut s = format!("rendercommit {} {}", hex(&unhex(&self.tree)?), self.parents.len());
        for p in &self.parents {
            s.push(' ');
            s.push_str(&hex(&unhex(p)?));
        }
        s.push_str(&format!(" {} {}", self.author.op(), self.committer.op()));
        match &self.encoding {
            None => s.push_str(" none"),
            Some(e) => s.push_str(&format!(" {}", hex(e))),
        }
        s.push_str(&format!(" {}", self.extra.len()));
        for h in &self.extra {
            s.push(' ');
            s.push_str(&h.op());
        }
        s.push_str(&format!(" {}", hex(msg)));
        Some(s)
    }
    fn outside(&self) -> Option<&'static str> {
        if let Some(w) = self.author.in_domain().or(self.committer.in_domain()) {
            return Some(w);
        }
        if self.encoding.is_none() && self.extra.first().map_or(false, |h| h.name == b"encoding") {
            return Some("first extra header is itself named 'encoding'");
        }
        None
    }
}

fn gen_commit_fields(r: &mut Rng, g: &Git, via_commit_tree: bool) -> CommitF {
    let np = match r.below(8) {
        0 | 1 => 0,
        2..=4 => 1,
        5 => 2,
        6 => r.usize(5),
        _ => r.usize(20),
    };
    let mut parents: Vec<String> = Vec::new();
    for _ in 0..np {
        if g.commits.is_empty() {
            break;
        }
        let p = r.pick(&g.commits).clone();
        if !via_commit_tree || !parents.contains(&p) {
            parents.push(p);
        }
    }
    let mut f = CommitF {
        tree: r.pick(&g.trees).clone(),
        parents,
        author: gen_ident(r, !via_commit_tree),
        committer: gen_ident(r, !via_commit_tree),
        encoding: match r.below(6) {
            0 => Some(b"ISO-8859-1".to_vec()),
            1 if !via_commit_tree => Some(r.over(b"aZ-8 ", 6)).filter(|e| !e.is_empty()),
            _ => None,
        },
        extra: if via_commit_tree {
            vec![]
        } else {
            let n = match r.below(4) {
                0 => 0,
                1 => 1,
                _ => r.usize(4),
            };
            (0..n).map(|_| gen_header(r)).collect()
        },
        message: Some(gen_message(r, false)),
    };
    if via_commit_tree {
        // commit-tree normalises its INPUT before formatting: `-0000` becomes `+0000`, and when no
        // encoding is configured invalid UTF-8 is taken for Latin-1 and converted. Give it values it
        // keeps, so that the field values are what it formats.
        for i in [&mut f.author, &mut f.committer] {
            if i.h == 0 && i.m == 0 {
                i.minus = false;
            }
        }
        if f.encoding.is_none() {
            let fix = |v: &mut Vec<u8>| {
                if std::str::from_utf8(v).is_err() {
                    v.retain(|b| *b < 0x80);
                }
            };
            fix(&mut f.author.name);
            fix(&mut f.author.email);
            fix(&mut f.committer.name);
            fix(&mut f.committer.email);
            fix(f.message.as_mut().unwrap());
        }
        if f.author.name.is_empty() {
            f.author.name.push(b'n');
        }
        if f.committer.name.is_empty() {
            f.committer.name.push(b'n');
        }
    }
    f
}

fn commit_via_commit_tree(g: &mut Git, f: &CommitF) -> Option<String> {
    g.spawns += 1;
    let mut c = git_cmd(&g.dir());
    if let Some(e) = &f.encoding {
        c.arg("-c").arg(format!("i18n.commitEncoding={}", String::from_utf8_lossy(e)));
    }
    c.arg("commit-tree").arg(&f.tree);
    for p in &f.parents {
        c.arg("-p").arg(p);
    }
    use std::os::unix::ffi::OsStrExt;
    let date = |i: &Ident| format!("@{} {}{:02}{:02}", i.seconds, if i.minus { '-' } else { '+' }, i.h, i.m);
    c.env("GIT_AUTHOR_NAME", std::ffi::OsStr::from_bytes(&f.author.name))
        .env("GIT_AUTHOR_EMAIL", std::ffi::OsStr::from_bytes(&f.author.email))
        .env("GIT_AUTHOR_DATE", date(&f.author))
        .env("GIT_COMMITTER_NAME", std::ffi::OsStr::from_bytes(&f.committer.name))
        .env("GIT_COMMITTER_EMAIL", std::ffi::OsStr::from_bytes(&f.committer.email))
        .env("GIT_COMMITTER_DATE", date(&f.committer));
    c.stdin(std::process::Stdio::piped()).stdout(std::process::Stdio::piped()).stderr(std::process::Stdio::piped());
    let mut child = c.spawn().expect("spawn git commit-tree");
    child.stdin.take().unwrap().write_all(f.message.as_ref().unwrap()).expect("message");
    let out = child.wait_with_output().expect("wait");
    if !out.status.success() {
        return None;
    }
    Some(String::from_utf8_lossy(&out.stdout).trim().to_string())
}

fn do_commit(rep: &mut Report, g: &mut Git, f: &CommitF, via_commit_tree: bool) {
    let id = if via_commit_tree {
        commit_via_commit_tree(g, f)
    } else {
        g.hash_object("commit", &f.render())
    };
    let Some(id) = id else {
        rep.bucket(if via_commit_tree { "commit:refused-by-commit-tree" } else { "commit:refused-by-hash-object-fsck" });
        return;
    };
    let bytes = g.cat(&id);
    g.commits.push(id.clone());
    let outside = f.outside();
    // the transcription of git's writer, validated against what git wrote
    if let Some(op) = f.op() {
        rep.case(&op, &hex(&bytes), true);
        rep.bucket(if via_commit_tree { "render:commit-tree" } else { "render:hash-object-commit" });
    }
    rep.bucket(&format!(
        "commit-shape:parents{}:extra{}:{}{}",
        f.parents.len().min(3),
        f.extra.len().min(2),
        if f.encoding.is_some() { "enc" } else { "noenc" },
        if f.extra.iter().any(|h| h.more.iter().any(|l| l.is_empty())) { ":empty-cont-line" } else { "" }
    ));
    check_commit(
        rep,
        &bytes,
        match outside {
            None => Origin::Git,
            Some(w) => Origin::GitOutside(w),
        },
        Some(&id),
    );
}

// ---------------------------------------------------------------------------------------------
// tags

struct TagF {
    target: String,
    kind: &'static str,
    name: Vec<u8>,
    tagger: Option<Ident>,
    /// `None`: no blank line, no message
    message: Option<Vec<u8>>,
    sig_tail: Option<Vec<u8>>,
}

const PGP_BEGIN: &[u8] = b"-----BEGIN PGP SIGNATURE-----";

impl TagF {
    fn render(&self) -> Vec<u8> {
        let mut v = format!("object {}\ntype {}\ntag ", self.target, self.kind).into_bytes();
        v.extend_from_slice(&self.name);
        v.push(b'\n');
        if let Some(t) = &self.tagger {
            v.extend_from_slice(b"tagger ");
            v.extend_from_slice(&t.render());
            v.push(b'\n');
        }
        if let Some(m) = &self.message {
            v.push(b'\n');
            v.extend_from_slice(m);
            if let Some(s) = &self.sig_tail {
                v.push(b'\n');
                v.extend_from_slice(PGP_BEGIN);
                v.extend_from_slice(s);
            }
        }
        v
    }
    fn op(&self) -> Option<String> {
        let msg = self.message.as_ref()?;
        let mut s = format!("rendertag {} {} {} {}", hex(&unhex(&self.target)?), self.kind, hex(&self.name), self.tagger.is_some() as u8);
        if let Some(t) = &self.tagger {
            s.push(' ');
            s.push_str(&t.op());
        }
        s.push_str(&format!(" {}", hex(msg)));
        match &self.sig_tail {
            None => s.push_str(" none"),
            Some(t) => s.push_str(&format!(" {}", hex(t))),
        }
        Some(s)
    }
    fn outside(&self) -> Option<&'static str> {
        if let Some(w) = self.tagger.as_ref().and_then(|t| t.in_domain()) {
            return Some(w);
        }
        if let Some(m) = &self.message {
            if m.contains_str("\n-----BEGIN PGP SIGNATURE-----") {
                return Some("message itself contains an armour start line");
            }
            if let Some(s) = &self.sig_tail {
                if !s.contains_str("-----END PGP SIGNATURE-----") {
                    return Some("signature block without an END line");
                }
            }
        }
        None
    }
}

fn gen_tag_fields(r: &mut Rng, g: &Git) -> TagF {
    let (kind, pool): (&'static str, &Vec<String>) = match r.below(6) {
        0 => ("blob", &g.blobs),
        1 => ("tree", &g.trees),
        2 if !g.tags.is_empty() => ("tag", &g.tags),
        _ if !g.commits.is_empty() => ("commit", &g.commits),
        _ => ("blob", &g.blobs),
    };
    let name: Vec<u8> = match r.below(40) {
        0 => b"-dash".to_vec(),
        1..=3 => "v1.0-ünï".as_bytes().to_vec(),
        4..=6 => b"a/b/c".to_vec(),
        7..=8 => vec![b'v', 0xff],
        _ => {
            let mut n = r.over(b"abcv0.12-_", 10);
            n.insert(0, b'v');
            while n.ends_with(b".") || n.windows(2).any(|w| w == b"..") {
                n.pop();
            }
            n
        }
    };
    let message = if r.chance(1, 60) { None } else { Some(gen_message(r, true)) };
    let sig_tail = if message.is_some() && r.chance(1, 3) {
        let mut s = b"\n".to_vec();
        if r.chance(1, 2) {
            s.extend_from_slice(b"Version: GnuPG\n");
        }
        s.push(b'\n');
        for _ in 0..r.usize(3) {
            s.extend_from_slice(&gen_line(r, true));
            s.push(b'\n');
        }
        if r.chance(9, 10) {
            s.extend_from_slice(b"-----END PGP SIGNATURE-----");
            if r.chance(4, 5) {
                s.push(b'\n');
            }
        }
        if r.chance(1, 4) {
            // CRLF armour
            let mut t = Vec::new();
            for b in s {
                if b == b'\n' {
                    t.push(b'\r');
                }
                t.push(b);
            }
            s = t;
        }
        Some(s)
    } else {
        None
    };
    TagF {
        target: r.pick(pool).clone(),
        kind,
        name,
        tagger: if r.chance(5, 6) { Some(gen_ident(r, true)) } else { None },
        message,
        sig_tail,
    }
}

fn do_tag(rep: &mut Report, g: &mut Git, f: &TagF, via_mktag: bool) {
    let bytes_in = f.render();
    let id = if via_mktag {
        // `--no-strict` only demotes the missing-tagger / extra-header warnings
        let args: &[&str] = if f.tagger.is_none() { &["mktag", "--no-strict"] } else { &["mktag"] };
        g.spawns += 1;
        let o = git(&g.dir(), args, Some(&bytes_in));
        if !o.ok {
            rep.bucket("tag:refused-by-mktag");
            return;
        }
        String::from_utf8_lossy(&o.stdout).trim().to_string()
    } else {
        match g.hash_object("tag", &bytes_in) {
            Some(id) => id,
            None => {
                rep.bucket("tag:refused-by-hash-object");
                return;
            }
        }
    };
    let bytes = g.cat(&id);
    g.tags.push(id.clone());
    if let Some(op) = f.op() {
        rep.case(&op, &hex(&bytes), true);
        rep.bucket(if via_mktag { "render:mktag" } else { "render:hash-object-tag" });
    }
    rep.bucket(&format!(
        "tag-shape:{}:{}:{}",
        if f.tagger.is_some() { "tagger" } else { "no-tagger" },
        match &f.message {
            None => "no-body",
            Some(m) if m.is_empty() => "empty-msg",
            Some(m) if m.ends_with(b"\n") => "msg-nl",
            Some(_) => "msg-no-nl",
        },
        if f.sig_tail.is_some() { "signed" } else { "unsigned" }
    ));
    check_tag(
        rep,
        &bytes,
        match f.outside() {
            None => Origin::Git,
            Some(w) => Origin::GitOutside(w),
        },
        Some(&id),
    );
}

// ---------------------------------------------------------------------------------------------
// trees

#[derive(Clone)]
struct EntryF {
    mode: u32,
    name: Vec<u8>,
    oid: String,
}

fn gen_tree_fields(r: &mut Rng, g: &Git) -> Vec<EntryF> {
    let n = match r.below(6) {
        0 => 0,
        1 => 1,
        _ => r.usize(10),
    };
    let mut es: Vec<EntryF> = Vec::new();
    for _ in 0..n {
        let mode = match r.below(12) {
            0 => 0o40000,
            1 => 0o100755,
            2 => 0o120000,
            3 => 0o160000,
            4 => 0o100664,
            5 => *r.pick(&[0o40755u32, 0, 0o100000, 0o140000, 0o177777, 0o10644, 0o200000 | 0o100644]),
            _ => 0o100644,
        };
        let mut name = match r.below(7) {
            0 => "ünï ✓".as_bytes().to_vec(),
            1 => r.over(b"ab \t\n\"\\", 5),
            3 => r.over(ODD, 5),
            2 => vec![b'a', 0xff],
            _ => r.over(b"ab.-0", 6),
        };
        name.retain(|b| *b != b'/' && *b != 0);
        if name.is_empty() {
            name.push(b'f');
        }
        if es.iter().any(|e| e.name == name) {
            continue;
        }
        let oid = match mode & 0o170000 {
            0o040000 => r.pick(&g.trees).clone(),
            0o160000 => hex(&r.bytes(20)),
            _ => r.pick(&g.blobs).clone(),
        };
        es.push(EntryF { mode, name, oid });
    }
    // git's base_name_compare: a directory sorts as if its name ended in '/'
    es.sort_by(|a, b| {
        let key = |e: &EntryF| {
            let mut k = e.name.clone();
            if e.mode & 0o170000 == 0o040000 {
                k.push(b'/');
            }
            k
        };
        key(a).cmp(&key(b))
    });
    es
}

fn mode_in_domain(m: u32) -> bool {
    m == 0o40000 || m == 0o120000 || m == 0o160000 || (m < 65536 && m & 0o100000 != 0)
}

fn do_tree(rep: &mut Report, g: &mut Git, es: &[EntryF], rng: &mut Rng) {
    // mktree reads `<mode> SP <type> SP <id> TAB <name> NUL`; it writes the mode as given
    let mut input = Vec::new();
    let mut shuffled: Vec<&EntryF> = es.iter().collect();
    rng.shuffle(&mut shuffled);
    for e in shuffled {
        let ty = match e.mode & 0o170000 {
            0o040000 => "tree",
            0o160000 => "commit",
            _ => "blob",
        };
        input.extend_from_slice(format!("{:o} {} {}\t", e.mode, ty, e.oid).as_bytes());
        input.extend_from_slice(&e.name);
        input.push(0);
    }
    input.push(0); // the empty "line" that ends one tree in --batch mode
    let dir = g.dir();
    let Some(id) = g.mktree.ask(&dir, &input).filter(|id| id.len() == 40) else {
        g.spawns += 1;
        rep.bucket("tree:refused-by-mktree");
        return;
    };
    let bytes = g.cat(&id);
    g.trees.push(id.clone());
    let mut op = format!("rendertree {}", es.len());
    for e in es {
        op.push_str(&format!(" {} {} {}", e.mode, hex(&e.name), e.oid));
    }
    rep.case(&op, &hex(&bytes), !es.is_empty());
    rep.bucket("render:mktree");
    rep.bucket(&format!("tree-shape:n{}", es.len().min(3)));
    let outside = es.iter().any(|e| !mode_in_domain(e.mode));
    check_tree(
        rep,
        &bytes,
        if outside {
            Origin::GitOutside("entry mode outside {40000,120000,160000,1xxxxx} (git fsck: badFilemode / zeroPaddedFilemode)")
        } else {
            Origin::Git
        },
        Some(&id),
    );
}

// ---------------------------------------------------------------------------------------------
// mutations (model tie on everything the decoders see; git is not asked about these)

fn split_lines(b: &[u8]) -> Vec<Vec<u8>> {
    b.split_inclusive(|c| *c == b'\n').map(|l| l.to_vec()).collect()
}

const SIG_FORMS: &[&[u8]] = &[
    b"A <a> 1 +0000",
    b"A <a>",
    b"A <a> ",
    b"A <a> 12345",
    b"A <a> 12345 ",
    b"A <a> 1 --0700",
    b"A <a> 1 ++0700",
    b"A <a> 1 +-0700",
    b"A <a> 1 +07",
    b"A <a> 1 +070",
    b"A <a> 1 +07000",
    b"A <a> 1 +0700123",
    b"A <a> 1 +0199",
    b"A <a> 1 +9999",
    b"A <a> +1 +0000",
    b"A <a> -1 -0000",
    b"A <a> -0 +0000",
    b"A <a> 007 +0000",
    b"A <a> 9223372036854775807 +0000",
    b"A <a> 9223372036854775808 +0000",
    b"A <a> -9223372036854775808 +0000",
    b"A <a> -9223372036854775809 +0000",
    b"A <a> 1x +0000",
    b"A <a> 1  +0000",
    b"A <a>  1 +0000",
    b"A <a>1 +0000",
    b"A <a> 1 +0000 ",
    b"A <a> 1 +0000x",
    b"A  <a> 1 +0000",
    b" <a> 1 +0000",
    b"<a> 1 +0000",
    b"A<a> 1 +0000",
    b"A < a > 1 +0000",
    b"A <\ta\t> 1 +0000",
    b"A <  > 1 +0000",
    b"A < > 1 +0000",
    b"A <> 1 +0000",
    b"A <<a>> 1 +0000",
    b"A <a<b> 1 +0000",
    b"A <a>b> 1 +0000",
    b"A>B <a> 1 +0000",
    b"A <a 1 +0000",
    b"A a> 1 +0000",
    b"A a 1 +0000",
    b"> <a> 1 +0000",
    b"A <a> <b> 1 +0000",
    b"A <a>> 1 +0000",
    b"A <a> > 1 +0000",
    b"A <a \x0c> 1 +0000",
    b"A <a \x0b> 1 +0000",
    b"A <a\r> 1 +0000",
    b"A <\ra> 1 +0000",
    b"A\r <a> 1 +0000",
    b"\rA <a> 1 +0000",
    b"A <a> 1 +0000\r",
    b"A <a>\r1 +0000",
    b"A <a> 1\r+0000",
    b"A \x80\xff <\xc3> 1 +0000",
    b"",
];

fn mutate(r: &mut Rng, b: &[u8], kind: &str) -> Vec<u8> {
    let mut v = b.to_vec();
    let alphabet: &[u8] = b" \n<>+-09\t\0:a7\r\r\x0b\x0c\x80\xff";
    match r.below(14) {
        0 if !v.is_empty() => {
            let i = r.usize(v.len());
            v[i] = *r.pick(alphabet);
        }
        1 if !v.is_empty() => {
            let i = r.usize(v.len());
            v.remove(i);
        }
        2 => {
            let i = r.usize(v.len() + 1);
            v.insert(i, *r.pick(alphabet));
        }
        3 => {
            let i = r.usize(v.len() + 1);
            v.truncate(i);
        }
        4 | 5 if kind != "tree" => {
            // drop / duplicate / swap a line
            let mut ls = split_lines(&v);
            if !ls.is_empty() {
                let i = r.usize(ls.len());
                match r.below(3) {
                    0 => {
                        ls.remove(i);
                    }
                    1 => {
                        let l = ls[i].clone();
                        ls.insert(i, l);
                    }
                    _ => {
                        let j = r.usize(ls.len());
                        ls.swap(i, j);
                    }
                }
            }
            v = ls.concat();
        }
        6..=8 if kind != "tree" => {
            // replace the identity of an author/committer/tagger line by a non-canonical form
            let mut ls = split_lines(&v);
            let idx: Vec<usize> = ls
                .iter()
                .enumerate()
                .filter(|(_, l)| l.starts_with(b"author ") || l.starts_with(b"committer ") || l.starts_with(b"tagger "))
                .map(|(i, _)| i)
                .collect();
            if !idx.is_empty() {
                let i = *r.pick(&idx);
                let sp = ls[i].iter().position(|c| *c == b' ').unwrap();
                let mut l = ls[i][..=sp].to_vec();
                let form: &[u8] = *r.pick(SIG_FORMS);
                l.extend_from_slice(form);
                l.push(b'\n');
                ls[i] = l;
            }
            v = ls.concat();
        }
        9 if kind == "commit" => {
            // header-level edits
            let mut ls = split_lines(&v);
            let at = 1 + r.usize(ls.len().max(1));
            let line: &[u8] = *r.pick(&[
                &b"encoding \n"[..],
                b"encoding x\n",
                b"foo\n",
                b"foo \n",
                b" continuation\n",
                b"foo bar\n baz",
                b"foo bar\n \n",
                b"parent 0123456789abcdef0123456789abcdef01234567\n",
                b"parent 0123456789ABCDEF0123456789abcdef01234567\n",
                b"parent 0123456789abcdef0123456789abcdef012345678\n",
                b"parent 0123456789abcdef0123456789abcdef0123456\n",
                b"\n",
            ]);
            ls.insert(at.min(ls.len()), line.to_vec());
            v = ls.concat();
        }
        9 | 10 if kind == "tag" => {
            let extra: &[u8] = *r.pick(&[
                &b"\n-----BEGIN PGP SIGNATURE-----\n"[..],
                b"\n-----BEGIN PGP SIGNATURE-----\nx\n-----END PGP SIGNATURE-----\n",
                b"-----BEGIN PGP SIGNATURE-----\nx\n-----END PGP SIGNATURE-----",
                b"\n-----BEGIN PGP SIGNATURE----------END PGP SIGNATURE-----",
                b"\n-----END PGP SIGNATURE-----\n-----BEGIN PGP SIGNATURE-----\n",
                b"\n",
            ]);
            let i = r.usize(v.len() + 1);
            let tail = v.split_off(i);
            v.extend_from_slice(extra);
            v.extend_from_slice(&tail);
        }
        _ if kind == "tree" => {
            let form: &[u8] = *r.pick(&[
                &b"040000 d\0"[..],
                b"40000 d\0",
                b"100644 \0",
                b"0 z\0",
                b" z\0",
                b"100644z\0",
                b"108644 z\0",
                b"37777777777 z\0",
                b"40000100644 z\0",
                b"4000000000040000 z\0",
                b"100644 a b\0",
                b"100644  z\0",
                b"160000 m\0",
                b"120000 l\0",
                b"777777 x\0",
            ]);
            let mut e = form.to_vec();
            let n = *r.pick(&[20usize, 20, 20, 19, 21, 0]);
            e.extend_from_slice(&r.bytes(n));
            if r.chance(1, 2) {
                v.extend_from_slice(&e);
            } else {
                let mut w = e;
                w.extend_from_slice(&v);
                v = w;
            }
        }
        _ => {
            let i = r.usize(v.len() + 1);
            v.insert(i, *r.pick(alphabet));
        }
    }
    v
}

// ---------------------------------------------------------------------------------------------

fn corpus(rep: &mut Report, g: &mut Git) {
    let h = g.commits.first().cloned().unwrap_or_else(|| "0123456789abcdef0123456789abcdef01234567".into());
    // the three recorded shapes (known-findings.txt), made by git itself
    let t = TagF { target: h.clone(), kind: "commit", name: b"v1".to_vec(), tagger: Some(Ident { name: b"T".to_vec(), email: b"t@e".to_vec(), seconds: 1, minus: false, h: 0, m: 0 }), message: None, sig_tail: None };
    do_tag(rep, g, &t, true);
    let t = TagF { name: b"-v1".to_vec(), message: Some(b"msg\n".to_vec()), ..t };
    do_tag(rep, g, &t, true);
    let c = CommitF {
        tree: g.trees[0].clone(),
        parents: vec![],
        author: Ident { name: b"A".to_vec(), email: b"a".to_vec(), seconds: 1, minus: false, h: 0, m: 0 },
        committer: Ident { name: b"A".to_vec(), email: b"a".to_vec(), seconds: 1, minus: false, h: 0, m: 0 },
        encoding: None,
        extra: vec![],
        message: None,
    };
    do_commit(rep, g, &c, false);
    // CR and other bytes that line/trim helpers treat specially, everywhere the grammar takes any byte
    let crlf = CommitF {
        tree: g.trees[0].clone(),
        parents: vec![],
        author: Ident { name: b"A\rB\x0bC".to_vec(), email: b"a\r@\x0cb".to_vec(), seconds: 1, minus: false, h: 0, m: 0 },
        committer: Ident { name: b"C\xff".to_vec(), email: b"\x80".to_vec(), seconds: 2, minus: true, h: 1, m: 30 },
        encoding: Some(b"latin\r1".to_vec()),
        extra: vec![
            Header {
                name: b"gpgsig".to_vec(),
                first: b"-----BEGIN PGP SIGNATURE-----\r".to_vec(),
                more: vec![b"\r".to_vec(), b"abc\r".to_vec(), b"-----END PGP SIGNATURE-----\r".to_vec()],
            },
            Header { name: b"x-single".to_vec(), first: b"a\rb\r".to_vec(), more: vec![] },
            Header { name: b"mergetag".to_vec(), first: b"object 0123\r".to_vec(), more: vec![b"\r\r".to_vec(), vec![], b"\x0b\x0c\t".to_vec()] },
        ],
        message: Some(b"subject\r\n\r\nbody\r\nend\r".to_vec()),
    };
    do_commit(rep, g, &crlf, false);
    let t = TagF {
        target: h.clone(),
        kind: "commit",
        name: b"v3".to_vec(),
        tagger: Some(Ident { name: b"T\rU".to_vec(), email: b"t\r@e".to_vec(), seconds: 1, minus: false, h: 0, m: 0 }),
        message: Some(b"msg\r\nline\r".to_vec()),
        sig_tail: Some(b"\r\n\r\nabc\r\n-----END PGP SIGNATURE-----\r\n".to_vec()),
    };
    do_tag(rep, g, &t, true);
    do_tag(rep, g, &t, false);
    // ident lines only a verbatim pass-through (mktag / hash-object) can create: accepted by git's fsck,
    // normalised by the decoder, hence not re-encoded verbatim; reported as outside-domain
    for (email, hh, mm) in [(&b" t@e "[..], 0u32, 0u32), (b"t@e", 1, 99), (b"t@e", 99, 99)] {
        let t = TagF {
            target: h.clone(),
            kind: "commit",
            name: b"v2".to_vec(),
            tagger: Some(Ident { name: b"T".to_vec(), email: email.to_vec(), seconds: 1, minus: false, h: hh, m: mm }),
            message: Some(b"m\n".to_vec()),
            sig_tail: None,
        };
        do_tag(rep, g, &t, true);
    }
    // boundary values made by git, reported as outside-domain
    for (secs, hh, mm) in [(i64::MAX as i128 + 1, 0u32, 0u32), (1234, 99, 99), (1234, 1, 99)] {
        let mut c2 = CommitF { message: Some(b"m\n".to_vec()), ..CommitF { tree: c.tree.clone(), parents: vec![], author: c.author.clone(), committer: c.committer.clone(), encoding: None, extra: vec![], message: None } };
        c2.author.seconds = secs;
        c2.author.h = hh;
        c2.author.m = mm;
        // commit-tree normalises the zone itself (`+9999` -> `+10039`): compare with what it writes
        let id = commit_via_commit_tree(g, &c2);
        if let Some(id) = id {
            let bytes = g.cat(&id);
            check_commit(rep, &bytes, Origin::GitOutside("extreme date given to commit-tree"), Some(&id));
        }
    }
    for sig in SIG_FORMS {
        check_sig(rep, sig);
        let mut s = sig.to_vec();
        s.extend_from_slice(b"\nnext <line> 5 +0100\n");
        check_sig(rep, &s);
    }
}

fn replay(rep: &mut Report, ops: &[String]) {
    for op in ops {
        // failing inputs from the mutation stream carry `mutant:`; everything else in a replay file is
        // an object made by git from in-domain values
        let (origin, op) = match op.strip_prefix("mutant:") {
            Some(rest) => (Origin::Mutant, rest),
            None => (Origin::Git, op.as_str()),
        };
        let a: Vec<&str> = op.split(' ').collect();
        let bytes = a.last().and_then(|h| unhex(h));
        match (a[0], bytes) {
            ("parsecommit" | "itercommit" | "reencodecommit", Some(b)) => check_commit(rep, &b, origin, None),
            ("parsetag" | "itertag" | "reencodetag", Some(b)) => check_tag(rep, &b, origin, None),
            ("parsetree" | "itertree" | "reencodetree", Some(b)) => check_tree(rep, &b, origin, None),
            ("sig", Some(b)) => check_sig(rep, &b),
            _ => rep.note(&format!("replay: op kind {} needs the git binary and is re-generated by seed only", a[0])),
        }
    }
}

fn main() {
    let args = Args::parse();
    let mut rep = Report::new("C02", &args);
    if let Some(ops) = replay_ops(&args) {
        replay(&mut rep, &ops);
        rep.finish();
        return;
    }
    let mut r = Rng::new(args.seed);
    let mut g = Git::new();
    // a first commit so that parents / tag targets exist
    let mut first = gen_commit_fields(&mut r, &g, true);
    first.message = Some(b"first\n".to_vec());
    do_commit(&mut rep, &mut g, &first, true);
    corpus(&mut rep, &mut g);

    // spawning git costs ~0.2 s on this machine: commit-tree and mktag (one process per object)
    // get a small share, everything else goes through long-running git children
    let n = args.budget(700, 8_000);
    let spawn_share = if args.thorough { 12 } else { 24 }; // per mille, each
    let mut pool: Vec<(&'static str, Vec<u8>)> = Vec::new();
    for _ in 0..n {
        let d = r.below(1000);
        if d < spawn_share {
            let f = gen_commit_fields(&mut r, &g, true);
            do_commit(&mut rep, &mut g, &f, true);
        } else if d < 2 * spawn_share {
            let f = gen_tag_fields(&mut r, &g);
            do_tag(&mut rep, &mut g, &f, true);
        } else if d < 450 {
            let mut f = gen_commit_fields(&mut r, &g, false);
            if r.chance(1, 150) {
                f.message = None;
            }
            do_commit(&mut rep, &mut g, &f, false);
        } else if d < 750 {
            let f = gen_tag_fields(&mut r, &g);
            do_tag(&mut rep, &mut g, &f, false);
        } else {
            let es = gen_tree_fields(&mut r, &g);
            do_tree(&mut rep, &mut g, &es, &mut r);
        }
        // keep some of git's objects as seeds for the mutation stream
        if pool.len() < 400 || r.chance(1, 10) {
            let (kind, id) = match r.below(3) {
                0 if !g.commits.is_empty() => ("commit", r.pick(&g.commits).clone()),
                1 if !g.tags.is_empty() => ("tag", r.pick(&g.tags).clone()),
                _ => ("tree", r.pick(&g.trees).clone()),
            };
            let b = g.cat(&id);
            if pool.len() < 400 {
                pool.push((kind, b));
            } else {
                let i = r.usize(pool.len());
                pool[i] = (kind, b);
            }
        }
    }
    rep.note(&format!("git processes spawned: {}", g.spawns));
    let m = args.budget(2_500, 80_000);
    for _ in 0..m {
        let (kind, b) = r.pick(&pool).clone();
        let mut v = mutate(&mut r, &b, kind);
        if r.chance(1, 4) {
            v = mutate(&mut r, &v, kind);
        }
        match kind {
            "commit" => check_commit(&mut rep, &v, Origin::Mutant, None),
            "tag" => check_tag(&mut rep, &v, Origin::Mutant, None),
            _ => check_tree(&mut rep, &v, Origin::Mutant, None),
        }
        if r.chance(1, 10) {
            let mut s = r.pick(SIG_FORMS).to_vec();
            if r.chance(1, 2) && !s.is_empty() {
                let i = r.usize(s.len());
                s[i] = *r.pick(b" <>\n+-5x\t");
            }
            check_sig(&mut rep, &s);
        }
    }
    rep.finish();
}
