//! C41 — checkout stays inside the worktree and reproduces the index.
//!
//! A scratch world `R/{out/{f,l,sub/g}, sib, w/{side, dest/…}}` is built per scenario; `R/w/dest` (with a
//! `.git` directory and optional further pre-existing content) is the destination, everything else is the
//! canary. An index (hostile names, symlinks pointing anywhere, directory/file conflicts, duplicate
//! paths, gitlinks) is built in memory and checked out with the REAL `gix_worktree_state::checkout`
//! (overwrite on/off, initially-empty on/off, thread_limit 1/2/4/8, keep_going).
//!   * oracle 1 (containment): the snapshot of R (paths, types, link targets, content, mode, mtime)
//!     before and after must be identical outside `w/dest` and below `w/dest/.git`.
//!   * oracle 2 (reproduces): for conflict-free scenarios every entry must be there with its content /
//!     mode / target, and the tree equals what `git checkout-index -a` produces in a twin repository.
//!   * correspondence: the op line (options, pre-existing content, entries) goes to the Lean driver,
//!     which must predict the collisions, the errors and the complete tree below dest (single-threaded
//!     runs and conflict-free multi-threaded runs; other multi-threaded runs depend on the schedule).
use std::collections::{BTreeMap, BTreeSet};
use std::os::unix::ffi::OsStrExt;
use std::os::unix::fs::{MetadataExt, PermissionsExt};
use std::path::Path;
use std::sync::atomic::AtomicBool;

use bstr::ByteSlice;
use hcommon::{catch, git, hex, replay_ops, unhex, Args, Report, Rng, Scratch};

#[derive(Clone, Copy, PartialEq, Debug)]
enum Kind {
    File,
    Exec,
    Link,
    Gitlink,
}

#[derive(Clone, Debug)]
struct Entry {
    path: Vec<u8>,
    kind: Kind,
    /// content; for links the target in MODEL form (absolute = below the scratch root)
    data: Vec<u8>,
}

#[derive(Clone, Debug)]
enum Pre {
    File(Vec<u8>, bool),
    Link(Vec<u8>),
    Dir,
}

#[derive(Clone, Debug)]
struct Scenario {
    entries: Vec<Entry>,
    pre: Vec<(Vec<u8>, Pre)>,
    overwrite: bool,
    empty: bool,
    threads: usize,
    /// conflict-free: the result does not depend on the schedule and must reproduce the index
    simple: bool,
    /// `Some(delay allowed)`: the index has .gitattributes (eol conversion, the long-running `arrow` filter process)
    filter: Option<bool>,
    /// paths whose blob is NOT in the object database
    missing: Vec<Vec<u8>>,
}

#[derive(Clone)]
struct Odb(std::sync::Arc<BTreeMap<gix_hash::ObjectId, Vec<u8>>>);
impl gix_object::Find for Odb {
    fn try_find<'a>(
        &self,
        id: &gix_hash::oid,
        buf: &'a mut Vec<u8>,
    ) -> Result<Option<gix_object::Data<'a>>, gix_object::find::Error> {
        match self.0.get(id) {
            Some(d) => {
                buf.clear();
                buf.extend_from_slice(d);
                Ok(Some(gix_object::Data {
                    kind: gix_object::Kind::Blob,
                    data: buf,
                }))
            }
            None => Ok(None),
        }
    }
}

fn p(b: &[u8]) -> &Path {
    Path::new(std::ffi::OsStr::from_bytes(b))
}

/// model form -> real form of a link target: absolute targets live below the scratch root
fn real_target(root: &Path, t: &[u8]) -> Vec<u8> {
    if t.first() == Some(&b'/') {
        let mut v = root.as_os_str().as_bytes().to_vec();
        v.extend_from_slice(t);
        v
    } else {
        t.to_vec()
    }
}

fn model_target(root: &Path, t: &[u8]) -> Vec<u8> {
    let r = root.as_os_str().as_bytes();
    if t.starts_with(r) && t.get(r.len()) == Some(&b'/') {
        t[r.len()..].to_vec()
    } else {
        t.to_vec()
    }
}

/// relpath -> description; `with_time`: add the mtime (canary comparison)
type Snap = BTreeMap<Vec<u8>, String>;
fn snap_into(root: &Path, base: &Path, rel: &mut Vec<u8>, with_time: bool, out: &mut Snap) {
    let here = if rel.is_empty() { base.to_path_buf() } else { base.join(p(rel)) };
    let Ok(rd) = std::fs::read_dir(&here) else { return };
    for e in rd.flatten() {
        let name = e.file_name();
        let l = rel.len();
        if !rel.is_empty() {
            rel.push(b'/');
        }
        rel.extend_from_slice(name.as_bytes());
        if let Ok(meta) = std::fs::symlink_metadata(e.path()) {
            let t = if with_time {
                format!(":m{}.{}", meta.mtime(), meta.mtime_nsec())
            } else {
                String::new()
            };
            if meta.file_type().is_symlink() {
                let target = std::fs::read_link(e.path()).map(|t| t.as_os_str().as_bytes().to_vec()).unwrap_or_default();
                out.insert(rel.clone(), format!("l{}{t}", hex(&model_target(root, &target))));
            } else if meta.is_dir() {
                out.insert(rel.clone(), format!("d{t}"));
                snap_into(root, base, rel, with_time, out);
            } else {
                let data = std::fs::read(e.path()).unwrap_or_default();
                out.insert(
                    rel.clone(),
                    format!("f{}{}{t}", if meta.permissions().mode() & 0o100 != 0 { "x" } else { "-" }, hex(&data)),
                );
            }
        }
        rel.truncate(l);
    }
}
fn snapshot(root: &Path, base: &Path, with_time: bool) -> Snap {
    let mut s = Snap::new();
    snap_into(root, base, &mut Vec::new(), with_time, &mut s);
    s
}

struct RunOut {
    collisions: Vec<Vec<u8>>,
    errors: Vec<Vec<u8>>,
    fatal: Option<String>,
    canary_before: Snap,
    canary_after: Snap,
    tree: Snap,
}

fn is_canary(rel: &[u8]) -> bool {
    !(rel == b"w/dest" || rel.starts_with(b"w/dest/")) || rel == b"w/dest/.git" || rel.starts_with(b"w/dest/.git/")
}

fn run(root: &Path, sc: &Scenario) -> RunOut {
    let _ = std::fs::remove_dir_all(root);
    std::fs::create_dir_all(root.join("out/sub")).unwrap();
    std::fs::write(root.join("out/f"), b"c").unwrap();
    std::fs::write(root.join("out/sub/g"), b"g").unwrap();
    std::os::unix::fs::symlink("f", root.join("out/l")).unwrap();
    std::fs::write(root.join("sib"), b"s").unwrap();
    let dest = root.join("w/dest");
    std::fs::create_dir_all(&dest).unwrap();
    std::fs::write(root.join("w/side"), b"s").unwrap();
    // the process works from a canary directory holding files named like the index entries
    let cwd = root.join("cwd");
    std::fs::create_dir_all(&cwd).unwrap();
    for e in &sc.entries {
        let comps: Vec<&[u8]> = e.path.split(|b| *b == b'/').collect();
        if e.path.is_empty() || e.path.contains(&0) || comps.iter().any(|c| c.is_empty() || *c == b"." || *c == b"..") {
            continue;
        }
        let full = cwd.join(p(&e.path));
        if let Some(parent) = full.parent() {
            if std::fs::create_dir_all(parent).is_err() {
                continue;
            }
        }
        if std::fs::symlink_metadata(&full).is_err() && std::fs::write(&full, b"cwd").is_ok() {
            let _ = std::fs::set_permissions(&full, std::fs::Permissions::from_mode(0o644));
        }
    }
    std::env::set_current_dir(&cwd).unwrap();
    for (path, pre) in &sc.pre {
        let full = dest.join(p(path));
        match pre {
            Pre::Dir => std::fs::create_dir(&full).unwrap(),
            Pre::File(d, x) => {
                std::fs::write(&full, d).unwrap();
                std::fs::set_permissions(&full, std::fs::Permissions::from_mode(if *x { 0o755 } else { 0o644 })).unwrap();
            }
            Pre::Link(t) => std::os::unix::fs::symlink(p(&real_target(root, t)), &full).unwrap(),
        }
    }
    let mut objs = BTreeMap::new();
    let mut state = gix_index::State::new(gix_hash::Kind::Sha1);
    for e in &sc.entries {
        let data = if e.kind == Kind::Link { real_target(root, &e.data) } else { e.data.clone() };
        let id = gix_object::compute_hash(gix_hash::Kind::Sha1, gix_object::Kind::Blob, &data);
        if !sc.missing.contains(&e.path) {
            objs.insert(id, data);
        }
        let mode = match e.kind {
            Kind::File => gix_index::entry::Mode::FILE,
            Kind::Exec => gix_index::entry::Mode::FILE_EXECUTABLE,
            Kind::Link => gix_index::entry::Mode::SYMLINK,
            Kind::Gitlink => gix_index::entry::Mode::COMMIT,
        };
        state.dangerously_push_entry(Default::default(), id, gix_index::entry::Flags::empty(), mode, e.path.as_bstr());
    }
    state.sort_entries();
    let canary_before: Snap = snapshot(root, root, true).into_iter().filter(|(k, _)| is_canary(k)).collect();
    let mut opts = gix_worktree_state::checkout::Options {
        fs: gix_fs::Capabilities {
            precompose_unicode: false,
            ignore_case: false,
            executable_bit: true,
            symlink: true,
        },
        thread_limit: Some(sc.threads),
        destination_is_initially_empty: sc.empty,
        overwrite_existing: sc.overwrite,
        keep_going: true,
        ..Default::default()
    };
    if let Some(delay) = sc.filter {
        opts.filter_process_delay = if delay {
            gix_filter::driver::apply::Delay::Allow
        } else {
            gix_filter::driver::apply::Delay::Forbid
        };
        opts.filters.options_mut().drivers = vec![gix_filter::Driver {
            name: "arrow".into(),
            clean: None,
            smudge: None,
            process: Some(format!("{} process", arrow_exe()).into()),
            required: true,
        }];
    }
    let res = gix_worktree_state::checkout(
        &mut state,
        dest.clone(),
        Odb(std::sync::Arc::new(objs)),
        &gix_features::progress::Discard,
        &gix_features::progress::Discard,
        &AtomicBool::new(false),
        opts,
    );
    let canary_after: Snap = snapshot(root, root, true).into_iter().filter(|(k, _)| is_canary(k)).collect();
    let tree = if dest.symlink_metadata().map(|m| m.is_dir()).unwrap_or(false) {
        snapshot(root, &dest, false)
    } else {
        let mut s = Snap::new();
        s.insert(b"<dest is not a directory any more>".to_vec(), "!".into());
        s
    };
    match res {
        Ok(o) => RunOut {
            collisions: o.collisions.iter().map(|c| c.path.to_vec()).collect(),
            errors: o.errors.iter().map(|c| c.path.to_vec()).collect(),
            fatal: None,
            canary_before,
            canary_after,
            tree,
        },
        Err(e) => RunOut {
            collisions: vec![],
            errors: vec![],
            fatal: Some(e.to_string()),
            canary_before,
            canary_after,
            tree,
        },
    }
}

fn arrow_exe() -> String {
    std::env::current_exe()
        .expect("current exe")
        .parent()
        .expect("bin dir")
        .join("c41-arrow")
        .to_string_lossy()
        .into_owned()
}

fn kind_char(k: Kind) -> char {
    match k {
        Kind::File => 'f',
        Kind::Exec => 'x',
        Kind::Link => 'l',
        Kind::Gitlink => 'g',
    }
}

/// index order: by path bytes, equal paths in the order given (the sort is stable)
fn sorted_entries(sc: &Scenario) -> Vec<Entry> {
    let mut es = sc.entries.clone();
    es.sort_by(|a, b| a.path.cmp(&b.path));
    es
}

fn op_line(sc: &Scenario) -> String {
    let mut s = format!(
        "co {}{} {}",
        if sc.overwrite { 'o' } else { '-' },
        if sc.empty { 'e' } else { '-' },
        sc.pre.len()
    );
    if let Some(delay) = sc.filter {
        // not an operation of the Lean model (filters are not modelled): `cof <flags> <threads> <missing,…|-> <npre> …`
        s = format!(
            "cof {}{}{} {} {} {}",
            if sc.overwrite { 'o' } else { '-' },
            if sc.empty { 'e' } else { '-' },
            if delay { 'D' } else { '-' },
            sc.threads,
            if sc.missing.is_empty() { "-".to_string() } else { sc.missing.iter().map(|m| hex(m)).collect::<Vec<_>>().join(",") },
            sc.pre.len()
        );
    }
    for (path, pre) in &sc.pre {
        let (k, d): (char, Vec<u8>) = match pre {
            Pre::Dir => ('d', vec![]),
            Pre::File(d, x) => (if *x { 'x' } else { 'f' }, d.clone()),
            Pre::Link(t) => ('l', t.clone()),
        };
        s.push_str(&format!(" {k}:{}:{}", hex(path), hex(&d)));
    }
    for e in sorted_entries(sc) {
        s.push_str(&format!(" {}:{}:{}", kind_char(e.kind), hex(&e.path), hex(&e.data)));
    }
    s
}

fn parse_op(op: &str) -> Option<Scenario> {
    let mut ws: Vec<&str> = op.split(' ').collect();
    let mut filter = None;
    let mut missing = Vec::new();
    let mut threads = 1;
    if ws.len() >= 5 && ws[0] == "cof" {
        filter = Some(ws[1].contains('D'));
        threads = ws[2].parse().ok()?;
        if ws[3] != "-" {
            for m in ws[3].split(',') {
                missing.push(unhex(m)?);
            }
        }
        let flags = ws[1];
        ws = [vec!["co", flags], ws[4..].to_vec()].concat();
    }
    if ws.len() < 3 || ws[0] != "co" {
        return None;
    }
    let fl: Vec<char> = ws[1].chars().collect();
    let npre: usize = ws[2].parse().ok()?;
    let mut pre = Vec::new();
    let mut entries = Vec::new();
    for (i, w) in ws[3..].iter().enumerate() {
        let parts: Vec<&str> = w.split(':').collect();
        if parts.len() != 3 {
            return None;
        }
        let path = unhex(parts[1])?;
        let d = unhex(parts[2])?;
        if i < npre {
            pre.push((
                path,
                match parts[0] {
                    "d" => Pre::Dir,
                    "f" => Pre::File(d, false),
                    "x" => Pre::File(d, true),
                    "l" => Pre::Link(d),
                    _ => return None,
                },
            ));
        } else {
            entries.push(Entry {
                path,
                kind: match parts[0] {
                    "f" => Kind::File,
                    "x" => Kind::Exec,
                    "l" => Kind::Link,
                    "g" => Kind::Gitlink,
                    _ => return None,
                },
                data: d,
            });
        }
    }
    Some(Scenario {
        entries,
        pre,
        overwrite: fl.first() == Some(&'o'),
        empty: fl.get(1) == Some(&'e'),
        threads,
        simple: false,
        filter,
        missing,
    })
}

fn paths_obs(ps: &[Vec<u8>]) -> String {
    let set: BTreeSet<&Vec<u8>> = ps.iter().collect();
    if set.is_empty() {
        "-".into()
    } else {
        set.iter().map(|p| hex(p)).collect::<Vec<_>>().join(",")
    }
}

fn tree_obs(t: &Snap) -> String {
    if t.is_empty() {
        "-".into()
    } else {
        t.iter().map(|(k, v)| format!("{}={}", hex(k), v)).collect::<Vec<_>>().join(",")
    }
}

// ------------------------------------------------------------------------------------------------
// generator
// ------------------------------------------------------------------------------------------------

const PLAIN: &[&str] = &["a", "b", "c", "d", "e", "x", "y", "lnk", "sub"];
const HOSTILE: &[&[u8]] = &[
    b".git",
    b".GIT",
    b".Git",
    b"git~1",
    b"GIT~1",
    b".gitmodules",
    b".git ",
    b".git.",
    b".git::$INDEX_ALLOCATION",
    b".g\xe2\x80\x8cit",
    b"..",
    b".",
    b"con",
    b"aux.txt",
    b"a:b",
    b"a\\b",
    b"tr.",
    b"tr ",
    b"a?",
    b".gitattribute",
];
const TARGETS: &[&[u8]] = &[
    b"../../out",
    b"../../out/f",
    b"../../out/sub",
    b"../..",
    b"..",
    b"../side",
    b"/out",
    b"/out/sub",
    b"/w/dest/.git",
    b".git",
    b".git/hooks",
    b"a",
    b"b/c",
    b"nowhere",
    b"../../sib",
    b"",
    b".",
];

fn rand_path(rng: &mut Rng, hostile: bool) -> Vec<u8> {
    let depth = 1 + rng.usize(3);
    let mut comps: Vec<Vec<u8>> = Vec::new();
    for _ in 0..depth {
        if hostile && rng.chance(1, 4) {
            comps.push(rng.pick(HOSTILE).to_vec());
        } else {
            comps.push(rng.pick(PLAIN).as_bytes().to_vec());
        }
    }
    let mut path = comps.join(&b'/');
    if hostile {
        match rng.usize(14) {
            0 => path.insert(0, b'/'),
            1 => path.push(b'/'),
            2 => path = path.replace("/", "//"),
            3 => path = [b"./".as_slice(), &path].concat(),
            _ => {}
        }
    }
    path
}

fn rand_data(rng: &mut Rng) -> Vec<u8> {
    let n = rng.usize(4);
    (0..n).map(|_| b'0' + rng.usize(10) as u8).collect()
}

fn rand_kind(rng: &mut Rng) -> Kind {
    match rng.usize(10) {
        0..=3 => Kind::File,
        4 | 5 => Kind::Exec,
        6..=8 => Kind::Link,
        _ => Kind::Gitlink,
    }
}

fn git_pre() -> Vec<(Vec<u8>, Pre)> {
    vec![
        (b".git".to_vec(), Pre::Dir),
        (b".git/config".to_vec(), Pre::File(b"cfg".to_vec(), false)),
        (b".git/hooks".to_vec(), Pre::Dir),
        (b".git/hooks/h".to_vec(), Pre::File(b"h".to_vec(), true)),
    ]
}

/// add pre-existing content at `path` and directories leading to it
fn add_pre(pre: &mut Vec<(Vec<u8>, Pre)>, path: &[u8], node: Pre) {
    let comps: Vec<&[u8]> = path.split(|b| *b == b'/').filter(|c| !c.is_empty()).collect();
    if comps.is_empty() || comps.iter().any(|c| *c == b"." || *c == b"..") {
        return;
    }
    let mut cur: Vec<u8> = Vec::new();
    for (i, c) in comps.iter().enumerate() {
        if !cur.is_empty() {
            cur.push(b'/');
        }
        cur.extend_from_slice(c);
        let existing = pre.iter().find(|(p, _)| *p == cur).map(|(_, n)| matches!(n, Pre::Dir));
        if i + 1 == comps.len() {
            if existing.is_none() {
                pre.push((cur.clone(), node.clone()));
            }
        } else {
            match existing {
                None => pre.push((cur.clone(), Pre::Dir)),
                Some(true) => {}
                Some(false) => return, // a file or link is in the way: leave it
            }
        }
    }
}

fn gen_hostile(rng: &mut Rng) -> Scenario {
    let mut entries: Vec<Entry> = Vec::new();
    let n = 2 + rng.usize(9);
    for _ in 0..n {
        let kind = rand_kind(rng);
        let hostile = rng.chance(1, 3);
        let path = rand_path(rng, hostile);
        let data = if kind == Kind::Link { rng.pick(TARGETS).to_vec() } else { rand_data(rng) };
        entries.push(Entry { path, kind, data });
    }
    // directory/file conflicts, paths through earlier symlinks, duplicate paths
    for _ in 0..rng.usize(4) {
        if entries.is_empty() {
            break;
        }
        let base = entries[rng.usize(entries.len())].clone();
        match rng.usize(4) {
            0 | 1 => {
                // something below an existing entry
                let mut path = base.path.clone();
                path.push(b'/');
                path.extend_from_slice(rng.pick(&["f", "sub/g", "hooks/h", "b", ".git/x"]).as_bytes());
                let kind = rand_kind(rng);
                let data = if kind == Kind::Link { rng.pick(TARGETS).to_vec() } else { rand_data(rng) };
                entries.push(Entry { path, kind, data });
            }
            2 => {
                // a leading directory of an existing entry as entry of its own
                if let Some(i) = base.path.iter().rposition(|b| *b == b'/') {
                    let kind = rand_kind(rng);
                    let data = if kind == Kind::Link { rng.pick(TARGETS).to_vec() } else { rand_data(rng) };
                    entries.push(Entry { path: base.path[..i].to_vec(), kind, data });
                }
            }
            _ => {
                let kind = rand_kind(rng);
                let data = if kind == Kind::Link { rng.pick(TARGETS).to_vec() } else { rand_data(rng) };
                entries.push(Entry { path: base.path.clone(), kind, data });
            }
        }
    }
    if rng.chance(1, 25) {
        entries.push(Entry { path: vec![], kind: rand_kind(rng), data: b"e".to_vec() });
    }
    let mut pre = git_pre();
    if rng.chance(2, 3) {
        for _ in 0..(1 + rng.usize(4)) {
            let path = if rng.chance(2, 3) && !entries.is_empty() {
                let e = &entries[rng.usize(entries.len())];
                // the entry's path or one of its leading directories
                let cuts: Vec<usize> = e.path.iter().enumerate().filter(|(_, b)| **b == b'/').map(|(i, _)| i).collect();
                if !cuts.is_empty() && rng.chance(1, 2) {
                    e.path[..*rng.pick(&cuts)].to_vec()
                } else {
                    e.path.clone()
                }
            } else {
                rand_path(rng, false)
            };
            let node = match rng.usize(5) {
                0 | 1 => Pre::Link(rng.pick(TARGETS).to_vec()),
                2 => Pre::Dir,
                3 => Pre::File(rand_data(rng), true),
                _ => Pre::File(rand_data(rng), false),
            };
            if let Pre::Link(t) = &node {
                if t.is_empty() {
                    continue;
                }
            }
            add_pre(&mut pre, &path, node);
        }
    }
    Scenario {
        entries,
        pre,
        overwrite: rng.chance(1, 2),
        empty: rng.chance(1, 2),
        threads: *rng.pick(&[1, 1, 2, 4, 8]),
        simple: false,
        filter: None,
        missing: vec![],
    }
}

/// a conflict-free index with plain names; pre-existing content only at unrelated names
fn gen_simple(rng: &mut Rng) -> Scenario {
    let mut entries: Vec<Entry> = Vec::new();
    let mut taken: BTreeSet<Vec<u8>> = BTreeSet::new(); // entry paths
    let mut dirs: BTreeSet<Vec<u8>> = BTreeSet::new(); // leading directories
    let big = rng.chance(1, 4);
    let n = 3 + rng.usize(if big { 120 } else { 14 });
    for i in 0..n {
        let mut path = rand_path(rng, false);
        if rng.chance(1, 2) {
            path.extend_from_slice(format!("{i}").as_bytes());
        }
        let mut prefixes: Vec<Vec<u8>> = Vec::new();
        for (j, b) in path.iter().enumerate() {
            if *b == b'/' {
                prefixes.push(path[..j].to_vec());
            }
        }
        if taken.contains(&path) || dirs.contains(&path) || prefixes.iter().any(|q| taken.contains(q)) {
            continue;
        }
        for q in prefixes {
            dirs.insert(q);
        }
        taken.insert(path.clone());
        let kind = match rng.usize(8) {
            0..=3 => Kind::File,
            4 | 5 => Kind::Exec,
            _ => Kind::Link,
        };
        let data = if kind == Kind::Link {
            let t = rng.pick(TARGETS).to_vec();
            if t.is_empty() { b"x".to_vec() } else { t }
        } else {
            rand_data(rng)
        };
        entries.push(Entry { path, kind, data });
    }
    let mut pre = git_pre();
    let with_pre = rng.chance(1, 2);
    if with_pre {
        for k in 0..(1 + rng.usize(3)) {
            let name = format!("pre{k}").into_bytes();
            let node = match rng.usize(3) {
                0 => Pre::Link(b"../../out".to_vec()),
                1 => Pre::Dir,
                _ => Pre::File(b"p".to_vec(), false),
            };
            add_pre(&mut pre, &name, node);
        }
    }
    Scenario {
        entries,
        pre,
        overwrite: rng.chance(1, 2),
        empty: !with_pre && rng.chance(1, 2),
        threads: *rng.pick(&[1, 2, 4, 8]),
        simple: true,
        filter: None,
        missing: vec![],
    }
}

const ATTRS: &[u8] = b"*.arw filter=arrow\n*.txt text eol=crlf\n*.bin -text\n";

/// an index with .gitattributes: eol conversion and the long-running filter process `arrow` (which delays
/// its answers when allowed to); optionally a nested .gitattributes, which may be missing from the object database
fn gen_filter(rng: &mut Rng) -> Scenario {
    let mut entries = vec![Entry { path: b".gitattributes".to_vec(), kind: Kind::File, data: ATTRS.to_vec() }];
    let mut missing = Vec::new();
    match rng.usize(3) {
        0 => {}
        1 => entries.push(Entry { path: b"sub/.gitattributes".to_vec(), kind: Kind::File, data: b"*.txt -text\n".to_vec() }),
        _ => {
            entries.push(Entry { path: b"sub/.gitattributes".to_vec(), kind: Kind::File, data: b"*.txt -text\n*.arw -filter\n".to_vec() });
            missing.push(b"sub/.gitattributes".to_vec());
        }
    }
    let dirs: &[&str] = &["", "", "sub/", "sub/deep/", "other/", "zz/"];
    let exts: &[&str] = &["txt", "txt", "arw", "arw", "bin"];
    let mut taken: BTreeSet<Vec<u8>> = BTreeSet::new();
    let n = 4 + rng.usize(10);
    for i in 0..n {
        let path = format!("{}{}{}.{}", rng.pick(dirs), rng.pick(&["a", "m", "run", "z"]), i, rng.pick(exts)).into_bytes();
        if !taken.insert(path.clone()) {
            continue;
        }
        let lines = rng.usize(4);
        let mut data = Vec::new();
        for l in 0..lines {
            data.extend_from_slice(format!("line{l}").as_bytes());
            if l + 1 < lines || rng.chance(3, 4) {
                data.extend_from_slice(if rng.chance(1, 8) { b"\r\n" } else { b"\n" });
            }
        }
        entries.push(Entry { path, kind: if rng.chance(1, 3) { Kind::Exec } else { Kind::File }, data });
    }
    // something after every directory, so that leaving it matters
    entries.push(Entry { path: b"zzz.txt".to_vec(), kind: Kind::File, data: b"last\n".to_vec() });
    entries.push(Entry { path: b"zzy.arw".to_vec(), kind: Kind::Exec, data: b"last\n".to_vec() });
    Scenario {
        entries,
        pre: git_pre(),
        overwrite: rng.chance(1, 2),
        empty: rng.chance(1, 2),
        threads: *rng.pick(&[1, 1, 2, 4]),
        simple: false,
        filter: Some(rng.chance(2, 3)),
        missing,
    }
}

fn corpus() -> Vec<Scenario> {
    let e = |path: &[u8], kind: Kind, data: &[u8]| Entry { path: path.to_vec(), kind, data: data.to_vec() };
    let sc = |entries: Vec<Entry>, extra_pre: Vec<(&[u8], Pre)>, overwrite: bool, empty: bool| {
        let mut pre = git_pre();
        for (path, n) in extra_pre {
            add_pre(&mut pre, path, n);
        }
        Scenario { entries, pre, overwrite, empty, threads: 1, simple: false, filter: None, missing: vec![] }
    };
    vec![
        // the four escapes found while building this check (fixed in /repo)
        sc(vec![e(b"a", Kind::Link, b"../../out"), e(b"a/b", Kind::Link, b"whatever")], vec![], false, true),
        sc(vec![e(b"a", Kind::File, b"A"), e(b"a/f", Kind::File, b"PWNED")], vec![(b"a", Pre::Link(b"../../out".to_vec()))], false, false),
        sc(vec![e(b"x", Kind::Link, b".git"), e(b"x/hooks/h", Kind::File, b"evil")], vec![], true, false),
        sc(vec![e(b"a", Kind::Link, b"../../out"), e(b"a/b/file", Kind::File, b"F"), e(b"a/x", Kind::Link, b"evil")], vec![], true, true),
        sc(vec![e(b"", Kind::File, b"E"), e(b"z", Kind::File, b"Z")], vec![], true, false),
        sc(vec![e(b".gitmodules", Kind::Link, b"x"), e(b".gitmodules/f", Kind::File, b"F")], vec![], true, true),
        // the same path twice, the second time as a directory-like entry
        sc(vec![e(b"a", Kind::File, b"A"), e(b"a", Kind::Gitlink, b""), e(b"a/f", Kind::File, b"PWNED")], vec![(b"a", Pre::Link(b"../../out".to_vec()))], false, false),
        sc(vec![e(b"a", Kind::Gitlink, b""), e(b"a", Kind::Link, b"../../out"), e(b"a/f", Kind::Link, b"t")], vec![], true, false),
        // plain paths, hostile paths
        sc(vec![e(b"a/./b", Kind::File, b"1"), e(b"a//c", Kind::File, b"2"), e(b"d/", Kind::File, b"3"), e(b"e/../f", Kind::File, b"4"), e(b"/abs", Kind::File, b"5")], vec![], false, true),
        sc(vec![e(b".git/hooks/h", Kind::Exec, b"evil"), e(b".GIT/x", Kind::File, b"1"), e(b"git~1/y", Kind::File, b"2"), e(b"a/.git/z", Kind::File, b"3")], vec![], true, false),
        sc(vec![e(b"d/f", Kind::File, b"1"), e(b"d/x", Kind::Exec, b"2"), e(b"l", Kind::Link, b"d/f")], vec![(b"d/x", Pre::File(b"old".to_vec(), false)), (b"l", Pre::Dir)], true, false),
        sc(vec![e(b"d/f", Kind::File, b"1"), e(b"d/x", Kind::Exec, b"2"), e(b"l", Kind::Link, b"d/f")], vec![(b"d", Pre::Link(b"../../out".to_vec()))], false, false),
        sc(vec![e(b"d/f", Kind::File, b"1"), e(b"d/x", Kind::Exec, b"2"), e(b"l", Kind::Link, b"d/f")], vec![(b"d", Pre::Link(b"../../out".to_vec()))], true, false),
    ]
}

// ------------------------------------------------------------------------------------------------
// oracles
// ------------------------------------------------------------------------------------------------

fn short(op: &str) -> String {
    if op.len() > 400 {
        let mut h: u64 = 0xcbf29ce484222325;
        for b in op.bytes() {
            h ^= b as u64;
            h = h.wrapping_mul(0x100000001b3);
        }
        format!("{}…(len={} fnv={h:016x})", &op[..380], op.len())
    } else {
        op.to_string()
    }
}

fn judge_containment(rep: &mut Report, op: &str, sc: &Scenario, out: &RunOut) {
    rep.oracle_checked();
    let mut diffs: Vec<String> = Vec::new();
    for (k, v) in &out.canary_after {
        match out.canary_before.get(k) {
            Some(b) if b == v => {}
            Some(b) => diffs.push(format!("changed {}: {} -> {}", k.as_bstr(), b, v)),
            None => diffs.push(format!("created {}: {}", k.as_bstr(), v)),
        }
    }
    for k in out.canary_before.keys() {
        if !out.canary_after.contains_key(k) {
            diffs.push(format!("removed {}", k.as_bstr()));
        }
    }
    if !diffs.is_empty() {
        rep.oracle_failure(
            &format!("escape threads={} {}", sc.threads, short(op)),
            &format!("outside the destination / below its .git: {}", diffs.join("; ")),
            op,
        );
    }
}

/// conflict-free scenario: everything must be there exactly as the index says, and as git makes it
fn judge_reproduces(rep: &mut Report, root: &Path, op: &str, sc: &Scenario, out: &RunOut, with_git: bool) {
    rep.oracle_checked();
    let key = format!("not-reproduced threads={} {}", sc.threads, short(op));
    if out.fatal.is_some() || !out.collisions.is_empty() || !out.errors.is_empty() {
        rep.oracle_failure(
            &key,
            &format!("conflict-free index, yet fatal={:?} collisions={} errors={}", out.fatal, paths_obs(&out.collisions), paths_obs(&out.errors)),
            op,
        );
        return;
    }
    let pre_paths: BTreeSet<&[u8]> = sc.pre.iter().map(|(p, _)| p.as_slice()).collect();
    for e in &sc.entries {
        let want = match e.kind {
            Kind::File => format!("f-{}", hex(&e.data)),
            Kind::Exec => format!("fx{}", hex(&e.data)),
            Kind::Link => format!("l{}", hex(&e.data)),
            Kind::Gitlink => "d".to_string(),
        };
        if out.tree.get(&e.path) != Some(&want) {
            rep.oracle_failure(&key, &format!("{}: want {want}, have {:?}", e.path.as_bstr(), out.tree.get(&e.path)), op);
            return;
        }
    }
    if !with_git {
        return;
    }
    let twin = root.join("twin");
    let _ = std::fs::remove_dir_all(&twin);
    std::fs::create_dir_all(&twin).unwrap();
    if !git(&twin, &["init", "-q", "."], None).ok {
        return;
    }
    let mut info: Vec<u8> = Vec::new();
    for e in &sc.entries {
        let data = if e.kind == Kind::Link { real_target(root, &e.data) } else { e.data.clone() };
        let o = git(&twin, &["hash-object", "-w", "--stdin"], Some(&data));
        let oid = String::from_utf8_lossy(&o.stdout).trim().to_string();
        let mode = match e.kind {
            Kind::File => "100644",
            Kind::Exec => "100755",
            Kind::Link => "120000",
            Kind::Gitlink => continue,
        };
        info.extend_from_slice(format!("{mode} {oid}\t").as_bytes());
        info.extend_from_slice(&e.path);
        info.push(0);
    }
    let o = git(&twin, &["-c", "core.symlinks=true", "update-index", "-z", "--index-info"], Some(&info));
    rep.git_checked(1);
    if !o.ok {
        rep.outside_domain(&format!("git update-index refused a conflict-free index: {}", String::from_utf8_lossy(&o.stderr)));
        return;
    }
    let o = git(&twin, &["-c", "core.symlinks=true", "-c", "core.filemode=true", "checkout-index", "-a"], None);
    if !o.ok {
        rep.outside_domain(&format!("git checkout-index failed: {}", String::from_utf8_lossy(&o.stderr)));
        return;
    }
    let git_tree: Snap = snapshot(root, &twin, false)
        .into_iter()
        .filter(|(k, _)| !(k.as_slice() == b".git" || k.starts_with(b".git/")))
        .collect();
    let ours: Snap = out
        .tree
        .iter()
        .filter(|(k, _)| !pre_paths.contains(k.as_slice()))
        .map(|(k, v)| (k.clone(), v.clone()))
        .collect();
    if git_tree != ours {
        let mut d = Vec::new();
        for (k, v) in &git_tree {
            if ours.get(k) != Some(v) {
                d.push(format!("{}: git {v}, gix {:?}", k.as_bstr(), ours.get(k)));
            }
        }
        for k in ours.keys() {
            if !git_tree.contains_key(k) {
                d.push(format!("{}: only gix", k.as_bstr()));
            }
        }
        rep.oracle_failure(&key, &format!("differs from git checkout-index: {}", d.join("; ")), op);
    }
    let _ = std::fs::remove_dir_all(&twin);
}

/// filters: what is written must be what git writes (content after eol conversion / the filter process, mode)
fn judge_filter(rep: &mut Report, root: &Path, op: &str, sc: &Scenario, out: &RunOut) {
    rep.oracle_checked();
    let key = format!("filtered-differs threads={} {}", sc.threads, short(op));
    if let Some(f) = &out.fatal {
        rep.oracle_failure(&key, &format!("the checkout failed although keep_going is set: {f}"), op);
        return;
    }
    // entries below a directory whose .gitattributes cannot be read fail, nothing else does
    let dead_dirs: Vec<Vec<u8>> = sc
        .missing
        .iter()
        .filter_map(|m| m.iter().rposition(|b| *b == b'/').map(|i| m[..=i].to_vec()))
        .collect();
    let below_dead = |path: &[u8]| dead_dirs.iter().any(|d| path.starts_with(d) || path == &d[..d.len() - 1]);
    let want_errors: BTreeSet<Vec<u8>> = sc.entries.iter().filter(|e| below_dead(&e.path)).map(|e| e.path.clone()).collect();
    let have_errors: BTreeSet<Vec<u8>> = out.errors.iter().cloned().collect();
    if have_errors != want_errors || !out.collisions.is_empty() {
        rep.oracle_failure(
            &key,
            &format!("errors {} (expected {}), collisions {}", paths_obs(&out.errors), paths_obs(&want_errors.iter().cloned().collect::<Vec<_>>()), paths_obs(&out.collisions)),
            op,
        );
        return;
    }
    let twin = root.join("twin");
    let _ = std::fs::remove_dir_all(&twin);
    std::fs::create_dir_all(&twin).unwrap();
    if !git(&twin, &["init", "-q", "."], None).ok {
        return;
    }
    let process = format!("{} process", arrow_exe());
    git(&twin, &["config", "filter.arrow.process", &process], None);
    git(&twin, &["config", "filter.arrow.required", "true"], None);
    let mut info: Vec<u8> = Vec::new();
    for e in &sc.entries {
        let data: &[u8] = if sc.missing.contains(&e.path) { b"" } else { &e.data };
        let o = git(&twin, &["hash-object", "-w", "--stdin"], Some(data));
        let oid = String::from_utf8_lossy(&o.stdout).trim().to_string();
        let mode = if e.kind == Kind::Exec { "100755" } else { "100644" };
        info.extend_from_slice(format!("{mode} {oid}\t").as_bytes());
        info.extend_from_slice(&e.path);
        info.push(0);
    }
    let o = git(&twin, &["update-index", "-z", "--index-info"], Some(&info));
    let o2 = git(&twin, &["-c", "core.filemode=true", "checkout-index", "-a"], None);
    rep.git_checked(1);
    if !o.ok || !o2.ok {
        rep.outside_domain(&format!("git twin failed: {} {}", String::from_utf8_lossy(&o.stderr), String::from_utf8_lossy(&o2.stderr)));
        return;
    }
    let keep = |k: &[u8]| !(k == b".git" || k.starts_with(b".git/")) && !below_dead(k);
    let git_tree: Snap = snapshot(root, &twin, false).into_iter().filter(|(k, _)| keep(k)).collect();
    let ours: Snap = out.tree.iter().filter(|(k, _)| keep(k)).map(|(k, v)| (k.clone(), v.clone())).collect();
    if git_tree != ours {
        let mut d = Vec::new();
        for (k, v) in &git_tree {
            if ours.get(k) != Some(v) {
                d.push(format!("{}: git {v}, gix {:?}", k.as_bstr(), ours.get(k)));
            }
        }
        for k in ours.keys() {
            if !git_tree.contains_key(k) {
                d.push(format!("{}: only gix", k.as_bstr()));
            }
        }
        rep.oracle_failure(&key, &format!("differs from git checkout-index: {}", d.join("; ")), op);
    }
    let _ = std::fs::remove_dir_all(&twin);
}

fn run_one(rep: &mut Report, root: &Path, sc: &Scenario, with_git: bool) {
    let op = op_line(sc);
    let sc2 = sc.clone();
    let root2 = root.to_path_buf();
    let out = match catch(move || run(&root2, &sc2)) {
        Ok(o) => o,
        Err(msg) => {
            rep.oracle_failure(&format!("panic threads={} {}", sc.threads, short(&op)), &msg, &op);
            return;
        }
    };
    let obs = match &out.fatal {
        Some(_) => "fatal".to_string(),
        None => format!("C:{};E:{};T:{}", paths_obs(&out.collisions), paths_obs(&out.errors), tree_obs(&out.tree)),
    };
    rep.bucket(&format!("threads:{}", sc.threads));
    rep.bucket(if sc.overwrite { "overwrite:on" } else { "overwrite:off" });
    rep.bucket(if sc.empty { "initially-empty:on" } else { "initially-empty:off" });
    rep.bucket(if sc.simple { "index:conflict-free" } else { "index:hostile" });
    rep.bucket(if sc.pre.len() > 4 { "dest:pre-populated" } else { "dest:only-.git" });
    if !out.collisions.is_empty() {
        rep.bucket("outcome:some-collision");
    }
    if !out.errors.is_empty() {
        rep.bucket("outcome:some-error");
    }
    if sc.entries.iter().any(|e| e.kind == Kind::Link) {
        rep.bucket("index:has-symlink");
    }
    if sc.filter.is_some() {
        rep.bucket(if sc.filter == Some(true) { "filters:delay-allowed" } else { "filters:no-delay" });
        if !sc.missing.is_empty() {
            rep.bucket("filters:nested-gitattributes-missing");
        }
        rep.oracle_only(&op, true);
        judge_filter(rep, root, &op, sc, &out);
    } else if sc.threads == 1 || sc.simple {
        rep.case(&op, &obs, true);
    } else {
        rep.oracle_only(&op, true);
    }
    judge_containment(rep, &op, sc, &out);
    if sc.simple {
        judge_reproduces(rep, root, &op, sc, &out, with_git);
    }
}

fn main() {
    let args = Args::parse();
    let start_dir = std::env::current_dir().expect("cwd");
    let mut rep = Report::new("C41", &args);
    let mut rng = Rng::new(args.seed);
    let scratch = Scratch::new("c41");
    let root = scratch.path.join("R");

    if let Some(ops) = replay_ops(&args) {
        for op in ops {
            if let Some(sc) = parse_op(&op) {
                if sc.filter.is_some() {
                    run_one(&mut rep, &root, &sc, false);
                    continue;
                }
                for threads in [1usize, 4] {
                    let mut sc = sc.clone();
                    sc.threads = threads;
                    run_one(&mut rep, &root, &sc, false);
                }
            }
        }
        let _ = std::env::set_current_dir(&start_dir);
        rep.finish();
        return;
    }

    for sc in corpus() {
        for threads in [1usize, 2, 8] {
            let mut sc = sc.clone();
            sc.threads = threads;
            run_one(&mut rep, &root, &sc, false);
        }
    }
    // time-aware: no new random scenario once the budget of wall time is used up (70 % of the check's limit:
    // `C41_TIME_LIMIT_S` if given, else conservative constants), so that the run always finishes cleanly
    let started = std::time::Instant::now();
    let stop_after = std::env::var("C41_TIME_LIMIT_S")
        .ok()
        .and_then(|v| v.parse::<u64>().ok())
        .map(|limit| limit * 7 / 10)
        .unwrap_or(if args.thorough { 2300 } else { 400 });
    let out_of_time = |started: &std::time::Instant| started.elapsed().as_secs() >= stop_after;
    let n_filter = args.budget(24, 100);
    let n = args.budget(180, 650);
    let (mut ran_filter, mut ran_random) = (0u64, 0u64);
    // the two kinds alternate so that a time-limited run still has both
    let mut i = 0u64;
    while (ran_random < n || ran_filter < n_filter) && !out_of_time(&started) {
        if ran_filter < n_filter && (ran_random >= n || i % 7 == 6) {
            let sc = gen_filter(&mut rng);
            run_one(&mut rep, &root, &sc, false);
            ran_filter += 1;
        } else if ran_random % 3 == 2 {
            let sc = gen_simple(&mut rng);
            run_one(&mut rep, &root, &sc, ran_random % 12 == 2);
            ran_random += 1;
        } else {
            let sc = gen_hostile(&mut rng);
            run_one(&mut rep, &root, &sc, false);
            ran_random += 1;
        }
        i += 1;
    }
    if ran_random < n || ran_filter < n_filter {
        rep.bucket("stopped-by-time-budget");
    }
    rep.note(&format!(
        "random scenarios run: {ran_random} of {n}, filter scenarios: {ran_filter} of {n_filter} ({} s of {stop_after} s); the corpus is always complete",
        started.elapsed().as_secs()
    ));
    let _ = std::env::set_current_dir(&start_dir);
    rep.finish();
}
