//! C42 — `gix_fs::Stack::make_relative_path_current` driven through histories of relative paths
//! with a delegate that rejects calls according to a mask (k-th fallible call fails) and logs
//! every call. Observation per call: outcome, `current()` below the root, `current_relative()`,
//! the delegate calls. The oracle replays the call log as a stack of open directories and compares
//! it with the directories on the stack's current path after every call.
use gix_fs::Stack;
use hcommon::*;
use std::ffi::OsStr;
use std::os::unix::ffi::OsStrExt;
use std::path::{Path, PathBuf};

const ROOT: &str = "r";

#[derive(Clone, Debug)]
enum Ev {
    PushDir(Vec<u8>, bool),
    Push(Vec<u8>, bool, bool),
    Pop,
}

struct MaskDelegate {
    mask: Vec<bool>,
    k: usize,
    log: Vec<Ev>,
    /// stateful flavour (like the attribute/ignore stacks of gix-worktree): the delegate keeps its own
    /// stack of open directories and from then on REJECTS every call that does not fit it — its
    /// later behaviour depends on whether an earlier failed/misplaced call left something behind
    strict: bool,
    dirs: Vec<Vec<u8>>,
    inconsistent: Option<String>,
}

impl MaskDelegate {
    /// does a call for `path` fit the delegate's own open directories (its parent is the top)?
    fn fits(&mut self, what: &str, path: &[u8], is_dir_push: bool) -> bool {
        if !self.strict {
            return true;
        }
        let parent: Option<Vec<u8>> = if path.is_empty() {
            None
        } else {
            Some(match path.iter().rposition(|b| *b == b'/') {
                Some(p) => path[..p].to_vec(),
                None => Vec::new(),
            })
        };
        let ok = match (&parent, self.dirs.last()) {
            (None, None) => is_dir_push,
            (Some(p), Some(top)) => p == top,
            _ => false,
        };
        if !ok && self.inconsistent.is_none() {
            self.inconsistent = Some(format!(
                "{what}({:?}) does not fit the delegate's own open directories {:?}",
                String::from_utf8_lossy(path),
                self.dirs.iter().map(|d| String::from_utf8_lossy(d).into_owned()).collect::<Vec<_>>()
            ));
        }
        ok
    }
    fn next_fails(&mut self) -> bool {
        let f = self.mask.get(self.k).copied().unwrap_or(false);
        self.k += 1;
        f
    }
}

fn rejected() -> std::io::Error {
    std::io::Error::new(std::io::ErrorKind::PermissionDenied, "delegate-rejected")
}

impl gix_fs::stack::Delegate for MaskDelegate {
    fn push_directory(&mut self, stack: &Stack) -> std::io::Result<()> {
        let path = stack.current_relative().as_os_str().as_bytes().to_vec();
        let fails = self.next_fails() | !self.fits("push_directory", &path, true);
        self.log.push(Ev::PushDir(path.clone(), !fails));
        if !fails {
            self.dirs.push(path);
        }
        if fails {
            Err(rejected())
        } else {
            Ok(())
        }
    }
    fn push(&mut self, is_last_component: bool, stack: &Stack) -> std::io::Result<()> {
        let path = stack.current_relative().as_os_str().as_bytes().to_vec();
        let fails = self.next_fails() | !self.fits("push", &path, false);
        self.log.push(Ev::Push(
            stack.current_relative().as_os_str().as_bytes().to_vec(),
            is_last_component,
            !fails,
        ));
        if fails {
            Err(rejected())
        } else {
            Ok(())
        }
    }
    fn pop_directory(&mut self) {
        if self.strict && self.dirs.pop().is_none() && self.inconsistent.is_none() {
            self.inconsistent = Some("pop_directory with none of the delegate's directories open".into());
        }
        self.log.push(Ev::Pop);
    }
}

fn show_ev(e: &Ev) -> String {
    match e {
        Ev::PushDir(p, ok) => format!("D{}:{}", *ok as u8, hex(p)),
        Ev::Push(p, last, ok) => format!("P{}{}:{}", if *last { "L" } else { "N" }, *ok as u8, hex(p)),
        Ev::Pop => "O".into(),
    }
}

fn mask_str(m: &[bool]) -> String {
    if m.is_empty() {
        "-".into()
    } else {
        m.iter().map(|b| if *b { '1' } else { '0' }).collect()
    }
}

fn bpath(b: &[u8]) -> &Path {
    Path::new(OsStr::from_bytes(b))
}

fn lossy(b: &[u8]) -> String {
    String::from_utf8_lossy(b).into_owned()
}

/// what one history did
struct Outcome {
    /// number of fallible delegate calls made
    calls: usize,
}

/// The directories that must be open for `rel`: the root and every proper ancestor; `with_leaf`
/// adds `rel` itself.
fn expected_open(rel: &Path, with_leaf: bool) -> Vec<PathBuf> {
    let mut v = vec![PathBuf::new()];
    let mut acc = PathBuf::new();
    let comps: Vec<_> = rel.components().collect();
    for (i, c) in comps.iter().enumerate() {
        acc.push(c);
        if i + 1 < comps.len() || with_leaf {
            v.push(acc.clone());
        }
    }
    v
}

fn do_history(rep: &mut Report, mask: &[bool], paths: &[Vec<u8>], nontrivial: bool) -> Outcome {
    do_history_with(rep, mask, paths, nontrivial, false)
}

fn do_history_with(rep: &mut Report, mask: &[bool], paths: &[Vec<u8>], nontrivial: bool, strict: bool) -> Outcome {
    let root = PathBuf::from(ROOT);
    let mut op = format!("hist {}", mask_str(mask));
    for p in paths {
        op.push(' ');
        op.push_str(&hex(p));
    }
    let mut d = MaskDelegate {
        mask: mask.to_vec(),
        k: 0,
        log: Vec::new(),
        strict,
        dirs: Vec::new(),
        inconsistent: None,
    };
    if strict {
        rep.bucket("stateful-delegate");
    }
    let mut s = Stack::new(root.clone());
    let mut obs = Vec::new();
    let mut violation: Option<String> = None;
    let mut open: Vec<PathBuf> = Vec::new(); // oracle: open directories, root side first
    let mut root_opened = false;
    let mut any_err = false;
    for (pi, p) in paths.iter().enumerate() {
        let before = d.log.len();
        let rel_before = s.current_relative().to_owned();
        let res = catch(|| s.make_relative_path_current(bpath(p), &mut d));
        let outcome = match &res {
            Ok(Ok(())) => "ok",
            Ok(Err(e)) => {
                any_err = true;
                let m = e.to_string();
                if m == "empty inputs are not allowed" {
                    "err:empty"
                } else if m.contains("contains relative or absolute components") {
                    "err:comp"
                } else if m == "delegate-rejected" {
                    "err:delegate"
                } else {
                    "err:other"
                }
            }
            Err(_) => "panic",
        };
        let cur = s.current().as_os_str().as_bytes().to_vec();
        let rel = s.current_relative().as_os_str().as_bytes().to_vec();
        // `current()` below the root, textually
        let below = if cur == ROOT.as_bytes() {
            Vec::new()
        } else if cur.starts_with(format!("{ROOT}/").as_bytes()) {
            cur[ROOT.len() + 1..].to_vec()
        } else {
            let mut v = b"!".to_vec();
            v.extend_from_slice(&cur);
            v
        };
        let evs = &d.log[before..];
        let l = if evs.is_empty() {
            "-".to_string()
        } else {
            evs.iter().map(show_ev).collect::<Vec<_>>().join(",")
        };
        obs.push(format!("{outcome} cur={} rel={} log={l}", hex(&below), hex(&rel)));
        rep.bucket(&format!("call:{outcome}"));
        if evs.iter().any(|e| matches!(e, Ev::Pop)) {
            rep.bucket("call-with-pop_directory");
        }

        // ---- oracle: the property evaluated on what the real code did -------------------------
        rep.oracle_checked();
        let mut fail = |what: String| {
            if violation.is_none() {
                violation = Some(format!("after path #{} {:?}: {}", pi + 1, lossy(p), what));
            }
        };
        if outcome == "panic" {
            fail("panic".into());
        }
        for e in evs {
            match e {
                Ev::PushDir(path, true) => {
                    let path = bpath(path).to_owned();
                    let fits = match open.last() {
                        None => path.as_os_str().is_empty(),
                        Some(top) => path.parent() == Some(top.as_path()) && path != *top,
                    };
                    if !fits {
                        fail(format!(
                            "push_directory({:?}) while the open directories are {:?}",
                            path, open
                        ));
                    }
                    if path.as_os_str().is_empty() {
                        root_opened = true;
                    }
                    open.push(path);
                }
                Ev::Pop => {
                    if open.pop().is_none() {
                        fail("pop_directory with no open directory".into());
                    }
                }
                _ => {}
            }
        }
        let relp = s.current_relative();
        if s.current() != root.join(relp) {
            fail(format!("current {:?} != root/current_relative {:?}", s.current(), relp));
        }
        match outcome {
            "ok" => {
                if s.current() != root.join(bpath(p)) || relp != bpath(p) {
                    fail(format!("ok but current is {:?}", s.current()));
                }
            }
            _ => {
                let unchanged = relp == rel_before;
                if !(unchanged || bpath(p).starts_with(relp)) {
                    fail(format!("rejected but current_relative {:?} is neither unchanged nor a prefix", relp));
                }
            }
        }
        let balanced = open == expected_open(relp, false)
            || (!relp.as_os_str().is_empty() && open == expected_open(relp, true))
            || (!root_opened && open.is_empty() && relp.as_os_str().is_empty());
        if !balanced {
            fail(format!(
                "open directories {:?} are not the directories of current_relative {:?}",
                open, relp
            ));
        }
    }
    if let Some(what) = &d.inconsistent {
        if violation.is_none() {
            violation = Some(format!("stateful delegate: {what}"));
        }
    }
    let obs = obs.join(";");
    rep.case(&op, &obs, nontrivial);
    rep.bucket(&format!("paths={}", paths.len()));
    rep.bucket(if any_err { "some-call-rejected" } else { "all-ok" });
    if let Some(v) = &violation {
        rep.bucket("violation");
        let key = format!(
            "mask={} paths=[{}]",
            mask_str(mask),
            paths.iter().map(|p| lossy(p)).collect::<Vec<_>>().join(" , ")
        );
        // keep the report small: the smallest witnesses come first (corpus order)
        if rep.failures.len() < 8 {
            rep.oracle_failure(&key, v, &op);
        }
    }
    Outcome { calls: d.k }
}

/// every distinct failure behaviour of `paths`: depth-first over "the next not yet decided call
/// fails", at most `max_fail` failing calls
fn all_masks(rep: &mut Report, paths: &[Vec<u8>], max_fail: usize, nontrivial: bool) -> u64 {
    let mut n = 0u64;
    let mut todo: Vec<Vec<bool>> = vec![vec![]];
    while let Some(mask) = todo.pop() {
        let out = do_history(rep, &mask, paths, nontrivial);
        n += 1;
        let fails = mask.iter().filter(|b| **b).count();
        if fails < max_fail {
            for k in mask.len()..out.calls {
                let mut m = mask.clone();
                m.resize(k, false);
                m.push(true);
                todo.push(m);
            }
        }
    }
    n
}

fn gen_path(r: &mut Rng, prev: Option<&Vec<u8>>) -> Vec<u8> {
    const SPECIAL: &[&[u8]] = &[
        b"", b"..", b"a/..", b"/", b"/a", b"./a", b"a//b", b"a/./b", b"a/", b".", b"a/../b", b"../a", b"a/b/..",
        b"a/.", b"//", b"./", b"a/b/",
    ];
    if r.chance(1, 12) {
        return r.pick(SPECIAL).to_vec();
    }
    if r.chance(1, 40) {
        return r.over(b"a./", 6);
    }
    let mut comps: Vec<Vec<u8>> = Vec::new();
    if let Some(prev) = prev {
        if r.chance(3, 4) {
            let pc: Vec<Vec<u8>> = prev
                .split(|b| *b == b'/')
                .filter(|c| !c.is_empty() && *c != b"." && *c != b"..")
                .map(|c| c.to_vec())
                .collect();
            let keep = r.usize(pc.len() + 1);
            comps.extend_from_slice(&pc[..keep]);
        }
    }
    let extra = match r.below(8) {
        0 => 0,
        1..=4 => 1,
        5..=6 => 2,
        _ => 3,
    };
    for _ in 0..extra {
        comps.push(vec![*r.pick(b"abc")]);
    }
    comps.truncate(4);
    if comps.is_empty() && r.chance(3, 4) {
        comps.push(vec![*r.pick(b"abc")]);
    }
    comps.join(&b'/')
}

fn gen_mask(r: &mut Rng) -> Vec<bool> {
    match r.below(6) {
        0 | 1 => vec![],
        2 => {
            let k = r.usize(14);
            let mut m = vec![false; k];
            m.push(true);
            m
        }
        3 => {
            let mut m = vec![false; 24];
            for _ in 0..2 {
                let k = r.usize(24);
                m[k] = true;
            }
            m
        }
        _ => {
            let den = 3 + r.below(8);
            (0..30).map(|_| r.chance(1, den)).collect()
        }
    }
}

fn b(s: &str) -> Vec<u8> {
    s.as_bytes().to_vec()
}

fn do_comps(rep: &mut Report, p: &[u8]) {
    let op = format!("comps {}", hex(p));
    let cs: Vec<String> = bpath(p)
        .components()
        .map(|c| match c {
            std::path::Component::Normal(n) => format!("N:{}", hex(n.as_bytes())),
            std::path::Component::ParentDir => "parent".into(),
            std::path::Component::RootDir => "root".into(),
            std::path::Component::CurDir => "cur".into(),
            std::path::Component::Prefix(_) => "prefix".into(),
        })
        .collect();
    let obs = if cs.is_empty() { "-".to_string() } else { cs.join(",") };
    rep.case(&op, &obs, false);
    rep.bucket("components");
}

fn main() {
    let args = Args::parse();
    let mut rep = Report::new("C42", &args);
    let mut r = Rng::new(args.seed);
    if let Some(ops) = replay_ops(&args) {
        for op in ops {
            let a: Vec<&str> = op.split(' ').collect();
            if a.len() >= 2 && a[0] == "hist" {
                let mask: Vec<bool> = if a[1] == "-" { vec![] } else { a[1].chars().map(|c| c == '1').collect() };
                let paths: Vec<Vec<u8>> = a[2..].iter().filter_map(|h| unhex(h)).collect();
                do_history(&mut rep, &mask, &paths, true);
            } else if a.len() == 2 && a[0] == "comps" {
                if let Some(p) = unhex(a[1]) {
                    do_comps(&mut rep, &p);
                }
            }
        }
        rep.finish();
        return;
    }

    // ---- corpus: smallest histories first, every distinct failure behaviour --------------------
    let small: Vec<Vec<u8>> = ["", "a", "b", "a/b", "a/c", "a/b/c", "b/a", "..", "/a", "a/..", "a/b/.."]
        .iter()
        .map(|s| b(s))
        .collect();
    for p in &small {
        all_masks(&mut rep, &[p.clone()], 3, true);
    }
    for p in &small {
        for q in &small {
            all_masks(&mut rep, &[p.clone(), q.clone()], 2, true);
        }
    }
    let tiny: Vec<Vec<u8>> = ["", "a", "a/b", "b", "a/b/c"].iter().map(|s| b(s)).collect();
    for p in &tiny {
        for q in &tiny {
            for w in &tiny {
                all_masks(&mut rep, &[p.clone(), q.clone(), w.clone()], 2, true);
            }
        }
    }
    // Path::components() corner cases: every string over {a . /} up to length 4 (5 when thorough)
    let maxlen = if args.thorough { 5 } else { 4 };
    let mut strings: Vec<Vec<u8>> = vec![vec![]];
    let mut frontier: Vec<Vec<u8>> = vec![vec![]];
    for _ in 0..maxlen {
        let mut next = Vec::new();
        for s in &frontier {
            for c in b"a./" {
                let mut t = s.clone();
                t.push(*c);
                next.push(t);
            }
        }
        strings.extend(next.iter().cloned());
        frontier = next;
    }
    for s in &strings {
        do_comps(&mut rep, s);
    }
    for s in strings.iter().filter(|s| s.len() <= 3) {
        do_history(&mut rep, &[], &[b("a/b"), s.clone(), b("a/c")], false);
        do_history(&mut rep, &[], &[b("a"), s.clone()], false);
    }

    // ---- thorough: all histories of ≤ 4 paths over {a,b} (depth ≤ 2, plus the empty path) with
    // every distinct failure behaviour of up to 4 (3 paths) / 3 (4 paths) failing calls
    if args.thorough {
        let two: Vec<Vec<u8>> = ["", "a", "b", "a/a", "a/b", "b/a", "b/b"].iter().map(|s| b(s)).collect();
        for p in &two {
            for q in &two {
                for w in &two {
                    all_masks(&mut rep, &[p.clone(), q.clone(), w.clone()], 4, true);
                    for x in &two {
                        all_masks(&mut rep, &[p.clone(), q.clone(), w.clone(), x.clone()], 3, true);
                    }
                }
            }
        }
    }

    // ---- random histories ---------------------------------------------------------------------
    let n = args.budget(20_000, 400_000);
    for _ in 0..n {
        let len = 1 + r.usize(6);
        let mut paths: Vec<Vec<u8>> = Vec::new();
        for _ in 0..len {
            let p = gen_path(&mut r, paths.last());
            paths.push(p);
        }
        let mask = gen_mask(&mut r);
        let strict = r.chance(1, 2);
        do_history_with(&mut rep, &mask, &paths, true, strict);
    }
    rep.finish();
}
