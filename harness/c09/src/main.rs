//! C09 — pack index and multi-pack index lookups agree with a linear scan.
//!
//! Every case is an *operation line* that fully determines what is executed (so a replay file
//! re-runs exactly the same thing):
//!
//!   idx <n> <id>:<offset>:<crc>:<blob content hex> … | <query> …
//!       the entries are written with gitoxide's own writer `index::File::write_data_iter_to_stream`
//!       (fed from a sparse virtual pack: each entry really is a zlib'ed blob whose SHA-1 is <id>,
//!       resolved at the arbitrary 64-bit pack offset <offset>), the file is opened with
//!       `index::File::at` and queried.
//!   raw <index file bytes hex> | <query> …
//!       any index file (written by gitoxide, by `git pack-objects`/`git index-pack` (V2 and V1), or
//!       synthesised byte-wise with arbitrary ids, e.g. ids that differ in the last nibble only)
//!       opened and queried with the real reader.
//!   midx <packs> {<mtime> <n> <id>:<offset>:<crc> …}* | <query> …
//!       one synthesised V2 index per pack, `multi_index::File::write_from_index_paths`,
//!       `multi_index::File::at`, queries.
//!
//! Queries: `F` fan-out table, `T` the written tables, `L<id>` full lookup (+ what is recorded at
//! the index found), `O<i>` what is recorded at entry index i, `P<hexlen>,<id>` prefix lookup with
//! and without the candidates range.
//! Oracle (independent of the Lean model): a linear scan over `File::iter()` answers every query,
//! and `iter()` itself must give back exactly the entry set that was written.
use gix_pack::{data, index, multi_index};
use hcommon::*;
use std::collections::{BTreeMap, BTreeSet};
use std::path::{Path, PathBuf};
use std::sync::atomic::AtomicBool;

type Id = [u8; 20];

fn oid(id: &Id) -> gix_hash::ObjectId {
    gix_hash::ObjectId::from_bytes_or_panic(id)
}

fn blob_id(content: &[u8]) -> Id {
    let h = gix_object::compute_hash(gix_hash::Kind::Sha1, gix_object::Kind::Blob, content);
    h.as_bytes().try_into().expect("20 bytes")
}

fn idhex(id: &Id) -> String {
    hex(id)
}

#[derive(Clone, Debug, PartialEq, Eq)]
struct E {
    id: Id,
    offset: u64,
    crc: u32,
    content: Option<Vec<u8>>,
}

fn entry_text(e: &E) -> String {
    match &e.content {
        Some(c) => format!("{}:{}:{}:{}", idhex(&e.id), e.offset, e.crc, hex(c)),
        None => format!("{}:{}:{}", idhex(&e.id), e.offset, e.crc),
    }
}

fn parse_entry(s: &str) -> Option<E> {
    let f: Vec<&str> = s.split(':').collect();
    if f.len() != 3 && f.len() != 4 {
        return None;
    }
    let id: Id = unhex(f[0])?.try_into().ok()?;
    Some(E {
        id,
        offset: f[1].parse().ok()?,
        crc: f[2].parse().ok()?,
        content: if f.len() == 4 { Some(unhex(f[3])?) } else { None },
    })
}

// ---------------------------------------------------------------------------------------------
// writing: gitoxide's writer over a sparse virtual pack

fn adler32(d: &[u8]) -> u32 {
    let (mut a, mut b) = (1u32, 0u32);
    for x in d {
        a = (a + *x as u32) % 65521;
        b = (b + a) % 65521;
    }
    (b << 16) | a
}

/// header + zlib stream (one stored block) of a blob pack entry; returns (bytes, header size)
fn pack_entry_bytes(content: &[u8]) -> (Vec<u8>, u16) {
    assert!(content.len() < 65536);
    let mut out = Vec::new();
    let mut size = content.len() as u64;
    let mut c = (3u8 << 4) | (size & 0xf) as u8;
    size >>= 4;
    while size != 0 {
        out.push(c | 0x80);
        c = (size & 0x7f) as u8;
        size >>= 7;
    }
    out.push(c);
    let hs = out.len() as u16;
    out.extend_from_slice(&[0x78, 0x01, 0x01]);
    let l = content.len() as u16;
    out.extend_from_slice(&l.to_le_bytes());
    out.extend_from_slice(&(!l).to_le_bytes());
    out.extend_from_slice(content);
    out.extend_from_slice(&adler32(content).to_be_bytes());
    (out, hs)
}

fn resolve<'a>(r: data::EntryRange, m: &'a BTreeMap<u64, Vec<u8>>) -> Option<&'a [u8]> {
    m.get(&r.start).map(|v| v.as_slice())
}

/// `index::File::write_data_iter_to_stream` on the given entries (any order; fed by ascending offset)
fn write_with_gitoxide(es: &[E]) -> Result<Vec<u8>, String> {
    let mut by_ofs: Vec<&E> = es.iter().collect();
    by_ofs.sort_by_key(|e| e.offset);
    let mut pack = BTreeMap::new();
    let mut input = Vec::new();
    let pack_hash = oid(&[0x5a; 20]);
    for (k, e) in by_ofs.iter().enumerate() {
        let content = e.content.as_ref().expect("idx entries carry their blob content");
        let (bytes, hs) = pack_entry_bytes(content);
        input.push(Ok(data::input::Entry {
            header: data::entry::Header::Blob,
            header_size: hs,
            pack_offset: e.offset,
            compressed: None,
            compressed_size: bytes.len() as u64 - hs as u64,
            crc32: Some(e.crc),
            decompressed_size: content.len() as u64,
            trailer: if k + 1 == by_ofs.len() { Some(pack_hash) } else { None },
        }));
        pack.insert(e.offset, bytes);
    }
    let mut out = Vec::new();
    let mut it = input.into_iter();
    index::File::write_data_iter_to_stream(
        index::Version::V2,
        move || Ok((resolve, pack)),
        &mut it,
        Some(1),
        &mut gix_features::progress::Discard,
        &mut out,
        &AtomicBool::new(false),
        gix_hash::Kind::Sha1,
        data::Version::V2,
    )
    .map_err(|e| e.to_string())?;
    Ok(out)
}

/// the harness' own byte-wise V2 encoder (used for arbitrary ids the SHA-1 cannot be made to give)
fn synth_v2(sorted: &[E]) -> Vec<u8> {
    let mut o = vec![0xff, b't', b'O', b'c', 0, 0, 0, 2];
    let mut fan = [0u32; 256];
    for e in sorted {
        for b in e.id[0] as usize..256 {
            fan[b] += 1;
        }
    }
    for f in fan {
        o.extend_from_slice(&f.to_be_bytes());
    }
    for e in sorted {
        o.extend_from_slice(&e.id);
    }
    for e in sorted {
        o.extend_from_slice(&e.crc.to_be_bytes());
    }
    let mut big = Vec::new();
    for e in sorted {
        if e.offset > 0x7fff_ffff {
            o.extend_from_slice(&(0x8000_0000u32 | big.len() as u32).to_be_bytes());
            big.push(e.offset);
        } else {
            o.extend_from_slice(&(e.offset as u32).to_be_bytes());
        }
    }
    for b in big {
        o.extend_from_slice(&b.to_be_bytes());
    }
    o.extend_from_slice(&[0x11; 20]);
    o.extend_from_slice(&[0x22; 20]);
    o
}

fn synth_v1(sorted: &[E]) -> Vec<u8> {
    let mut o = Vec::new();
    let mut fan = [0u32; 256];
    for e in sorted {
        for b in e.id[0] as usize..256 {
            fan[b] += 1;
        }
    }
    for f in fan {
        o.extend_from_slice(&f.to_be_bytes());
    }
    for e in sorted {
        o.extend_from_slice(&(e.offset as u32).to_be_bytes());
        o.extend_from_slice(&e.id);
    }
    o.extend_from_slice(&[0x11; 20]);
    o.extend_from_slice(&[0x22; 20]);
    o
}

// ---------------------------------------------------------------------------------------------
// reading: a common face for index::File and multi_index::File

trait Reader {
    fn lookup(&self, id: &Id) -> Option<u32>;
    fn lookup_prefix(&self, p: gix_hash::Prefix, cand: Option<&mut std::ops::Range<u32>>) -> Option<Result<u32, ()>>;
    /// what is recorded at an entry index, canonical text
    fn info(&self, i: u32) -> String;
    /// `iter()`: (id, info) in file order
    fn scan(&self) -> Vec<(Id, String)>;
}

impl Reader for index::File {
    fn lookup(&self, id: &Id) -> Option<u32> {
        index::File::lookup(self, oid(id))
    }
    fn lookup_prefix(&self, p: gix_hash::Prefix, cand: Option<&mut std::ops::Range<u32>>) -> Option<Result<u32, ()>> {
        index::File::lookup_prefix(self, p, cand)
    }
    fn info(&self, i: u32) -> String {
        let o = self.pack_offset_at_index(i);
        match self.crc32_at_index(i) {
            Some(c) => format!("{o},{c}"),
            None => format!("{o},-"),
        }
    }
    fn scan(&self) -> Vec<(Id, String)> {
        self.iter()
            .map(|e| {
                (
                    e.oid.as_bytes().try_into().unwrap(),
                    match e.crc32 {
                        Some(c) => format!("{},{}", e.pack_offset, c),
                        None => format!("{},-", e.pack_offset),
                    },
                )
            })
            .collect()
    }
}

impl Reader for multi_index::File {
    fn lookup(&self, id: &Id) -> Option<u32> {
        multi_index::File::lookup(self, oid(id))
    }
    fn lookup_prefix(&self, p: gix_hash::Prefix, cand: Option<&mut std::ops::Range<u32>>) -> Option<Result<u32, ()>> {
        multi_index::File::lookup_prefix(self, p, cand)
    }
    fn info(&self, i: u32) -> String {
        let (p, o) = self.pack_id_and_pack_offset_at_index(i);
        format!("{p},{o}")
    }
    fn scan(&self) -> Vec<(Id, String)> {
        self.iter()
            .map(|e| (e.oid.as_bytes().try_into().unwrap(), format!("{},{}", e.pack_index, e.pack_offset)))
            .collect()
    }
}

fn show_res(r: &Option<Result<u32, ()>>) -> String {
    match r {
        None => "none".into(),
        Some(Ok(i)) => format!("u{i}"),
        Some(Err(())) => "amb".into(),
    }
}

/// what the real code answers to one query
fn answer(rd: &dyn Reader, fan_hex: &str, tables: &str, q: &str) -> String {
    let (k, rest) = q.split_at(1);
    match k {
        "F" => fan_hex.to_string(),
        "T" => tables.to_string(),
        "L" => {
            let id: Id = unhex(rest).unwrap().try_into().unwrap();
            match catch(|| rd.lookup(&id).map(|i| (i, rd.info(i)))) {
                Err(_) => "panic".into(),
                Ok(None) => "-".into(),
                Ok(Some((i, s))) => format!("{i},{s}"),
            }
        }
        "O" => {
            let i: u32 = rest.parse().unwrap();
            catch(|| rd.info(i)).unwrap_or_else(|_| "panic".into())
        }
        "P" => {
            let (h, id) = rest.split_once(',').unwrap();
            let id: Id = unhex(id).unwrap().try_into().unwrap();
            let h: usize = h.parse().unwrap();
            let p = match gix_hash::Prefix::new(&oid(&id), h) {
                Ok(p) => p,
                Err(_) => return "err".into(),
            };
            let r = catch(|| {
                let mut range = 7..3u32;
                let r1 = rd.lookup_prefix(p, Some(&mut range));
                let r2 = rd.lookup_prefix(p, None);
                format!("{},{}..{},{}", show_res(&r1), range.start, range.end, show_res(&r2))
            });
            r.unwrap_or_else(|_| "panic".into())
        }
        _ => "bad-query".into(),
    }
}

/// what a linear scan over `iter()` says the answer must be (`None`: the query has no oracle)
fn expected(scan: &[(Id, String)], q: &str) -> Option<String> {
    let (k, rest) = q.split_at(1);
    match k {
        "L" => {
            let id: Id = unhex(rest)?.try_into().ok()?;
            let hits: Vec<usize> = scan.iter().enumerate().filter(|(_, e)| e.0 == id).map(|(i, _)| i).collect();
            Some(match hits.as_slice() {
                [] => "-".into(),
                [i] => format!("{},{}", i, scan[*i].1),
                _ => return None, // duplicate ids: not a well-formed index
            })
        }
        "O" => {
            let i: usize = rest.parse().ok()?;
            scan.get(i).map(|e| e.1.clone())
        }
        "P" => {
            let (h, id) = rest.split_once(',')?;
            let h: usize = h.parse().ok()?;
            if !(4..=40).contains(&h) {
                return Some("err".into());
            }
            let want = &id[..h];
            let hits: Vec<usize> = scan
                .iter()
                .enumerate()
                .filter(|(_, e)| idhex(&e.0).starts_with(want))
                .map(|(i, _)| i)
                .collect();
            Some(match hits.len() {
                0 => "none,0..0,none".into(),
                1 => format!("u{0},{0}..{1},u{0}", hits[0], hits[0] + 1),
                n => {
                    let (a, b) = (hits[0], hits[n - 1] + 1);
                    if b - a != n {
                        return Some(format!("matches-not-contiguous {hits:?}"));
                    }
                    format!("amb,{a}..{b},amb")
                }
            })
        }
        _ => None,
    }
}

// ---------------------------------------------------------------------------------------------
// query generation

fn id_step(id: &Id, up: bool) -> Option<Id> {
    let mut o = *id;
    for i in (0..20).rev() {
        if up {
            if o[i] != 0xff {
                o[i] += 1;
                return Some(o);
            }
            o[i] = 0;
        } else {
            if o[i] != 0 {
                o[i] -= 1;
                return Some(o);
            }
            o[i] = 0xff;
        }
    }
    None
}

fn gen_queries(r: &mut Rng, ids: &[Id], with_tables: bool, prefix_focus: usize) -> Vec<String> {
    let mut q = vec!["F".to_string()];
    if with_tables {
        q.push("T".into());
    }
    let present: BTreeSet<Id> = ids.iter().copied().collect();
    // the ids all queries revolve around: first, last, a few in between
    let mut focus: Vec<Id> = Vec::new();
    if !ids.is_empty() {
        focus.push(ids[0]);
        focus.push(ids[ids.len() - 1]);
        for _ in 0..prefix_focus {
            focus.push(*r.pick(ids));
        }
    }
    focus.sort();
    focus.dedup();
    let mut targets: Vec<Id> = Vec::new();
    for id in &focus {
        targets.push(*id);
        for up in [false, true] {
            if let Some(n) = id_step(id, up) {
                targets.push(n);
            }
        }
    }
    // ids in neighbouring fan-out buckets and at the ends of the id space
    targets.push([0; 20]);
    targets.push([0xff; 20]);
    for _ in 0..2 {
        let b = r.bytes(20);
        targets.push(b.try_into().unwrap());
    }
    if let Some(id) = focus.first() {
        let mut t = *id;
        t[0] = t[0].wrapping_add(1);
        targets.push(t);
        let mut t = *id;
        t[0] = t[0].wrapping_sub(1);
        targets.push(t);
        let mut t = *id;
        t[19] ^= 0x0f;
        targets.push(t);
        let mut t = *id;
        t[r.usize(20)] ^= 1 << r.below(8);
        targets.push(t);
    }
    targets.sort();
    targets.dedup();
    for t in &targets {
        q.push(format!("L{}", idhex(t)));
    }
    // every id is looked up when the index is small
    if ids.len() <= 64 {
        for id in ids {
            if !targets.contains(id) {
                q.push(format!("L{}", idhex(id)));
            }
        }
    } else {
        for _ in 0..24 {
            q.push(format!("L{}", idhex(r.pick(ids))));
        }
    }
    // prefixes of every length of present ids and of absent neighbours
    let mut ptargets: Vec<Id> = focus.clone();
    for id in &focus {
        for up in [false, true] {
            if let Some(n) = id_step(id, up) {
                if !present.contains(&n) {
                    ptargets.push(n);
                    break;
                }
            }
        }
    }
    if let Some(id) = focus.first() {
        let mut t = *id;
        t[2 + r.usize(18)] ^= 0x10 << r.below(4);
        ptargets.push(t);
    }
    ptargets.push(r.bytes(20).try_into().unwrap());
    ptargets.sort();
    ptargets.dedup();
    for t in &ptargets {
        for h in 4..=40 {
            q.push(format!("P{},{}", h, idhex(t)));
        }
    }
    // lengths the constructor refuses
    if let Some(t) = ptargets.first() {
        for h in [0, 3, 41] {
            q.push(format!("P{},{}", h, idhex(t)));
        }
    }
    for i in 0..ids.len().min(3) {
        q.push(format!("O{}", i));
    }
    if !ids.is_empty() {
        q.push(format!("O{}", ids.len() - 1));
    }
    q
}

// ---------------------------------------------------------------------------------------------
// executing an operation line against the real code

struct Ctx {
    scratch: Scratch,
    counter: u64,
    /// the last multi-pack index gitoxide wrote, with the queries that went with it (source of `midxraw` cases)
    last_midx: Option<(Vec<u8>, Vec<String>)>,
}

impl Ctx {
    fn fresh(&mut self, stem: &str) -> PathBuf {
        self.counter += 1;
        self.scratch.join(format!("{stem}-{}", self.counter))
    }
}

fn split_bar<'a>(a: &'a [&'a str]) -> (&'a [&'a str], &'a [&'a str]) {
    match a.iter().position(|x| *x == "|") {
        Some(i) => (&a[..i], &a[i + 1..]),
        None => (a, &[]),
    }
}

fn short(op: &str) -> String {
    let mut h: u64 = 0xcbf29ce484222325;
    for b in op.bytes() {
        h ^= b as u64;
        h = h.wrapping_mul(0x100000001b3);
    }
    format!("{h:016x}")
}

/// compare every answer with the linear-scan oracle
fn judge(rep: &mut Report, what: &str, n: usize, qs: &[&str], answers: &[String], scan: &[(Id, String)], op: &str) {
    for (q, a) in qs.iter().zip(answers) {
        if let Some(e) = expected(scan, q) {
            rep.oracle_checked();
            if &e != a {
                let qshort = if q.len() > 48 { &q[..48] } else { q };
                rep.oracle_failure(
                    &format!("{what} n={n} query={qshort}"),
                    &format!("query {q}: the real code answers '{a}', a linear scan over iter() gives '{e}' (index of {n} entries, op {})", short(op)),
                    op,
                );
            }
        }
    }
}

fn run_idx_file(
    rep: &mut Report,
    ctx: &mut Ctx,
    what: &str,
    bytes: &[u8],
    qs: &[&str],
    op: &str,
    written: Option<&[E]>,
    tables: &str,
) -> String {
    let path = ctx.fresh("x.idx");
    std::fs::write(&path, bytes).expect("write idx");
    let f = match catch(|| index::File::at(&path, gix_hash::Kind::Sha1)) {
        Err(_) => return "panic".into(),
        Ok(Err(index::init::Error::Corrupt { .. })) => return "err:corrupt".into(),
        Ok(Err(index::init::Error::UnsupportedVersion { .. })) => return "err:version".into(),
        Ok(Err(_)) => return "err:io".into(),
        Ok(Ok(f)) => f,
    };
    let fan_hex = if f.version() == index::Version::V2 { hex(&bytes[8..1032]) } else { hex(&bytes[..1024]) };
    let answers: Vec<String> = qs.iter().map(|q| answer(&f, &fan_hex, tables, q)).collect();
    // oracle
    match catch(|| f.scan()) {
        Ok(scan) => {
            // the domain of the property: what an index writer produces — ids strictly ascending and the
            // fan-out table holding the cumulative counts of first bytes (a damaged header that makes the
            // reader take other bytes for the fan-out table is outside it)
            let fan_bytes = if f.version() == index::Version::V2 { &bytes[8..1032] } else { &bytes[..1024] };
            let fan_ok = (0..256usize).all(|b| {
                let want = scan.iter().filter(|e| e.0[0] as usize <= b).count() as u32;
                u32::from_be_bytes(fan_bytes[4 * b..4 * b + 4].try_into().unwrap()) == want
            });
            let well_formed = scan.windows(2).all(|w| w[0].0 < w[1].0) && scan.len() == f.num_objects() as usize && fan_ok;
            if let Some(es) = written {
                let mut want: Vec<(Id, String)> = es.iter().map(|e| (e.id, format!("{},{}", e.offset, e.crc))).collect();
                want.sort();
                rep.oracle_checked();
                if want != scan {
                    let first = want.iter().zip(&scan).position(|(a, b)| a != b).unwrap_or(want.len().min(scan.len()));
                    rep.oracle_failure(
                        &format!("{what} n={} iter-differs-from-written at={first}", es.len()),
                        &format!(
                            "iter() of the written index differs from the written entries at position {first}: written {:?}, read {:?}",
                            want.get(first).map(|e| (idhex(&e.0), e.1.clone())),
                            scan.get(first).map(|e| (idhex(&e.0), e.1.clone()))
                        ),
                        op,
                    );
                }
            }
            if well_formed {
                judge(rep, what, scan.len(), qs, &answers, &scan, op);
            } else {
                rep.outside_domain("index file whose ids are not strictly ascending or whose fan-out table is not the cumulative count of first bytes: no oracle");
            }
        }
        Err(_) => rep.outside_domain("iter() panics on a malformed index file: no oracle"),
    }
    drop(f);
    let _ = std::fs::remove_file(&path);
    answers.join(" ")
}

fn exec_idx(rep: &mut Report, ctx: &mut Ctx, a: &[&str], op: &str) -> Option<String> {
    let n: usize = a.get(1)?.parse().ok()?;
    let (es, qs) = split_bar(&a[2..]);
    if es.len() != n {
        return None;
    }
    let es: Vec<E> = es.iter().map(|s| parse_entry(s)).collect::<Option<_>>()?;
    for e in &es {
        if blob_id(e.content.as_ref()?) != e.id {
            rep.note("idx op whose content does not hash to the id: skipped");
            return None;
        }
    }
    let bytes = match catch(|| write_with_gitoxide(&es)) {
        Err(m) => {
            rep.oracle_failure(&format!("idx-write-panic n={n}"), &format!("the index writer panicked: {m}"), op);
            return Some("panic".into());
        }
        Ok(Err(m)) => {
            rep.oracle_failure(&format!("idx-write-error n={n}"), &format!("the index writer failed: {m}"), op);
            return Some("write-error".into());
        }
        Ok(Ok(b)) => b,
    };
    let tables = hex(&bytes[..bytes.len() - 40]);
    Some(run_idx_file(rep, ctx, "idx", &bytes, qs, op, Some(&es), &tables))
}

fn exec_raw(rep: &mut Report, ctx: &mut Ctx, a: &[&str], op: &str) -> Option<String> {
    let bytes = unhex(a.get(1)?)?;
    if a.get(2) != Some(&"|") {
        return None;
    }
    Some(run_idx_file(rep, ctx, "raw", &bytes, &a[3..], op, None, "-"))
}

struct PackIn {
    mtime: u64,
    entries: Vec<E>,
}

fn parse_packs(a: &[&str]) -> Option<(Vec<PackIn>, usize)> {
    let np: usize = a.get(1)?.parse().ok()?;
    let mut i = 2;
    let mut packs = Vec::new();
    for _ in 0..np {
        let mtime: u64 = a.get(i)?.parse().ok()?;
        let n: usize = a.get(i + 1)?.parse().ok()?;
        i += 2;
        let mut entries = Vec::new();
        for _ in 0..n {
            entries.push(parse_entry(a.get(i)?)?);
            i += 1;
        }
        packs.push(PackIn { mtime, entries });
    }
    Some((packs, i))
}

/// chunks of a multi-pack-index file: id -> bytes
fn midx_chunks(b: &[u8]) -> BTreeMap<[u8; 4], Vec<u8>> {
    let mut m = BTreeMap::new();
    let n = b[6] as usize;
    let mut toc = Vec::new();
    for k in 0..=n {
        let e = &b[12 + k * 12..12 + k * 12 + 12];
        let id: [u8; 4] = e[..4].try_into().unwrap();
        let ofs = u64::from_be_bytes(e[4..].try_into().unwrap()) as usize;
        toc.push((id, ofs));
    }
    for k in 0..n {
        m.insert(toc[k].0, b[toc[k].1..toc[k + 1].1].to_vec());
    }
    m
}

/// `midxw <packs> {<mtime> <n> <entries>}*`: the bytes `write_from_index_paths` produces for these packs (index files
/// named pack-0000.idx, …), without the trailing checksum — compared byte for byte with the model's layout
fn exec_midxw(ctx: &mut Ctx, a: &[&str]) -> Option<String> {
    let (packs, at) = parse_packs(a)?;
    if at != a.len() {
        return None;
    }
    let dir = ctx.fresh("midxw");
    std::fs::create_dir_all(&dir).ok()?;
    let mut paths = Vec::new();
    for (k, p) in packs.iter().enumerate() {
        let mut sorted = p.entries.clone();
        sorted.sort_by(|x, y| x.id.cmp(&y.id));
        let path = dir.join(format!("pack-{k:04}.idx"));
        std::fs::write(&path, synth_v2(&sorted)).ok()?;
        let f = std::fs::File::options().write(true).open(&path).ok()?;
        f.set_modified(std::time::UNIX_EPOCH + std::time::Duration::from_secs(p.mtime)).ok()?;
        paths.push(path);
    }
    let written = catch(|| {
        let mut out = Vec::new();
        multi_index::File::write_from_index_paths(
            paths.clone(),
            &mut out,
            &mut gix_features::progress::Discard,
            &AtomicBool::new(false),
            multi_index::write::Options { object_hash: gix_hash::Kind::Sha1 },
        )
        .map(|_| out)
        .map_err(|e| e.to_string())
    });
    let _ = std::fs::remove_dir_all(&dir);
    Some(match written {
        Err(_) => "panic".into(),
        Ok(Err(_)) => "write-error".into(),
        Ok(Ok(b)) => hex(&b[..b.len().saturating_sub(20)]),
    })
}

fn exec_midx(rep: &mut Report, ctx: &mut Ctx, a: &[&str], op: &str) -> Option<String> {
    let (packs, at) = parse_packs(a)?;
    if a.get(at) != Some(&"|") {
        return None;
    }
    let qs = &a[at + 1..];
    let dir = ctx.fresh("midx");
    std::fs::create_dir_all(&dir).ok()?;
    let mut paths = Vec::new();
    for (k, p) in packs.iter().enumerate() {
        let mut sorted = p.entries.clone();
        sorted.sort_by(|x, y| x.id.cmp(&y.id));
        let path = dir.join(format!("pack-{k:04}.idx"));
        std::fs::write(&path, synth_v2(&sorted)).ok()?;
        let f = std::fs::File::options().write(true).open(&path).ok()?;
        f.set_modified(std::time::UNIX_EPOCH + std::time::Duration::from_secs(p.mtime)).ok()?;
        paths.push(path);
    }
    // hand the paths over in a scrambled order: the writer sorts them
    paths.reverse();
    let written = catch(|| {
        let mut out = Vec::new();
        multi_index::File::write_from_index_paths(
            paths.clone(),
            &mut out,
            &mut gix_features::progress::Discard,
            &AtomicBool::new(false),
            multi_index::write::Options { object_hash: gix_hash::Kind::Sha1 },
        )
        .map(|_| out)
        .map_err(|e| e.to_string())
    });
    let total: usize = packs.iter().map(|p| p.entries.len()).sum();
    let bytes = match written {
        Err(m) => {
            rep.oracle_failure(&format!("midx-write-panic packs={} entries={total}", packs.len()), &format!("the multi-index writer panicked: {m}"), op);
            let _ = std::fs::remove_dir_all(&dir);
            return Some("panic".into());
        }
        Ok(Err(m)) => {
            rep.oracle_failure(&format!("midx-write-error packs={} entries={total}", packs.len()), &format!("the multi-index writer failed: {m}"), op);
            let _ = std::fs::remove_dir_all(&dir);
            return Some("write-error".into());
        }
        Ok(Ok(b)) => b,
    };
    let mpath = dir.join("multi-pack-index");
    std::fs::write(&mpath, &bytes).ok()?;
    ctx.last_midx = Some((bytes.clone(), qs.iter().filter(|q| **q != "T").map(|q| q.to_string()).collect()));
    let obs = match catch(|| multi_index::File::at(&mpath)) {
        Err(m) => {
            rep.oracle_failure(
                &format!("midx-open-panic packs={} entries={total}", packs.len()),
                &format!("multi_index::File::at panics on the file gitoxide's own writer produced: {m}"),
                op,
            );
            "open-panic".to_string()
        }
        Ok(Err(e)) => {
            rep.oracle_failure(
                &format!("midx-open-error packs={} entries={total}", packs.len()),
                &format!("multi_index::File::at rejects the file gitoxide's own writer produced: {e}"),
                op,
            );
            "open-error".to_string()
        }
        Ok(Ok(f)) => {
            let ch = midx_chunks(&bytes);
            let fan_hex = hex(ch.get(b"OIDF").map(|v| v.as_slice()).unwrap_or(&[]));
            let ooff = ch.get(b"OOFF").cloned().unwrap_or_default();
            let (mut pk, mut o32) = (Vec::new(), Vec::new());
            for c in ooff.chunks_exact(8) {
                pk.extend_from_slice(&c[..4]);
                o32.extend_from_slice(&c[4..]);
            }
            let tables = format!(
                "{}/{}/{}",
                hex(&pk),
                hex(&o32),
                match ch.get(b"LOFF") {
                    Some(l) => hex(l),
                    None => "none".into(),
                }
            );
            let answers: Vec<String> = qs.iter().map(|q| answer(&f, &fan_hex, &tables, q)).collect();
            match catch(|| f.scan()) {
                Ok(scan) => {
                    // what must have been recorded: per id the entry of the newest index, ties → lowest pack index
                    let mut best: BTreeMap<Id, (u64, usize, u64)> = BTreeMap::new();
                    for (k, p) in packs.iter().enumerate() {
                        for e in &p.entries {
                            let cand = (p.mtime, k, e.offset);
                            match best.get(&e.id) {
                                Some(b) if b.0 > cand.0 || (b.0 == cand.0 && b.1 <= cand.1) => {}
                                _ => {
                                    best.insert(e.id, cand);
                                }
                            }
                        }
                    }
                    let want: Vec<(Id, String)> = best.iter().map(|(id, b)| (*id, format!("{},{}", b.1, b.2))).collect();
                    rep.oracle_checked();
                    if want != scan {
                        let first = want.iter().zip(&scan).position(|(a, b)| a != b).unwrap_or(want.len().min(scan.len()));
                        rep.oracle_failure(
                            &format!("midx packs={} entries={total} iter-differs-from-written at={first}", packs.len()),
                            &format!(
                                "iter() of the written multi-index differs from the entry set at position {first}: expected {:?}, read {:?}",
                                want.get(first).map(|e| (idhex(&e.0), e.1.clone())),
                                scan.get(first).map(|e| (idhex(&e.0), e.1.clone()))
                            ),
                            op,
                        );
                    }
                    judge(rep, "midx", scan.len(), qs, &answers, &scan, op);
                }
                Err(m) => rep.oracle_failure(&format!("midx-iter-panic packs={} entries={total}", packs.len()), &m, op),
            }
            answers.join(" ")
        }
    };
    let _ = std::fs::remove_dir_all(&dir);
    Some(obs)
}

/// chunk ranges of a chunk file, parsed defensively (None if the table of contents is not usable)
fn chunk_ranges(b: &[u8], toc_at: usize) -> Option<Vec<([u8; 4], usize, usize)>> {
    let n = *b.get(6)? as usize;
    let mut toc = Vec::new();
    for k in 0..=n {
        let e = b.get(toc_at + 12 * k..toc_at + 12 * k + 12)?;
        toc.push(([e[0], e[1], e[2], e[3]], u64::from_be_bytes(e[4..].try_into().ok()?) as usize));
    }
    let mut out = Vec::new();
    for k in 0..n {
        if toc[k].1 > toc[k + 1].1 || toc[k + 1].1 > b.len() {
            return None;
        }
        out.push((toc[k].0, toc[k].1, toc[k + 1].1));
    }
    Some(out)
}

fn midx_open_err(e: &multi_index::init::Error) -> String {
    use multi_index::init::Error::*;
    match e {
        Io { .. } => "err:io".into(),
        Corrupt { .. } => "err:corrupt".into(),
        UnsupportedVersion { .. } => "err:version".into(),
        UnsupportedObjectHash { .. } => "err:hash".into(),
        ChunkFileDecode(c) => {
            let m = c.to_string();
            let k = if m.starts_with("Sentinel value encountered") {
                "early-sentinel"
            } else if m.starts_with("Sentinel value wasn't found") {
                "missing-sentinel"
            } else if m.starts_with("The chunk offset") {
                "out-of-bounds"
            } else if m.starts_with("All chunk offsets") {
                "non-incremental"
            } else if m.starts_with("The chunk of kind") {
                "duplicate"
            } else if m.starts_with("The table of contents") {
                "toc-too-small"
            } else if m.starts_with("Empty chunk indices") {
                "empty"
            } else {
                "other"
            };
            format!("err:chunk:{k}")
        }
        MissingChunk(_) | FileTooLarge(_) => "err:missing-chunk".into(),
        MultiPackFanSize => "err:fan-size".into(),
        PackNames(_) => "err:names".into(),
        InvalidChunkSize { .. } => "err:chunk-size".into(),
    }
}

/// `midxraw <multi-pack-index bytes> | queries`: opened and queried with the real reader
fn exec_midxraw(rep: &mut Report, ctx: &mut Ctx, a: &[&str], op: &str) -> Option<String> {
    let bytes = unhex(a.get(1)?)?;
    if a.get(2) != Some(&"|") {
        return None;
    }
    let qs = &a[3..];
    // the model compares index names as byte strings; `PathBuf` does so only for plain file names
    if let Some(r) = chunk_ranges(&bytes, 12) {
        if let Some((_, s, e)) = r.iter().find(|c| &c.0 == b"PNAM") {
            let names = &bytes[*s..*e];
            if names.contains(&b'/') || names.split(|b| *b == 0).any(|n| n == b"." || n == b"..") {
                rep.outside_domain("multi-pack-index whose index names are not plain file names: skipped");
                return None;
            }
        }
    }
    let dir = ctx.fresh("midxraw");
    std::fs::create_dir_all(&dir).ok()?;
    let mpath = dir.join("multi-pack-index");
    std::fs::write(&mpath, &bytes).ok()?;
    let obs = match catch(|| multi_index::File::at(&mpath)) {
        Err(_) => "panic".to_string(),
        Ok(Err(e)) => midx_open_err(&e),
        Ok(Ok(f)) => {
            let ranges = chunk_ranges(&bytes, 12).unwrap_or_default();
            let chunk = |id: &[u8; 4]| ranges.iter().find(|c| &c.0 == id).map(|c| &bytes[c.1..c.2]);
            let fan_hex = hex(chunk(b"OIDF").unwrap_or(&[]));
            let tables = format!(
                "{},{},{}",
                f.num_objects(),
                f.num_indices(),
                f.index_names().iter().map(|n| hex(n.to_string_lossy().as_bytes())).collect::<Vec<_>>().join(",")
            );
            let answers: Vec<String> = qs.iter().map(|q| answer(&f, &fan_hex, &tables, q)).collect();
            // oracle, on what a writer produces: ids strictly ascending, fan-out = cumulative counts
            if let Ok(scan) = catch(|| f.scan()) {
                let fan_ok = chunk(b"OIDF").map_or(false, |fan| {
                    fan.len() == 1024
                        && (0..256usize).all(|b| {
                            let want = scan.iter().filter(|e| e.0[0] as usize <= b).count() as u32;
                            u32::from_be_bytes(fan[4 * b..4 * b + 4].try_into().unwrap()) == want
                        })
                });
                if fan_ok && scan.windows(2).all(|w| w[0].0 < w[1].0) {
                    let escapes_ok = !answers.iter().any(|x| x == "panic");
                    if escapes_ok {
                        judge(rep, "midxraw", scan.len(), qs, &answers, &scan, op);
                    } else {
                        rep.outside_domain("multi-pack-index with a large-offset index past the end of the file: no oracle");
                    }
                }
            }
            answers.join(" ")
        }
    };
    let _ = std::fs::remove_dir_all(&dir);
    Some(obs)
}

/// random damage to a multi-pack-index file: correspondence only
fn mutate_midx(r: &mut Rng, f: &mut Vec<u8>, rep: &mut Report) {
    let kind = r.below(9);
    rep.bucket(&format!("midxraw:mutation{kind}"));
    let n_chunks = f[6] as usize;
    let ranges = chunk_ranges(f, 12).unwrap_or_default();
    let find = |id: &[u8; 4]| ranges.iter().find(|c| &c.0 == id).map(|c| (c.1, c.2));
    match kind {
        0 => {
            let keep = r.usize(f.len());
            f.truncate(keep);
        }
        1 => {
            let k = r.usize(12);
            f[k] ^= 1 << r.below(8);
        }
        2 => {
            // a chunk offset, low bytes
            let e = r.usize(n_chunks + 1);
            let k = 12 + 12 * e + 10 + r.usize(2);
            if k < f.len() {
                f[k] = f[k].wrapping_add(1 + r.below(40) as u8);
            }
        }
        3 => {
            if let Some((s, _)) = find(b"OIDF") {
                let k = s + r.usize(1024);
                f[k] ^= 1 << r.below(3);
            }
        }
        4 => {
            // an offset entry becomes a large-offset escape
            if let Some((s, e)) = find(b"OOFF") {
                if e > s {
                    let entry = r.usize((e - s) / 8);
                    f[s + entry * 8 + 4] |= 0x80;
                    if r.chance(1, 2) {
                        f[s + entry * 8 + 7] = 0xff;
                    }
                }
            }
        }
        5 => f[6] = f[6].wrapping_add(*r.pick(&[1u8, 255])),
        6 => {
            // a chunk id in the table of contents
            let e = r.usize(n_chunks.max(1));
            let k = 12 + 12 * e + r.usize(4);
            if k < f.len() {
                f[k] ^= 0x01;
            }
        }
        7 => {
            let extra = r.usize(3) + 1;
            f.extend(std::iter::repeat(0).take(extra));
        }
        _ => {
            // the pack count in the header
            f[11] = f[11].wrapping_add(*r.pick(&[1u8, 255]));
        }
    }
}

fn exec(rep: &mut Report, ctx: &mut Ctx, op: &str) {
    let a: Vec<&str> = op.split(' ').collect();
    let obs = match a[0] {
        "idx" => exec_idx(rep, ctx, &a, op),
        "raw" => exec_raw(rep, ctx, &a, op),
        "midx" => exec_midx(rep, ctx, &a, op),
        "midxraw" => exec_midxraw(rep, ctx, &a, op),
        "midxw" => exec_midxw(ctx, &a),
        _ => None,
    };
    match obs {
        Some(o) => {
            let nontrivial = a.len() > 4;
            rep.case(op, &o, nontrivial);
        }
        None => rep.note(&format!("op not executable: {}", &op[..op.len().min(80)])),
    }
}

// ---------------------------------------------------------------------------------------------
// generators

const BOUNDARY_OFFSETS: [u64; 14] = [
    0,
    12,
    (1 << 31) - 1,
    1 << 31,
    (1 << 31) + 1,
    (1 << 32) - 1,
    1 << 32,
    (1 << 32) + 1,
    1 << 40,
    (1 << 63) - 1,
    1 << 63,
    (1 << 63) + 1,
    u64::MAX - (1 << 20),
    0x8000_0000_0000_0000 + 0x8000_0000,
];

/// `n` distinct offsets; `style` 0: small only, 1: all above 2^31, 2: below 2^32 but across 2^31, 3: mixed with boundaries
fn gen_offsets(r: &mut Rng, n: usize, style: u64) -> Vec<u64> {
    let mut seen = BTreeSet::new();
    let mut out = Vec::new();
    let mut bi = r.usize(BOUNDARY_OFFSETS.len());
    while out.len() < n {
        let o = match style {
            0 => r.below(1 << 31),
            1 => (1u64 << 31) + (r.u64() >> r.below(33).max(1)) % ((1u64 << 63) - (1 << 31)),
            2 => {
                if r.chance(1, 2) {
                    (1u64 << 31) - 1 - r.below(4) + r.below(8)
                } else {
                    r.below(1 << 32)
                }
            }
            _ => match r.below(4) {
                0 => {
                    bi = (bi + 1) % BOUNDARY_OFFSETS.len();
                    BOUNDARY_OFFSETS[bi]
                }
                1 => {
                    let b = *r.pick(&BOUNDARY_OFFSETS);
                    b.saturating_add(r.below(5)).saturating_sub(r.below(5)).min(u64::MAX - (1 << 20))
                }
                2 => r.below(1 << 31),
                _ => (r.u64() >> r.below(40)).min(u64::MAX - (1 << 20)),
            },
        };
        if seen.insert(o) {
            out.push(o);
        }
    }
    out
}

fn gen_crc(r: &mut Rng) -> u32 {
    match r.below(5) {
        0 => *r.pick(&[0u32, 1, 0x7fff_ffff, 0x8000_0000, u32::MAX]),
        _ => r.u64() as u32,
    }
}

struct Grinder {
    tag: u64,
    counter: u64,
}

impl Grinder {
    /// a blob whose id starts with one of `first` (any if empty)
    fn blob(&mut self, first: &[u8]) -> (Id, Vec<u8>) {
        loop {
            self.counter += 1;
            let content = format!("{:x}.{}", self.tag, self.counter).into_bytes();
            let id = blob_id(&content);
            if first.is_empty() || first.contains(&id[0]) {
                return (id, content);
            }
        }
    }
}

fn offset_class(es: &[E]) -> &'static str {
    let big = es.iter().filter(|e| e.offset > 0x7fff_ffff).count();
    if es.is_empty() {
        "none"
    } else if big == 0 {
        "all-31bit"
    } else if big == es.len() {
        "all-64bit"
    } else {
        "mixed"
    }
}

/// an entry set for the real writer; `shape` picks the fan-out distribution
fn gen_idx_op(r: &mut Rng, g: &mut Grinder, shape: u64, n: usize, ostyle: u64, rep: &mut Report) -> String {
    let (n, buckets): (usize, Vec<u8>) = match shape {
        0 => (0, vec![]),
        1 => (1, vec![]),
        2 => (n.min(24), vec![0x00]),
        3 => (n.min(24), vec![0xff]),
        4 => (n.min(24), vec![1 + r.below(254) as u8]),
        5 => {
            let b = r.below(255) as u8;
            (n.min(40), vec![b, b + 1])
        }
        6 => (n.min(40), vec![0x00, 0xff]),
        _ => (n, vec![]),
    };
    let offs = gen_offsets(r, n, ostyle);
    let mut es = Vec::new();
    let mut seen = BTreeSet::new();
    while es.len() < n {
        let (id, content) = g.blob(&buckets);
        if seen.insert(id) {
            es.push(E { id, offset: offs[es.len()], crc: gen_crc(r), content: Some(content) });
        }
    }
    r.shuffle(&mut es);
    rep.bucket(&format!("idx:shape{}:{}:n{}", shape.min(7), offset_class(&es), size_class(n)));
    let mut ids: Vec<Id> = es.iter().map(|e| e.id).collect();
    ids.sort();
    let qs = gen_queries(r, &ids, n <= 48, if n > 100 { 2 } else { 3 });
    format!("idx {} {}{}| {}", n, es.iter().map(entry_text).collect::<Vec<_>>().join(" "), if n == 0 { "" } else { " " }, qs.join(" "))
}

fn size_class(n: usize) -> &'static str {
    match n {
        0 => "0",
        1 => "1",
        2..=8 => "2-8",
        9..=64 => "9-64",
        65..=512 => "65-512",
        _ => "513+",
    }
}

/// arbitrary ids: clusters sharing long prefixes, runs of consecutive ids, the ends of the id space
fn gen_synth_ids(r: &mut Rng, n: usize, shape: u64) -> Vec<Id> {
    let mut set = BTreeSet::new();
    let rand_id = |r: &mut Rng| -> Id { r.bytes(20).try_into().unwrap() };
    let mut guard = 0;
    while set.len() < n && guard < 100_000 {
        guard += 1;
        match shape {
            0 => {
                // clusters sharing k nibbles
                let base = rand_id(r);
                let k = 1 + r.usize(39);
                for _ in 0..1 + r.usize(4) {
                    let mut id = rand_id(r);
                    for nib in 0..k {
                        let b = nib / 2;
                        if nib % 2 == 0 {
                            id[b] = (id[b] & 0x0f) | (base[b] & 0xf0);
                        } else {
                            id[b] = (id[b] & 0xf0) | (base[b] & 0x0f);
                        }
                    }
                    if set.len() < n {
                        set.insert(id);
                    }
                }
            }
            1 => {
                // consecutive ids
                let mut id = rand_id(r);
                if r.chance(1, 3) {
                    id[19] = 0xfe;
                    id[18] = 0xff;
                }
                for _ in 0..1 + r.usize(6) {
                    if set.len() < n {
                        set.insert(id);
                    }
                    id = id_step(&id, true).unwrap_or([0; 20]);
                }
            }
            2 => {
                // the ends of the id space and of buckets
                let cands: [Id; 6] = [
                    [0; 20],
                    id_step(&[0; 20], true).unwrap(),
                    [0xff; 20],
                    id_step(&[0xff; 20], false).unwrap(),
                    {
                        let mut t = [0xff; 20];
                        t[0] = r.byte();
                        t
                    },
                    {
                        let mut t = [0; 20];
                        t[0] = r.byte();
                        t
                    },
                ];
                set.insert(*r.pick(&cands));
                if r.chance(1, 3) {
                    set.insert(rand_id(r));
                }
            }
            3 => {
                // one fan-out bucket only, differing in a single nibble position
                let base = set.iter().next().copied().unwrap_or_else(|| rand_id(r));
                let mut id = base;
                let nib = 2 + r.usize(38);
                let v = r.below(16) as u8;
                if nib % 2 == 0 {
                    id[nib / 2] = (id[nib / 2] & 0x0f) | (v << 4);
                } else {
                    id[nib / 2] = (id[nib / 2] & 0xf0) | v;
                }
                set.insert(id);
            }
            _ => {
                set.insert(rand_id(r));
            }
        }
    }
    set.into_iter().collect()
}

fn gen_synth_entries(r: &mut Rng, n: usize, shape: u64, ostyle: u64) -> Vec<E> {
    let ids = gen_synth_ids(r, n, shape);
    let offs = gen_offsets(r, ids.len(), ostyle);
    ids.iter().zip(offs).map(|(id, o)| E { id: *id, offset: o, crc: gen_crc(r), content: None }).collect()
}

fn gen_raw_op(r: &mut Rng, n: usize, shape: u64, ostyle: u64, v1: bool, rep: &mut Report) -> String {
    let es = gen_synth_entries(r, n, shape, if v1 { ostyle.min(2) } else { ostyle });
    let bytes = if v1 { synth_v1(&es) } else { synth_v2(&es) };
    let ids: Vec<Id> = es.iter().map(|e| e.id).collect();
    rep.bucket(&format!("raw:{}:shape{}:{}:n{}", if v1 { "v1" } else { "v2" }, shape.min(4), offset_class(&es), size_class(es.len())));
    let mut qs = gen_queries(r, &ids, false, 2);
    qs.push(format!("O{}", ids.len())); // one past the end: whatever the bytes there say (or a panic)
    format!("raw {} | {}", hex(&bytes), qs.join(" "))
}

/// malformed files: correspondence only
fn gen_malformed_op(r: &mut Rng, rep: &mut Report) -> String {
    let n = 1 + r.usize(6);
    let es = gen_synth_entries(r, n, 4, 3);
    let mut bytes = synth_v2(&es);
    let ids: Vec<Id> = es.iter().map(|e| e.id).collect();
    let kind = r.below(6);
    match kind {
        0 => bytes.truncate(r.usize(1064)),
        1 => bytes[7] = *r.pick(&[0u8, 1, 3, 255]),
        2 => {
            // cut inside the tables
            let keep = 1032 + r.usize(bytes.len() - 1032);
            bytes.truncate(keep.max(1064));
        }
        3 => {
            // fan-out claims more objects than there are
            let k = 8 + 4 * 255;
            bytes[k + 3] = bytes[k + 3].wrapping_add(1 + r.below(3) as u8);
        }
        4 => {
            // a 64-bit escape pointing past the table
            let n = es.len();
            let k = 1032 + n * 24 + 4 * r.usize(n);
            bytes[k] = 0x80;
            bytes[k + 3] = 0x7f;
        }
        _ => {
            // signature damaged: read as V1
            bytes[0] = 0xfe;
        }
    }
    rep.bucket(&format!("raw:malformed{kind}"));
    let mut qs: Vec<String> = vec!["F".into()];
    for id in ids.iter().take(3) {
        qs.push(format!("L{}", idhex(id)));
        qs.push(format!("P7,{}", idhex(id)));
    }
    qs.push("O0".into());
    qs.push(format!("O{}", ids.len()));
    format!("raw {} | {}", hex(&bytes), qs.join(" "))
}

fn gen_midx_op(r: &mut Rng, quick_sizes: bool, rep: &mut Report) -> String {
    let np = match r.below(6) {
        0 => 1,
        1 | 2 => 2,
        3 => 3,
        _ => 1 + r.usize(5),
    };
    let ostyle = r.below(4);
    let overlap = r.chance(1, 2);
    let mut packs: Vec<PackIn> = Vec::new();
    let mut all: Vec<E> = Vec::new();
    for _ in 0..np {
        let n = match r.below(6) {
            0 => 0,
            1 => 1,
            _ => 1 + r.usize(if quick_sizes { 24 } else { 200 }),
        };
        let shape = r.below(5);
        let mut es = gen_synth_entries(r, n, shape, ostyle);
        if overlap && !all.is_empty() {
            // some objects exist in several packs (at other offsets)
            let k = r.usize(4.min(all.len()) + 1);
            let have: BTreeSet<Id> = es.iter().map(|e| e.id).collect();
            for _ in 0..k {
                let e = r.pick(&all).clone();
                if !have.contains(&e.id) && !es.iter().any(|x| x.id == e.id) {
                    es.push(E { offset: gen_offsets(r, 1, ostyle)[0], ..e });
                }
            }
        }
        all.extend(es.iter().cloned());
        let mtime = if r.chance(1, 3) { 1_600_000_000 } else { 1_600_000_000 + r.below(4) };
        r.shuffle(&mut es);
        packs.push(PackIn { mtime, entries: es });
    }
    let mut ids: Vec<Id> = all.iter().map(|e| e.id).collect();
    ids.sort();
    ids.dedup();
    let big = all.iter().any(|e| e.offset > u32::MAX as u64);
    let mid = all.iter().any(|e| e.offset > 0x7fff_ffff);
    rep.bucket(&format!(
        "midx:packs{}:{}:{}:n{}",
        np.min(3),
        if big { "loff" } else if mid { "highbit-no-loff" } else { "small" },
        if overlap { "overlap" } else { "disjoint" },
        size_class(ids.len())
    ));
    let qs = gen_queries(r, &ids, ids.len() <= 48, 2);
    let mut op = format!("midx {np}");
    for p in &packs {
        op.push_str(&format!(" {} {}", p.mtime, p.entries.len()));
        for e in &p.entries {
            op.push(' ');
            op.push_str(&entry_text(e));
        }
    }
    op.push_str(" | ");
    op.push_str(&qs.join(" "));
    op
}

// ---------------------------------------------------------------------------------------------
// indices and multi-pack indices written by git itself

fn git_written(rep: &mut Report, ctx: &mut Ctx, r: &mut Rng, rounds: usize) {
    for round in 0..rounds {
        let dir = ctx.fresh("gitrepo");
        std::fs::create_dir_all(&dir).unwrap();
        git_ok(&dir, &["init", "-q", "."], None);
        let npacks = 1 + r.usize(3);
        let mut idx_files = Vec::new();
        for p in 0..npacks {
            let n = 1 + r.usize(if round == 0 { 30 } else { 300 });
            let mut ids = String::new();
            for k in 0..n {
                let content = format!("git-{round}-{p}-{k}-{}", r.below(1 << 20));
                let id = git_ok(&dir, &["hash-object", "-w", "--stdin"], Some(content.as_bytes()));
                ids.push_str(id.trim());
                ids.push('\n');
            }
            let h = git_ok(&dir, &["pack-objects", "-q", ".git/objects/pack/pack"], Some(ids.as_bytes()));
            let h = h.trim().to_string();
            let idx = dir.join(format!(".git/objects/pack/pack-{h}.idx"));
            idx_files.push(idx.clone());
            let bytes = std::fs::read(&idx).expect("idx written by git");
            let f = index::File::at(&idx, gix_hash::Kind::Sha1).expect("git idx opens");
            let ids: Vec<Id> = f.iter().map(|e| e.oid.as_bytes().try_into().unwrap()).collect();
            drop(f);
            let qs = gen_queries(r, &ids, false, 2);
            rep.bucket(&format!("git-idx:v2:n{}", size_class(ids.len())));
            exec(rep, ctx, &format!("raw {} | {}", hex(&bytes), qs.join(" ")));
            // the same pack indexed as version 1
            let v1 = dir.join(format!("v1-{p}.idx"));
            let pack = dir.join(format!(".git/objects/pack/pack-{h}.pack"));
            git_ok(&dir, &["index-pack", "--index-version=1", "-o", v1.to_str().unwrap(), pack.to_str().unwrap()], None);
            let bytes = std::fs::read(&v1).expect("v1 idx written by git");
            rep.bucket(&format!("git-idx:v1:n{}", size_class(ids.len())));
            exec(rep, ctx, &format!("raw {} | {}", hex(&bytes), qs.join(" ")));
            rep.git_checked(2);
        }
        // git's multi-pack-index over these packs: oracle only (linear scan), no model line
        git_ok(&dir, &["multi-pack-index", "write"], None);
        let mpath = dir.join(".git/objects/pack/multi-pack-index");
        match catch(|| multi_index::File::at(&mpath)) {
            Ok(Ok(f)) => {
                let scan = f.scan();
                let ids: Vec<Id> = scan.iter().map(|e| e.0).collect();
                let qs = gen_queries(r, &ids, false, 2);
                let qs: Vec<&str> = qs.iter().map(|s| s.as_str()).filter(|q| !q.starts_with('F') && !q.starts_with('T')).collect();
                let answers: Vec<String> = qs.iter().map(|q| answer(&f, "", "", q)).collect();
                let desc = format!("git-midx round={round} packs={npacks} n={}", ids.len());
                rep.oracle_only(&desc, true);
                if let Ok(mb) = std::fs::read(&mpath) {
                    if mb.len() < 60_000 {
                        rep.bucket("midxraw:git-written");
                        let qraw: Vec<String> = qs.iter().map(|q| q.to_string()).collect();
                        exec(rep, ctx, &format!("midxraw {} | F T {}", hex(&mb), qraw.join(" ")));
                    }
                }
                rep.git_checked(1);
                rep.bucket(&format!("git-midx:packs{npacks}:n{}", size_class(ids.len())));
                // the union of the packs' own indices is what must be found
                let mut union: BTreeSet<Id> = BTreeSet::new();
                for p in &idx_files {
                    let f = index::File::at(p, gix_hash::Kind::Sha1).expect("git idx opens");
                    union.extend(f.iter().map(|e| -> Id { e.oid.as_bytes().try_into().unwrap() }));
                }
                if union.iter().copied().collect::<Vec<_>>() != ids {
                    rep.oracle_failure(&desc, "the ids of git's multi-pack-index as read by gitoxide differ from the union of the pack indices", "");
                }
                judge(rep, "git-midx", ids.len(), &qs, &answers, &scan, "");
            }
            Ok(Err(e)) => rep.oracle_failure(&format!("git-midx-open round={round}"), &format!("multi-pack-index written by git does not open: {e}"), ""),
            Err(m) => rep.oracle_failure(&format!("git-midx-open round={round}"), &format!("multi-pack-index written by git panics on open: {m}"), ""),
        }
        let _ = std::fs::remove_dir_all(&dir);
    }
}

fn main() {
    let args = Args::parse();
    let mut rep = Report::new("C09", &args);
    let mut r = Rng::new(args.seed);
    let mut ctx = Ctx { scratch: Scratch::new("c09"), counter: 0, last_midx: None };
    if let Some(ops) = replay_ops(&args) {
        for op in ops {
            exec(&mut rep, &mut ctx, &op);
        }
        rep.finish();
        return;
    }
    let mut g = Grinder { tag: args.seed, counter: 0 };

    // ---- corpus: every shape once, boundary offsets, deterministically -------------------------
    for shape in 0..8 {
        for ostyle in [3, 1] {
            let op = gen_idx_op(&mut r, &mut g, shape, 12, ostyle, &mut rep);
            exec(&mut rep, &mut ctx, &op);
        }
    }
    {
        // exactly the boundary offsets
        let mut es = Vec::new();
        for (k, o) in BOUNDARY_OFFSETS.iter().enumerate() {
            let (id, content) = g.blob(&[]);
            es.push(E { id, offset: *o, crc: k as u32, content: Some(content) });
        }
        let mut ids: Vec<Id> = es.iter().map(|e| e.id).collect();
        ids.sort();
        let qs = gen_queries(&mut r, &ids, true, 3);
        rep.bucket("idx:boundary-offsets");
        let op = format!("idx {} {} | {}", es.len(), es.iter().map(entry_text).collect::<Vec<_>>().join(" "), qs.join(" "));
        exec(&mut rep, &mut ctx, &op);
    }
    for shape in 0..5 {
        for v1 in [false, true] {
            let op = gen_raw_op(&mut r, 9, shape, 3, v1, &mut rep);
            exec(&mut rep, &mut ctx, &op);
        }
    }
    {
        let op = "raw - | F".to_string();
        exec(&mut rep, &mut ctx, &op);
        let op = format!("raw {} | F L{} P4,{}", hex(&synth_v2(&[])), idhex(&[0; 20]), idhex(&[0xff; 20]));
        exec(&mut rep, &mut ctx, &op);
        let op = format!("raw {} | F L{} P4,{}", hex(&synth_v1(&[])), idhex(&[0; 20]), idhex(&[0xff; 20]));
        exec(&mut rep, &mut ctx, &op);
    }

    // `File::at` validation (fan-out monotonic, size fits the object count) and the one inconsistency it cannot
    // rule out: a 64-bit escape index pointing past the end of the file (accepted; reading that offset panics)
    {
        let one = [E { id: [0; 20], offset: 7, crc: 7, content: None }];
        let z = idhex(&[0; 20]);
        let mut escape = synth_v2(&one);
        let k = 1032 + 24;
        escape[k..k + 4].copy_from_slice(&0x8000_0005u32.to_be_bytes());
        let mut nonmono = synth_v2(&[]);
        nonmono[8..12].copy_from_slice(&5u32.to_be_bytes());
        let mut too_short = synth_v2(&[]);
        for b in 0..256 {
            too_short[8 + 4 * b..12 + 4 * b].copy_from_slice(&2u32.to_be_bytes());
        }
        let mut trailing = synth_v2(&one);
        trailing.push(0);
        let mut v1_long = synth_v1(&one);
        v1_long.push(0);
        let mut v1_short = synth_v1(&one);
        v1_short.pop();
        let mut max64 = synth_v2(&one);
        let at = max64.len() - 40;
        max64.splice(at..at, [0u8; 8]);
        let mut over64 = max64.clone();
        over64.splice(at..at, [0u8; 8]);
        for (name, f) in [
            ("escape-past-eof", escape),
            ("fan-not-monotonic", nonmono),
            ("too-short-for-fan", too_short),
            ("v2-one-trailing-byte", trailing),
            ("v1-one-byte-long", v1_long),
            ("v1-one-byte-short", v1_short),
            ("v2-max-64bit-table", max64),
            ("v2-64bit-table-too-long", over64),
        ] {
            rep.bucket(&format!("raw:validate:{name}"));
            exec(&mut rep, &mut ctx, &format!("raw {} | F L{z} P7,{z} O0 O1", hex(&f)));
        }
    }
    // multi-pack indices: no objects at all, duplicates across packs with equal and different
    // mtimes, offsets on both sides of the LOFF decision (u32::MAX)
    {
        let z = idhex(&[0; 20]);
        let f = idhex(&[0xff; 20]);
        for op in [
            format!("midx 0 | F L{z} P4,{z}"),
            format!("midx 1 1600000000 0 | F T L{z} P4,{f}"),
            format!("midx 2 1600000000 0 1600000001 0 | F T L{f}"),
        ] {
            rep.bucket("midx:empty");
            exec(&mut rep, &mut ctx, &op);
            if let Some((packs_part, _)) = op.split_once(" | ") {
                exec(&mut rep, &mut ctx, &packs_part.replacen("midx", "midxw", 1));
            }
        }
        let a: Id = [0xab; 20];
        let mut b = a;
        b[19] = 0xac;
        let c: Id = [0x01; 20];
        for (m0, m1, big) in [(5u64, 9u64, u32::MAX as u64), (9, 5, u32::MAX as u64 + 1), (7, 7, 1u64 << 31), (7, 7, (1u64 << 31) - 1)] {
            let ids = vec![c, a, b];
            let qs = gen_queries(&mut r, &ids, true, 3);
            let op = format!(
                "midx 3 {m0} 2 {}:12:0 {}:{big}:0 {m1} 2 {}:77:0 {}:2147483648:0 {m0} 1 {}:99:0 | {}",
                idhex(&a),
                idhex(&b),
                idhex(&a),
                idhex(&c),
                idhex(&a),
                qs.join(" ")
            );
            rep.bucket("midx:corpus-duplicates");
            exec(&mut rep, &mut ctx, &op);
            if let Some((packs_part, _)) = op.split_once(" | ") {
                exec(&mut rep, &mut ctx, &packs_part.replacen("midx", "midxw", 1));
            }
        }
    }

    // ---- random ---------------------------------------------------------------------------------
    let rounds = args.budget(70, 1500);
    let sizes_quick = [2usize, 3, 5, 8, 17, 33, 64, 130];
    let sizes_thorough = [2usize, 3, 5, 8, 17, 33, 64, 130, 257, 600, 1500];
    for i in 0..rounds {
        let n = if args.thorough { *r.pick(&sizes_thorough) } else { *r.pick(&sizes_quick) };
        let n = if n > 600 && i % 10 != 0 { 64 } else { n };
        match r.below(10) {
            0..=2 => {
                let shape = r.below(10);
                let ostyle = r.below(4);
                let op = gen_idx_op(&mut r, &mut g, shape, n, ostyle, &mut rep);
                exec(&mut rep, &mut ctx, &op);
            }
            3..=5 => {
                let shape = r.below(5);
                let ostyle = r.below(4);
                let v1 = r.chance(1, 4);
                let op = gen_raw_op(&mut r, n.min(200), shape, ostyle, v1, &mut rep);
                exec(&mut rep, &mut ctx, &op);
            }
            6 => {
                let op = gen_malformed_op(&mut r, &mut rep);
                exec(&mut rep, &mut ctx, &op);
            }
            _ => {
                let op = gen_midx_op(&mut r, !args.thorough || i % 4 != 0, &mut rep);
                exec(&mut rep, &mut ctx, &op);
                // the writer's bytes against the model's byte layout
                if op.len() < 30_000 {
                    if let Some((packs_part, _)) = op.split_once(" | ") {
                        rep.bucket("midxw");
                        exec(&mut rep, &mut ctx, &packs_part.replacen("midx", "midxw", 1));
                    }
                }
                // the same file, and damaged versions of it, through the byte-level model
                if let Some((bytes, qs)) = ctx.last_midx.take() {
                    if bytes.len() < 40_000 {
                        rep.bucket("midxraw:gitoxide-written");
                        exec(&mut rep, &mut ctx, &format!("midxraw {} | T {}", hex(&bytes), qs.join(" ")));
                        let few: Vec<String> = qs.iter().filter(|q| !q.starts_with('P')).take(40).cloned().collect();
                        for _ in 0..2 {
                            let mut m = bytes.clone();
                            mutate_midx(&mut r, &mut m, &mut rep);
                            exec(&mut rep, &mut ctx, &format!("midxraw {} | T {}", hex(&m), few.join(" ")));
                        }
                    }
                }
            }
        }
    }
    git_written(&mut rep, &mut ctx, &mut r, if args.thorough { 6 } else { 1 });
    rep.finish();
}

#[allow(dead_code)]
fn unused(_: &Path) {}
